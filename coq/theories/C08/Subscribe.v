(* C08 - a subscribe that races with the disconnect of another connection lands in the bound set object, and a
   connection whose reset_connection has finished is a member of nothing.  All schedules of the model of the code. *)
From Coq Require Import List Arith Bool Lia.
Import ListNotations.
Require Import FV.C08.Model FV.C08.Lemmas FV.C08.Table FV.C08.Snapshot FV.C08.Silence.

Lemma tid_eq_dec : forall a b : tid, {a = b} + {a <> b}.
Proof. decide equality; apply Nat.eq_dec. Qed.

(* ---- steps of driver threads touch neither the tables nor the connection threads *)
Lemma upd_step_frame : forall nd s u x,
  let s' := cstep nd s (TU u, x) in
  actv s' = actv s /\ tbl s' = tbl s /\ cth s' = cth s.
Proof.
  intros nd s u x s'. unfold s'.
  apply (cstep_cases nd s (TU u, x)); simpl; intros; try discriminate; unfold release in *; unf; auto.
Qed.

(* a step of another thread (connection or driver) does not change what connection c listens to, nor its thread *)
Lemma listening_persists : forall nd s st c, fst st <> TC c ->
  cth (cstep nd s st) c = cth s c /\ forall p, listens (cstep nd s st) c p = listens s c p.
Proof.
  intros nd s [[a | u] x] c N; simpl in N.
  - assert (A : a <> c) by congruence. destruct (isolation nd s a x c A) as [_ [E [L _]]]. auto.
  - destruct (upd_step_frame nd s u x) as [E1 [E2 E3]]. split; [rewrite E3; auto |].
    intros. apply listens_ext; auto.
Qed.

(* ---- the activation in progress *)
Definition in_scope (pc : cpc) : option scope :=
  match pc with
  | CAcqU sc _ | CBuild sc _ _ _ | CSendU sc _ _ _ _ _ | CSendR (RpActive sc) => Some sc
  | _ => None
  end.
(* from the add (module / parameter scope) or the registration (whole node) on, the connection listens to every
   parameter of the scope *)
Definition act_inv (s : state) (c : conn) : Prop :=
  match in_scope (c_pc (cth s c)) with
  | Some sc => forall p, covers sc p = true -> listens s c p = true
  | None => True
  end.

Lemma act_inv_enter : forall s c sc g,
  (forall p, covers sc p = true -> listens s c p = true) -> act_inv (enter_groups s c sc g) c.
Proof.
  intros s c sc g H. unfold act_inv.
  destruct (cth_enter_self s c sc g) as [_ [[_ E] | [_ E]]]; rewrite E; simpl; intros; rewrite listens_enter; auto.
Qed.

Lemma act_inv_step : forall nd s st c, tbl_wf s -> act_inv s c -> act_inv (cstep nd s st) c.
Proof.
  intros nd s st c WF A. destruct (tid_eq_dec (fst st) (TC c)) as [E | N].
  2:{ destruct (listening_persists nd s st c N) as [E1 E2]. unfold act_inv in *. rewrite E1.
      destruct (in_scope (c_pc (cth s c))); auto. intros; rewrite E2; auto. }
  destruct st as [t x]; simpl in E; subst t.
  apply (cstep_cases nd s (TC c, x)); simpl; intros; try discriminate; try (inversion H; subst c0; clear H); auto;
    try (unfold act_inv; unf; rewrite ?upd_same; simpl; auto; fail).
  - (* handler *) apply handle_cases; intros; subst r; try (unfold act_inv; unf; rewrite ?upd_same; simpl; auto; fail).
    apply act_inv_enter. intros p _. rewrite (listens_ext (register_g s c)) by reflexivity.
    rewrite listens_register_g, Nat.eqb_refl. apply orb_true_r.
  - (* module lock, nothing to send *) unfold act_inv in A. rewrite H0 in A. simpl in A. apply act_inv_enter; auto.
  - (* module lock *) unfold act_inv in *. rewrite H0 in A. unf. rewrite upd_same; simpl. exact A.
  - (* build *) unfold act_inv in *. rewrite H0 in A. unf. rewrite upd_same; simpl. exact A.
  - (* last initial update of a module *) unfold act_inv in A. rewrite H0 in A. simpl in A. apply act_inv_enter.
    intros p C. rewrite <- (A p C). apply listens_ext; reflexivity.
  - (* initial update *) unfold act_inv in *. rewrite H0 in A. unf. rewrite upd_same; simpl. exact A.
  - (* subscribe, second half: the set object is the one bound to the event *)
    destruct (wf_live s c sc id WF H0) as [LV NG]. apply act_inv_enter. intros p C.
    apply (listens_add_live s c id sc p); auto. apply live_spec; auto.
  - (* last discard *) unfold act_inv. destruct (cth_after_self (discard_target false s c t) c k) as [_ E]. rewrite E.
    destruct k; simpl; auto.
Qed.

Lemma act_inv_init : forall cs us c, act_inv (init cs us) c.
Proof. intros; unfold act_inv; simpl; auto. Qed.

(* all schedules: while the initial updates are sent and when the 'active' reply is about to be handed over, the
   connection listens to every parameter of the scope *)
Lemma subscribed_when_active : forall nd cs us sched c sc,
  let s := run nd cs us sched in
  in_scope (c_pc (cth s c)) = Some sc -> forall p, covers sc p = true -> listens s c p = true.
Proof.
  intros nd cs us sched c sc s H.
  assert (I : tbl_wf s /\ act_inv s c).
  { unfold s, run. apply (run_invariant nd (fun s => tbl_wf s /\ act_inv s c)).
    - intros s0 st [W A]. split; [apply wf_step; auto | apply act_inv_step; auto].
    - split; [apply wf_init | apply act_inv_init]. }
  destruct I as [_ A]. unfold act_inv in A. rewrite H in A. exact A.
Qed.

(* ---- reset_connection: what is left to discard covers every membership of the connection *)
Definition nomember (s : state) (c : conn) : Prop :=
  (forall e, In e (tbl s) -> ~ In c (e_mem e)) /\ ~ In c (actv s).

Lemma nomember_listens : forall s c p, nomember s c -> listens s c p = false.
Proof.
  intros s c p [M A]. rewrite listens_memt.
  destruct (memt c (SP (fst p) (snd p)) (tbl s)) eqn:E1; [apply memt_true in E1; destruct E1 as [e [I [_ X]]]; exfalso; eapply M; eauto |].
  destruct (memt c (SM (fst p)) (tbl s)) eqn:E2; [apply memt_true in E2; destruct E2 as [e [I [_ X]]]; exfalso; eapply M; eauto |].
  destruct (memc c (actv s)) eqn:E3; [apply memc_In in E3; contradiction | reflexivity].
Qed.

Definition covered (s : state) (c : conn) (ts : list target) : Prop :=
  (forall e, In e (tbl s) -> In c (e_mem e) -> In (TSet (e_id e)) ts) /\ (In c (actv s) -> In TActv ts).

Definition reset_inv (s : state) (c : conn) : Prop :=
  match c_pc (cth s c) with
  | CDisc ts _ => covered s c ts
  | CSendR RpIdent => nomember s c
  | CDone => nomember s c
  | _ => True
  end.

(* the memberships of c in s' are memberships in s *)
Definition mono (s s' : state) (c : conn) : Prop :=
  (forall e', In e' (tbl s') -> In c (e_mem e') -> exists e, In e (tbl s) /\ e_id e = e_id e' /\ In c (e_mem e))
  /\ (In c (actv s') -> In c (actv s)).

Lemma mono_same : forall s s' c, tbl s' = tbl s -> actv s' = actv s -> mono s s' c.
Proof. intros s s' c E1 E2. split; rewrite ?E1, ?E2; auto. intros e I M. exists e; auto. Qed.
Lemma mono_map : forall s s' c f, tbl s' = map f (tbl s) ->
  (forall e, e_id (f e) = e_id e /\ (In c (e_mem (f e)) -> In c (e_mem e))) ->
  (In c (actv s') -> In c (actv s)) -> mono s s' c.
Proof.
  intros s s' c f E F A. split; auto. rewrite E. intros e' I M. apply in_map_iff in I. destruct I as [e [<- I]].
  destruct (F e) as [F1 F2]. exists e. auto.
Qed.
Lemma mono_covered : forall s s' c ts, mono s s' c -> covered s c ts -> covered s' c ts.
Proof.
  intros s s' c ts [M1 M2] [C1 C2]. split; auto. intros e' I M. destruct (M1 e' I M) as [e [I0 [E M0]]]. rewrite <- E. auto.
Qed.
Lemma mono_nomember : forall s s' c, mono s s' c -> nomember s c -> nomember s' c.
Proof.
  intros s s' c [M1 M2] [C1 C2]. split; auto. intros e' I M. destruct (M1 e' I M) as [e [I0 [E M0]]]. eapply C1; eauto.
Qed.

Lemma mono_unregister : forall s a sc c, mono s (unregister s a sc) c.
Proof.
  intros. destruct sc.
  - split; simpl; [intros e I M; exists e; auto | intros I; apply In_remc in I; tauto].
  - apply (mono_map _ _ c (mem_unsub a (SM m))); auto. intros e. unfold mem_unsub.
    destruct (key_hits (SM m) (e_key e)); simpl; split; auto. intros I; apply In_remc in I; tauto.
  - apply (mono_map _ _ c (mem_unsub a (SP m p))); auto. intros e. unfold mem_unsub.
    destruct (key_hits (SP m p) (e_key e)); simpl; split; auto. intros I; apply In_remc in I; tauto.
Qed.
Lemma mono_discard : forall s a t c, mono s (discard_target false s a t) c.
Proof.
  intros. destruct t as [id |].
  - apply (mono_map _ _ c (mem_del a id)); auto. intros e. unfold mem_del.
    destruct (Nat.eqb (e_id e) id); simpl; split; auto. intros I; apply In_remc in I; tauto.
  - split; simpl; [intros e I M; exists e; auto | intros I; apply In_remc in I; tauto].
Qed.
Lemma mono_lookup : forall s sc c, mono s (fst (lookup s sc)) c.
Proof.
  intros. apply (lookup_cases s sc (fun r => mono s (fst r) c)); simpl; intros.
  - apply mono_same; auto.
  - split; simpl; auto. intros e I M. apply in_app_or in I. destruct I as [I | [<- | []]]; [exists e; auto | destruct M].
Qed.
Lemma mono_add_other : forall s a id c, c <> a -> mono s (add_to s a id) c.
Proof.
  intros. apply (mono_map _ _ c (mem_add a id)); auto. intros e. unfold mem_add.
  destruct (Nat.eqb (e_id e) id); simpl; split; auto. intros [E | I]; [congruence | auto].
Qed.
Lemma mono_trans_ext : forall s s1 s' c, mono s s1 c -> tbl s' = tbl s1 -> actv s' = actv s1 -> mono s s' c.
Proof. intros s s1 s' c [M1 M2] E1 E2. split; rewrite ?E1, ?E2; auto. Qed.

(* a step of another connection, or of a driver thread, adds no membership of c *)
Lemma mono_other : forall nd s st c, fst st <> TC c -> mono s (cstep nd s st) c.
Proof.
  intros nd s st c N.
  apply (cstep_cases nd s st (fun s' => mono s s' c)); intros; unfold release in *;
    try (apply mono_same; unf; auto; fail).
  - apply handle_cases; intros; try (apply mono_same; unf; auto; fail).
    + apply (mono_trans_ext s (unregister s c0 sc)); [apply mono_unregister | unf; auto | unf; auto].
    + split; unf; [intros e I M; exists e; auto |]. intros [E | I]; auto. subst c0. congruence.
    + apply (mono_trans_ext s (fst (lookup s sc))); [apply mono_lookup | unf; auto | unf; auto].
  - apply (mono_trans_ext s (add_to s c0 id)); [apply mono_add_other; congruence | unf; auto | unf; auto].
  - apply (mono_trans_ext s (discard_target false s c0 t)); [apply mono_discard | unf; auto | unf; auto].
  - apply (mono_trans_ext s (discard_target false s c0 t)); [apply mono_discard | unf; auto | unf; auto].
Qed.

(* one discard removes the memberships in its target *)
Lemma discard_covered : forall s c t ts, covered s c (t :: ts) -> covered (discard_target false s c t) c ts.
Proof.
  intros s c t ts [C1 C2]. destruct t as [id |]; split; simpl.
  - intros e' I M. apply in_map_iff in I. destruct I as [e [<- I]]. unfold mem_del in *.
    destruct (Nat.eqb (e_id e) id) eqn:E; simpl in *.
    + apply In_remc in M. tauto.
    + destruct (C1 e I M) as [X | X]; auto. inversion X. apply Nat.eqb_neq in E. congruence.
  - intros A. destruct (C2 A) as [X | X]; auto. discriminate.
  - intros e I M. destruct (C1 e I M) as [X | X]; auto. discriminate.
  - intros A. apply In_remc in A. tauto.
Qed.
Lemma covered_nil : forall s c, covered s c [] -> nomember s c.
Proof. intros s c [C1 C2]. split; [intros e I M; apply (C1 e I M) | intros A; apply (C2 A)]. Qed.
Lemma covered_all : forall s c, covered s c (reset_targets s).
Proof.
  intros. unfold reset_targets. split; intros; apply in_or_app; [left | right; simpl; auto].
  apply in_map_iff. exists e; auto.
Qed.

Lemma reset_inv_enter : forall s c sc g, reset_inv (enter_groups s c sc g) c.
Proof. intros. unfold reset_inv. destruct (cth_enter_self s c sc g) as [_ [[_ E] | [_ E]]]; rewrite E; auto. Qed.

Lemma reset_inv_step : forall nd s st c, reset_inv s c -> reset_inv (cstep nd s st) c.
Proof.
  intros nd s st c A. destruct (tid_eq_dec (fst st) (TC c)) as [E | N].
  2:{ destruct (listening_persists nd s st c N) as [E1 _]. pose proof (mono_other nd s st c N) as M.
      unfold reset_inv in *. rewrite E1. destruct (c_pc (cth s c)); auto.
      - destruct r; auto. eapply mono_nomember; eauto.
      - eapply mono_covered; eauto.
      - eapply mono_nomember; eauto. }
  destruct st as [t x]; simpl in E; subst t.
  apply (cstep_cases nd s (TC c, x)); simpl; intros; try discriminate; try (inversion H; subst c0; clear H); auto;
    try (apply reset_inv_enter; fail);
    try (unfold reset_inv; unf; rewrite ?upd_same; simpl; auto; fail).
  - (* close *) unfold reset_inv; unf. rewrite upd_same; simpl.
    apply (mono_covered s); [apply mono_same; reflexivity | apply covered_all].
  - (* handler *) apply handle_cases; intros; subst r; try (apply reset_inv_enter; fail);
      try (unfold reset_inv; unf; rewrite ?upd_same; simpl; auto; fail).
    unfold reset_inv; unf. rewrite upd_same; simpl.
    apply (mono_covered s); [apply mono_same; reflexivity | apply covered_all].
  - (* last discard *) unfold reset_inv in A. rewrite H0 in A. apply discard_covered, covered_nil in A.
    unfold reset_inv. destruct (cth_after_self (discard_target false s c t) c k) as [_ E]. rewrite E.
    assert (X : nomember (after_reset (discard_target false s c t) c k) c).
    { destruct A as [A1 A2]. split; [rewrite tbl_after | rewrite actv_after]; auto. }
    destruct k; exact X.
  - (* discard *) unfold reset_inv in A. rewrite H0 in A. apply discard_covered in A.
    unfold reset_inv; unf. rewrite upd_same; simpl. exact A.
Qed.

Lemma reset_inv_init : forall cs us c, reset_inv (init cs us) c.
Proof. intros; unfold reset_inv; simpl; auto. Qed.

(* all schedules: when the reply of an identification request is about to be handed over, and when the thread of a
   closed connection has finished (remove_connection returned), the connection listens to nothing *)
Lemma reset_removes_all : forall nd cs us sched c,
  let s := run nd cs us sched in
  c_pc (cth s c) = CSendR RpIdent \/ c_pc (cth s c) = CDone -> forall p, listens s c p = false.
Proof.
  intros nd cs us sched c s H p.
  assert (I : reset_inv s c).
  { unfold s, run. apply (run_invariant nd (fun s => reset_inv s c)); [intros; apply reset_inv_step; auto | apply reset_inv_init]. }
  apply nomember_listens. unfold reset_inv in I. destruct H as [H | H]; rewrite H in I; exact I.
Qed.

(* the step that receives the close marks the log and starts reset_connection over the sets bound at that moment *)
Lemma close_starts_reset : forall nd s c x rest,
  c_pc (cth s c) = CRecv -> c_script (cth s c) = RClose :: rest ->
  let s' := cstep nd s (TC c, x) in
  logs s' c = logs s c ++ [EClose] /\ c_pc (cth s' c) = CDisc (reset_targets s) KClose /\
  forall p, listens s' c p = listens s c p.
Proof.
  intros. unfold s', cstep, cstep_gen, cstep_conn_gen, cenabled; simpl. rewrite H, H0; simpl. unf. rewrite !upd_same; simpl.
  repeat split; auto.
Qed.
