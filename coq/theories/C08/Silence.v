(* C08 - scope isolation between connections, what each deactivating step removes, and silence after the end of a
   scope (guarded by: no broadcast to this connection in flight) *)
From Coq Require Import List Arith Bool Lia.
Import ListNotations.
Require Import FV.C08.Model FV.C08.Lemmas FV.C08.Table FV.C08.Snapshot.

(* ---- steps on behalf of connection a never change what connection b holds, receives or is subscribed to *)
Lemma isolation : forall nd s a x b, a <> b ->
  let s' := cstep nd s (TC a, x) in
  logs s' b = logs s b /\ cth s' b = cth s b /\ (forall p, listens s' b p = listens s b p) /\
  uth s' = uth s /\ cache s' = cache s /\ bcasts s' = bcasts s.
Proof.
  intros nd s a x b N s'. unfold s'.
  apply (cstep_cases nd s (TC a, x)); simpl; intros; try discriminate;
    try (inversion H; subst c; clear H).
  - repeat split; auto.
  - unf. rewrite upd_other by auto. repeat split; auto.
  - unf. rewrite !upd_other by auto. repeat split; auto.
  - unf. rewrite !upd_other by auto. repeat split; auto.
  - apply handle_cases; intros; subst r; try rewrite cth_enter_other by auto; unf; rewrite ?upd_other by auto;
      repeat split; auto; intros.
    + rewrite <- (listens_unregister_other s a sc b p) by auto. apply listens_ext; reflexivity.
    + rewrite ?listens_enter. transitivity (listens (register_g s a) b p); [apply listens_ext; reflexivity |].
      rewrite listens_register_g. apply Nat.eqb_neq in N. rewrite (Nat.eqb_sym b a), N; simpl. apply orb_false_r.
    + rewrite <- (listens_lookup s sc b p). apply listens_ext; reflexivity.
  - rewrite cth_enter_other by auto. unf. repeat split; auto. intros; apply listens_enter.
  - unf. rewrite upd_other by auto. repeat split; auto.
  - unf. rewrite upd_other by auto. repeat split; auto.
  - rewrite cth_enter_other by auto. unf. rewrite !upd_other by auto. repeat split; auto.
    intros; rewrite listens_enter; apply listens_ext; reflexivity.
  - unf. rewrite !upd_other by auto. repeat split; auto.
  - unf. rewrite !upd_other by auto. repeat split; auto.
  - rewrite cth_enter_other by auto. unf. repeat split; auto. intros. rewrite listens_enter. apply listens_add_other; auto.
  - rewrite cth_after_other by auto. unf. repeat split; auto. intros. rewrite listens_after. apply listens_discard_other; auto.
  - unf. rewrite !upd_other by auto. repeat split; auto. intros.
    rewrite <- (listens_discard_other s a t b p) by auto. apply listens_ext; reflexivity.
Qed.

(* ---- what the deactivating steps remove *)
Lemma cstep_acq : forall nd s c x r, c_pc (cth s c) = CAcq r -> dlock s = None ->
  cstep nd s (TC c, x) = handle nd s c r.
Proof. intros. unfold cstep, cstep_gen, cstep_conn_gen, cenabled; simpl. rewrite H, H0; simpl. reflexivity. Qed.

Lemma deactivate_removes : forall nd s c x sc p,
  c_pc (cth s c) = CAcq (RDeact sc false) -> dlock s = None ->
  listens (cstep nd s (TC c, x)) c p =
  match sc with
  | SG => mems c (SP (fst p) (snd p)) (subs s) || mems c (SM (fst p)) (subs s)
  | SM m => if Nat.eqb m (fst p) then memc c (actv s) else listens s c p
  | SP m q => if Nat.eqb m (fst p) && Nat.eqb q (snd p) then mems c (SM (fst p)) (subs s) || memc c (actv s)
              else listens s c p
  end.
Proof.
  intros. rewrite (cstep_acq nd s c x _ H H0); simpl.
  rewrite <- listens_unregister_self. apply listens_ext; unfold set_cpc; simpl; auto.
Qed.

(* ---- silence *)
Definition updates_of (p : pid) (l : list entry) : list entry :=
  filter (fun e => match e with EUpd q _ => pid_eqb q p | _ => false end) l.

(* a broadcast of p that still has to serve connection c *)
Definition uflight (s : state) (c : conn) (p : pid) : Prop :=
  exists u v all pend, u_pc (uth s u) = USend p v all pend /\ In c pend.
(* the connection's own activation still has to send p *)
Definition cflight (s : state) (c : conn) (p : pid) : Prop :=
  match pending_snapshot (c_pc (cth s c)) with Some (_, rest) => In p rest | None => False end.
Definition act_covering (p : pid) (r : req) : Prop :=
  match r with RAct sc _ => covers sc p = true | _ => False end.
(* an activate request covering p is being processed or still to come *)
Definition wants (s : state) (c : conn) (p : pid) : Prop :=
  match c_pc (cth s c) with CAcq r => act_covering p r | CAdd sc _ => covers sc p = true | _ => False end
  \/ Exists (act_covering p) (c_script (cth s c)).

Definition silent (s : state) (c : conn) (p : pid) : Prop :=
  listens s c p = false /\ ~ uflight s c p /\ ~ cflight s c p /\ ~ wants s c p.

Lemma updates_of_app : forall p l e, updates_of p (l ++ [e]) =
  updates_of p l ++ (if match e with EUpd q _ => pid_eqb q p | _ => false end then [e] else []).
Proof. intros. unfold updates_of. rewrite filter_app; simpl. destruct e; auto. Qed.

Lemma uflight_frame : forall s s' u c p,
  (forall u', u' <> u -> uth s' u' = uth s u') ->
  (forall v all pend, u_pc (uth s' u) = USend p v all pend -> In c pend -> uflight s c p) ->
  uflight s' c p -> uflight s c p.
Proof.
  intros s s' u c p O S [u' [v [all [pend [E I]]]]]. destruct (Nat.eq_dec u' u) as [-> | N].
  - eapply S; eauto.
  - rewrite O in E by auto. exists u', v, all, pend; auto.
Qed.

Lemma not_usend_next : forall s u p v all pend, u_pc (uth (next_upd s u) u) = USend p v all pend -> False.
Proof. intros. destruct (uth_next_upd_self s u) as [_ [E | E]]; rewrite E in H; discriminate. Qed.

Lemma silent_enter : forall s c sc g p,
  listens s c p = false -> ~ uflight s c p -> ~ In p (flat g) -> ~ Exists (act_covering p) (c_script (cth s c)) ->
  silent (enter_groups s c sc g) c p.
Proof.
  intros s c sc g p L U F W. unfold silent, uflight, cflight, wants. rewrite listens_enter, uth_enter.
  destruct (cth_enter_self s c sc g) as [E1 [[-> E2] | [G E2]]]; rewrite E1, E2; simpl; repeat split; auto; tauto.
Qed.

Lemma silent_after : forall s c k p,
  listens s c p = false -> ~ uflight s c p -> ~ Exists (act_covering p) (c_script (cth s c)) ->
  silent (after_reset s c k) c p.
Proof.
  intros s c k p L U W. unfold silent, uflight, cflight, wants. rewrite listens_after, uth_after.
  destruct (cth_after_self s c k) as [E1 E2]; rewrite E1, E2. destruct k; simpl; repeat split; auto; tauto.
Qed.

Lemma silent_own_step : forall nd s c x p, tbl_wf s -> silent s c p ->
  silent (cstep nd s (TC c, x)) c p /\ updates_of p (logs (cstep nd s (TC c, x)) c) = updates_of p (logs s c).
Proof.
  intros nd s c x p WF [L [U [C W]]].
  apply (cstep_cases nd s (TC c, x)); simpl; intros; try discriminate; try (inversion H; subst c0; clear H).
  - split; [split |]; auto.
  - (* start *) unfold silent, uflight, cflight, wants in *; unf. rewrite !upd_same; simpl.
    rewrite H0 in *. repeat split; auto; try (intros [[] | E]; auto; fail).
  - (* close *) unfold silent, uflight, cflight, wants in *; unf. rewrite !upd_same; simpl.
    rewrite H0, H1 in *. rewrite updates_of_app; simpl. rewrite app_nil_r. repeat split; auto.
    intros [[] | E]. apply W. right. constructor 2; auto.
  - (* request *) unfold silent, uflight, cflight, wants in *; unf. rewrite !upd_same; simpl.
    rewrite H0, H1 in *. rewrite updates_of_app; simpl. rewrite app_nil_r. repeat split; auto.
    intros [E | E]; apply W; right; [constructor 1 | constructor 2]; auto.
  - (* handler *)
    assert (NW : ~ act_covering p r) by (intros E; apply W; left; rewrite H0; auto).
    assert (WS : ~ Exists (act_covering p) (c_script (cth s c))) by (intros E; apply W; right; auto).
    apply handle_cases; intros; subst r;
      try (unfold silent, uflight, cflight, wants in *; unf;
           rewrite ?upd_same; simpl; (split; [split; [| split; [| split]] |]); auto; try tauto; fail).
    + unfold silent, uflight, cflight, wants in *; unf. rewrite ?upd_same; simpl.
      (split; [split; [| split; [| split]] |]); auto; try tauto.
      destruct (listens (set_cth (unregister s c sc) (upd (cth s) c {| c_pc := CSendR RpInactive; c_script := c_script (cth s c) |})) c p) eqn:E; auto.
      rewrite (listens_ext (unregister s c sc)) in E by reflexivity. apply listens_unregister_le in E; congruence.
    + unfold silent, uflight, cflight, wants in *; unf. rewrite ?upd_same; simpl.
      (split; [split; [| split; [| split]] |]); auto; try tauto.
      rewrite <- L, <- (listens_lookup s sc c p). apply listens_ext; reflexivity.
  - (* module lock, nothing to send *)
    split; [| unf; auto]. unfold cflight in C. rewrite H0 in C. simpl in C.
    apply silent_enter; auto. intros E; apply W; right; auto.
  - (* module lock *) unfold silent, uflight, cflight, wants in *; unf. rewrite !upd_same; simpl.
    rewrite H0 in *. simpl in C. repeat split; auto; try (intros [[] | E]; auto; fail).
  - (* build *) unfold silent, uflight, cflight, wants in *; unf. rewrite !upd_same; simpl.
    rewrite H0 in *. simpl in C. repeat split; auto; try (intros [[] | E]; auto; fail).
  - (* last snapshot message of a module *)
    unfold cflight in C. rewrite H0 in C. simpl in C.
    assert (Q1 : pid_eqb (m, i) p = false) by (apply pid_eqb_neq; tauto).
    split.
    + apply silent_enter; unf; auto. intros E; apply W; right; auto.
    + unf. rewrite upd_same, updates_of_app, Q1, app_nil_r. auto.
  - (* snapshot message *)
    unfold cflight in C. rewrite H0 in C. simpl in C.
    assert (Q1 : pid_eqb (m, i) p = false) by (apply pid_eqb_neq; tauto).
    unfold silent, uflight, cflight, wants in *; unf. rewrite !upd_same; simpl.
    rewrite H0 in *. rewrite updates_of_app, Q1, app_nil_r. repeat split; auto; try tauto; try (intros [[] | E]; auto; fail).
  - (* reply *) unfold silent, uflight, cflight, wants in *; unf. rewrite !upd_same; simpl.
    rewrite H0 in *. rewrite updates_of_app; simpl. rewrite app_nil_r. repeat split; auto; try (intros [[] | E]; auto; fail).
  - (* subscribe, second half: the set object belongs to the event sc, which does not cover p *)
    assert (NC : covers sc p <> true) by (intros E; apply W; left; rewrite H0; auto).
    assert (LV : live s sc id) by (eapply wf_live; eauto).
    split; [| unf; auto]. apply silent_enter.
    + destruct (listens (add_to s c id) c p) eqn:E; auto.
      apply (listens_add_only s c id sc p) in E; [destruct E; congruence |]. apply wf_unique; auto.
    + exact U.
    + intros I. apply (snapshot_list_covers nd sc p) in I. congruence.
    + simpl. intros E; apply W; right; auto.
  - (* last discard *)
    split; [| unf; auto]. apply silent_after.
    + destruct (listens (discard_target false s c t) c p) eqn:E; auto. apply listens_discard_le in E. congruence.
    + unfold uflight in *. rewrite uth_discard. exact U.
    + rewrite cth_discard. intros E; apply W; right; auto.
  - (* discard *) unfold silent, uflight, cflight, wants in *; unf. rewrite !upd_same; simpl.
    rewrite H0 in *. repeat split; auto; try (intros [[] | E]; auto; fail).
    destruct (listens (set_cth (discard_target false s c t) (upd (cth s) c {| c_pc := CDisc (t' :: ts) k; c_script := c_script (cth s c) |})) c p) eqn:E; auto.
    rewrite (listens_ext (discard_target false s c t)) in E by reflexivity. apply listens_discard_le in E. congruence.
Qed.

Lemma silent_upd_step : forall nd s u x c p, silent s c p ->
  silent (cstep nd s (TU u, x)) c p /\ updates_of p (logs (cstep nd s (TU u, x)) c) = updates_of p (logs s c).
Proof.
  intros nd s u x c p [L [U [C W]]].
  apply (cstep_cases nd s (TU u, x)); simpl; intros; try discriminate; try (inversion H; subst u0; clear H).
  - split; [split |]; auto.
  - (* start *) unfold silent, cflight, wants; unf. repeat split; auto.
    intros F; apply U. revert F; apply (uflight_frame s _ u); simpl.
    + intros; apply uth_next_upd_other; auto.
    + intros. exfalso; eapply not_usend_next; eauto.
  - (* store, exported *) unfold silent, cflight, wants; unf. repeat split; auto.
    intros F; apply U. revert F; apply (uflight_frame s _ u); simpl.
    + intros. rewrite !upd_other by auto. reflexivity.
    + intros. rewrite !upd_same in H; simpl in H. discriminate.
  - (* store, hidden *) unfold silent, cflight, wants; unf. repeat split; auto.
    intros F; apply U. revert F; apply (uflight_frame s _ u); simpl.
    + intros. rewrite uth_next_upd_other by auto. simpl. rewrite upd_other by auto. reflexivity.
    + intros. exfalso; eapply not_usend_next; eauto.
  - (* no listeners *) unfold silent, cflight, wants; unf. repeat split; auto.
    intros F; apply U. revert F; apply (uflight_frame s _ u); simpl.
    + intros. rewrite uth_next_upd_other by auto. reflexivity.
    + intros. exfalso; eapply not_usend_next; eauto.
  - (* listeners selected *) unfold silent, cflight, wants; unf. repeat split; auto.
    intros F; apply U. revert F; apply (uflight_frame s _ u); simpl.
    + intros. rewrite upd_other by auto. reflexivity.
    + intros. rewrite upd_same in H; simpl in H. inversion H; subst. match goal with I : In c (listeners _ _) |- _ => apply listeners_spec in I end. congruence.
  - (* last send *)
    assert (Q : x = c -> pid_eqb p0 p = false).
    { intros ->. apply pid_eqb_neq. intros ->. apply U. exists u, v, all, pend; auto. }
    unfold silent, cflight, wants; unf. split; [repeat split; auto |].
    + intros F; apply U. revert F; apply (uflight_frame s _ u); simpl.
      * intros. rewrite uth_next_upd_other by auto. reflexivity.
      * intros. exfalso; eapply not_usend_next; eauto.
    + destruct (Nat.eq_dec c x) as [-> | N]; [rewrite upd_same | rewrite upd_other by auto; auto].
      rewrite updates_of_app, Q, app_nil_r; auto.
  - (* send *)
    assert (Q : x = c -> pid_eqb p0 p = false).
    { intros ->. apply pid_eqb_neq. intros ->. apply U. exists u, v, all, pend; auto. }
    unfold silent, cflight, wants; unf. split; [repeat split; auto |].
    + intros F; apply U. revert F; apply (uflight_frame s _ u); simpl.
      * intros. rewrite upd_other by auto. reflexivity.
      * intros. rewrite upd_same in H; simpl in H. inversion H; subst. exists u, v0, all0, pend. split; auto.
        match goal with I : In c (remc _ _) |- _ => apply In_remc in I; tauto end.
    + destruct (Nat.eq_dec c x) as [-> | N]; [rewrite upd_same | rewrite upd_other by auto; auto].
      rewrite updates_of_app, Q, app_nil_r; auto.
Qed.

Lemma silent_step : forall nd s st c p, tbl_wf s -> silent s c p ->
  silent (cstep nd s st) c p /\ updates_of p (logs (cstep nd s st) c) = updates_of p (logs s c).
Proof.
  intros nd s [[a | u] x] c p WF S.
  - destruct (Nat.eq_dec a c) as [-> | N]; [apply silent_own_step; auto |].
    destruct (isolation nd s a x c N) as [E1 [E2 [E3 [E4 _]]]].
    destruct S as [L [U [C W]]]. unfold silent, uflight, cflight, wants in *. rewrite E1, E2, E3, E4. repeat split; auto.
  - apply silent_upd_step; auto.
Qed.

(* once a connection does not listen to p, no broadcast of p has it in its pending set, its own activation has nothing
   left to send for p and it has no activate request covering p left: no schedule delivers an update of p to it *)
Lemma silent_forever : forall nd sched s c p, tbl_wf s -> silent s c p ->
  silent (run_from nd s sched) c p /\ updates_of p (logs (run_from nd s sched) c) = updates_of p (logs s c).
Proof.
  intros nd sched. induction sched as [| st r IH]; intros s c p WF S; simpl; [split; auto |].
  destruct (silent_step nd s st c p WF S) as [S' E]. destruct (IH _ c p (wf_step nd s st WF) S') as [S'' E'].
  split; auto. unfold run_from in *. rewrite E'; auto.
Qed.
