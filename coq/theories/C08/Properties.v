(* C08 - property theorems only; each is closed by a lemma of Snapshot.v / Silence.v / Fresh.v / Refuted.v.
   `sched` ranges over every interleaving of connection threads (one per connection: receive, dispatcher lock,
   set.add inside subscribe, updateLock of each module of the snapshot, make_update, send_reply, one set.discard per event
   inside reset_connection) and driver threads (updateLock, make_update, send_reply per listener) at their
   synchronisation points, `nd` over every node (modules / parameters, exported or hidden), `cs` over every set of
   request scripts (activate / deactivate with global, module, parameter scope, valid or refused, *IDN?, close) on any
   number of connections, `us` over every set of update scripts on any number of driver threads.  A step of a thread
   that is not enabled (lock taken, script exhausted) leaves the state unchanged, so every list is a schedule. *)
From Coq Require Import List Arith Bool.
Import ListNotations.
Require Import FV.Gen.C08 FV.C08.Model FV.C08.Lemmas FV.C08.Table FV.C08.Snapshot FV.C08.Silence FV.C08.Subscribe FV.C08.Unsubscribe FV.C08.Fresh FV.C08.Refuted.

(* obligations on the facts regenerated from /repo (Gen/C08.v): the code has the modelled shape *)
Theorem C08_source_facts :
  request_under_dispatcher_lock = true /\ announce_under_update_lock = true /\ announce_update_shape = true /\
  broadcast_listeners_shape = true /\ activate_registers_before_snapshot = true /\
  snapshot_under_module_lock = true /\ broadcast_takes_no_dispatcher_lock = true /\
  subscribe_shape = true /\ subscription_entries_never_removed = true /\ unsubscribe_shape = true /\
  unsubscribe_reaches_specific_loop = true /\ deactivate_shape = true /\ reset_shape = true /\
  handler_replies_after_dispatch = true.
Proof. repeat split; reflexivity. Qed.

(* all schedules: when the 'active' reply of an activate request is about to be handed to the connection, the log of
   the connection since that request consists of update messages only and holds one for every exported parameter of
   the scope (whole node, one module, one parameter) - whatever the driver threads and other connections do meanwhile *)
Theorem C08_snapshot_complete : forall nd cs us sched c sc,
  let s := run nd cs us sched in
  c_pc (cth s c) = CSendR (RpActive sc) ->
  exists pre seg, logs s c = pre ++ EReq (RAct sc false) :: seg /\ Forall is_upd seg /\
    forall p, covers sc p = true -> exported nd p = true -> exists v, In (EUpd p v) seg.
Proof.
  intros nd cs us sched c sc s H. destruct (snapshot_complete nd cs us sched c sc H) as [pre [seg [E [F K]]]].
  exists pre, seg. repeat split; auto. intros p C X. apply K. apply snapshot_list_complete; auto.
Qed.

(* from then on the connection receives every later update in scope, part 1: the listeners of a broadcast are selected
   at its make_update step and are exactly the connections listening to the parameter at that moment *)
Theorem C08_broadcast_selects_all_listeners : forall nd s u x p,
  u_pc (uth s u) = UBuild p ->
  let s' := cstep nd s (TU u, x) in
  (forall c, listens s c p = false) /\ (u_pc (uth s' u) = UDone \/ u_pc (uth s' u) = UAcq)
  \/ exists all, u_pc (uth s' u) = USend p (cache s p) all all /\ NoDup all /\ forall c, In c all <-> listens s c p = true.
Proof. exact broadcast_selects. Qed.

(* part 2, all schedules: every selected listener of a completed broadcast holds its message *)
Theorem C08_every_listener_receives : forall nd cs us sched p v all c,
  In (p, v, all) (bcasts (run nd cs us sched)) -> In c all -> In (EUpd p v) (logs (run nd cs us sched) c).
Proof. exact broadcast_delivered. Qed.

(* the scopes of other connections are unaffected: a step on behalf of connection a (request, registration,
   deactivation, identification, disconnect, snapshot) changes neither the log nor the thread nor any subscription
   of a connection b, nor the cache *)
Theorem C08_scope_isolation : forall nd s a x b, a <> b ->
  let s' := cstep nd s (TC a, x) in
  logs s' b = logs s b /\ cth s' b = cth s b /\ (forall p, listens s' b p = listens s b p) /\
  uth s' = uth s /\ cache s' = cache s /\ bcasts s' = bcasts s.
Proof. exact isolation. Qed.

(* the matching deactivate removes exactly its scope (a module scope also the parameter scopes below it) and leaves
   the other scopes of the same connection *)
Theorem C08_deactivate_removes_its_scope : forall nd s c x sc p,
  c_pc (cth s c) = CAcq (RDeact sc false) -> dlock s = None ->
  listens (cstep nd s (TC c, x)) c p =
  match sc with
  | SG => mems c (SP (fst p) (snd p)) (subs s) || mems c (SM (fst p)) (subs s)
  | SM m => if Nat.eqb m (fst p) then memc c (actv s) else listens s c p
  | SP m q => if Nat.eqb m (fst p) && Nat.eqb q (snd p) then mems c (SM (fst p)) (subs s) || memc c (actv s)
              else listens s c p
  end.
Proof. exact deactivate_removes. Qed.

(* a module-wide deactivate ends every parameter scope of the module, WHATEVER the history of the subscription table.
   `s` is ANY state (in particular every state reached by any scripts under any schedule - also one in which nobody ever
   activated the bare module, so that the event `m` has no entry in the table, or one in which it has) in which the
   connection is about to run `deactivate m` under the dispatcher lock.  After that step:
   (1) the reply is `inactive`; (2) the table is the one the statement-by-statement transcription of
   Dispatcher.unsubscribe gives (the loop over the more specific events runs unconditionally);
   (3, 4) the connection is a member of no set bound to `m:q` (any q) or to `m`; (5) every other membership - other
   events, other connections - is what it was; (6) the generic subscribers are untouched;
   (7) whatever the other threads (connections and drivers) do before the connection's own next step (the handing over
   of `inactive`), it listens to a parameter of m only through a global activation;
   (8) and if it has no global scope, no broadcast that selected it earlier is still in flight (the open finding
   late-update, exact guard) and its script holds no later activate covering the parameter, then NO continuation
   schedule delivers another update of that parameter to it. *)
Theorem C08_deactivate_module_removes_parameter_scopes : forall nd s c x m,
  c_pc (cth s c) = CAcq (RDeact (SM m) false) -> dlock s = None ->
  let s1 := cstep nd s (TC c, x) in
  c_pc (cth s1 c) = CSendR RpInactive /\
  tbl s1 = tbl (unsubscribe_code s c (SM m)) /\
  (forall q, mems c (SP m q) (subs s1) = false) /\ mems c (SM m) (subs s1) = false /\
  (forall c' sc', mems c' sc' (subs s1) = mems c' sc' (subs s) && negb (Nat.eqb c' c && key_hits (SM m) sc')) /\
  actv s1 = actv s /\
  (forall others, Forall (fun st : tid * conn => fst st <> TC c) others ->
     let s2 := run_from nd s1 others in
     c_pc (cth s2 c) = CSendR RpInactive /\ forall q, listens s2 c (m, q) = memc c (actv s)) /\
  (forall q sched, tbl_wf s -> memc c (actv s) = false -> ~ uflight s c (m, q) ->
     ~ Exists (act_covering (m, q)) (c_script (cth s c)) ->
     updates_of (m, q) (logs (run_from nd s1 sched) c) = updates_of (m, q) (logs s c)).
Proof. exact deactivate_module_clears. Qed.

(* NOT the code: the variant of unsubscribe that returns when the event itself has no entry (before the loop over the
   more specific events).  On a fresh table - connection c activated `m:q` only, nobody the bare module - the variant
   leaves the connection listening after `deactivate m`; the code does not.  Every step of the witness is enabled. *)
Theorem C08_refuted_parameter_scope_survives_if_unsubscribe_returns_early :
  exists nd cs us sched c m q,
    all_enabled nd (init cs us) sched = true /\
    let s := run nd cs us sched in
    logs s c = [EReq (RAct (SP m q) false); EUpd (m, q) 0; ERep (RpActive (SP m q))] /\
    find_key (SM m) (tbl s) = None /\
    listens (unsubscribe_early_return s c (SM m)) c (m, q) = true /\
    listens (unsubscribe_code s c (SM m)) c (m, q) = false.
Proof. exact refuted_early_return_keeps_parameter_scope. Qed.

(* an identification request and a disconnect remove every scope of the connection.  reset_connection is a sequence of
   steps now (one discard per event, then the generic subscribers; a disconnect runs it WITHOUT the dispatcher lock, so
   other connections subscribe and unsubscribe meanwhile).  All schedules: when the reply of the identification request
   is about to be handed over, and when the thread of a closed connection has finished, the connection listens to
   nothing.  The step that receives the close marks the log and starts the loop over the sets bound at that moment. *)
Theorem C08_ident_and_disconnect_remove_all :
  (forall nd cs us sched c,
     let s := run nd cs us sched in
     c_pc (cth s c) = CSendR RpIdent \/ c_pc (cth s c) = CDone -> forall p, listens s c p = false) /\
  (forall nd s c x rest, c_pc (cth s c) = CRecv -> c_script (cth s c) = RClose :: rest ->
     let s' := cstep nd s (TC c, x) in
     logs s' c = logs s c ++ [EClose] /\ c_pc (cth s' c) = CDisc (reset_targets s) KClose /\
     forall p, listens s' c p = listens s c p).
Proof. split; [exact reset_removes_all | exact close_starts_reset]. Qed.

(* a disconnect of one connection inside the activate of another one: Dispatcher.subscribe is two steps (lookup-or-create
   of the per-event set, then add) and remove_connection runs in the thread of the closing connection without the
   dispatcher lock.  All schedules:
   (1) the table is well formed: set identities are distinct and below the allocation counter, and the set object a
       thread holds between the two halves of subscribe is the one bound to its event;
   (2) entries of the table are never removed or rebound - for every continuation the bound set objects of now are still
       bound, to the same events, at the same places (only their members change);
   (3) hence, while the initial updates are sent and when the 'active' reply is about to be handed over, the connection
       listens to every parameter of the scope - whatever disconnects, identifications and (de)activations of other
       connections were interleaved;
   (4) and no step of another thread (connection or driver) changes what it listens to.
   With C08_broadcast_selects_all_listeners and C08_every_listener_receives: every later update in scope reaches it. *)
Theorem C08_subscribe_survives_concurrent_disconnect : forall nd cs us sched,
  let s := run nd cs us sched in
  tbl_wf s /\
  (forall sched', exists ext, shape (run nd cs us (sched ++ sched')) = shape s ++ ext) /\
  (forall c sc, in_scope (c_pc (cth s c)) = Some sc -> forall p, covers sc p = true -> listens s c p = true) /\
  (forall c st, fst st <> TC c -> forall p, listens (cstep nd s st) c p = listens s c p).
Proof.
  intros nd cs us sched s. split; [apply wf_run |]. split; [| split].
  - intros sched'. unfold s, run. rewrite run_from_app. apply run_shape_prefix.
  - intros c sc. apply subscribed_when_active.
  - intros c st N. apply (listening_persists nd s st c N).
Qed.

(* FULL STATEMENT (refuted, see C08_refuted_late_update): once connection c does not listen to p any more and has no
   activate request covering p left, no update of p is delivered to it.
   Proved with the exact guard `~ uflight s c p`: no broadcast of p that selected c before is still in flight.
   From every such state with a well-formed table (every reachable state is, C08_subscribe_survives_concurrent_disconnect),
   for every continuation schedule, the updates of p in the log of c stay what they are. *)
Theorem C08_silent_after_scope_ended_except_late_update : forall nd s sched c p,
  tbl_wf s ->
  listens s c p = false -> ~ cflight s c p -> ~ wants s c p ->
  ~ uflight s c p ->
  updates_of p (logs (run_from nd s sched) c) = updates_of p (logs s c).
Proof. intros nd s sched c p WF L C W U. apply (silent_forever nd sched s c p); auto. repeat split; auto. Qed.

(* ALL schedules (no exception any more: the stale-snapshot defect was repaired by c1c8ab8, the initial updates of a
   module are built and sent under its updateLock): once no broadcast and no snapshot of the connection is in progress,
   the last update message a listening connection holds for an exported parameter equals the cache - even when the
   activation raced with concurrent updates. *)
Theorem C08_quiescent_fresh : forall nd cs us sched c p,
  let s := run nd cs us sched in
  listens s c p = true -> exported nd p = true ->
  (forall u, upd_idle s u) -> conn_idle s c ->
  last_upd p (logs s c) = Some (cache s p).
Proof. exact quiescent_fresh. Qed.

(* the lock discipline behind it, all schedules: whoever is between make_update and the last send_reply of a module
   (a driver thread in its broadcast, a connection thread in the initial updates) owns the updateLock of that module,
   and the message it holds carries the cached value *)
Theorem C08_update_lock_discipline : forall nd cs us sched,
  let s := run nd cs us sched in
  (forall t m, holds s t m -> ulock s m = Some t) /\
  (forall u p v all pend, u_pc (uth s u) = USend p v all pend -> cache s p = v) /\
  (forall c sc m i v todo g, c_pc (cth s c) = CSendU sc m i v todo g -> cache s (m, i) = v).
Proof.
  intros nd cs us sched s.
  assert (A : all_inv nd s).
  { unfold s, run. apply (run_invariant nd (all_inv nd)); [intros; apply all_inv_step; auto | apply all_inv_init]. }
  destruct A as [L [[V1 V2] _]]. repeat split; auto.
Qed.

(* refutations on the faithful model; the witness schedules are real executions of the current code (corpus/C08) *)
Theorem C08_refuted_late_update :
  exists nd cs us sched c p,
    all_enabled nd (init cs us) sched = true /\
    let s := run nd cs us sched in
    listens s c p = false /\
    logs s c = [EReq (RAct SG false); EUpd p 0; ERep (RpActive SG); EReq (RDeact SG false); ERep RpInactive; EUpd p 1].
Proof. exact refuted_late_update. Qed.

Theorem C08_refuted_late_update_after_disconnect :
  exists nd cs us sched c p,
    all_enabled nd (init cs us) sched = true /\
    let s := run nd cs us sched in
    c_pc (cth s c) = CDone /\
    logs s c = [EReq (RAct (SP 0 0) false); EUpd p 0; ERep (RpActive (SP 0 0)); EClose; EUpd p 1].
Proof. exact refuted_late_update_after_close. Qed.

(* NOT the code: the variant of reset_connection that deletes the entry of a set that has become empty
   (`if not conns: del self._subscriptions[evt]`, model flag del = true).  Connection 0, the only subscriber of
   module 0, disconnects between the two halves of the subscribe of connection 1: connection 1 is added to the orphaned
   set object, gets its snapshot and the 'active' reply, and the later update (cache 1) is never delivered. *)
Theorem C08_refuted_subscribe_lost_if_empty_entries_are_deleted :
  exists nd cs us sched c p,
    all_enabled_gen true nd (init cs us) sched = true /\
    let s := run_from_gen true nd (init cs us) sched in
    logs s c = [EReq (RAct (SM 0) false); EUpd p 0; ERep (RpActive (SM 0))] /\
    c_pc (cth s c) = CRecv /\ c_script (cth s c) = [] /\
    cache s p = 1 /\ u_pc (uth s 0) = UDone /\ listens s c p = false /\ tbl s = [].
Proof. exact refuted_variant_loses_subscription. Qed.

(* non-vacuity: two connections (global / one parameter), one driver thread; sequential schedule: both snapshots, the
   later update reaches both, the deactivation of connection 0 leaves connection 1 listening and fresh *)
Example C08_demo :
  let nd := [(true, [true; false])] in
  let cs := [[RAct SG false; RDeact SG false]; [RAct (SP 0 0) false]] in
  let us := [[((0, 0), 5); ((0, 1), 6)]] in
  let c0 := (TC 0, 0) in let c1 := (TC 1, 0) in
  let sched := [c0; c0; c0; c0; c0; c0; c0; c1; c1; c1; c1; c1; c1; c1; c1;
                (TU 0, 0); (TU 0, 0); (TU 0, 0); (TU 0, 1); (TU 0, 0); (TU 0, 0); c0; c0; c0] in
  let s := run nd cs us sched in
  all_enabled nd (init cs us) sched = true /\
  logs s 0 = [EReq (RAct SG false); EUpd (0, 0) 0; ERep (RpActive SG); EUpd (0, 0) 5; EReq (RDeact SG false); ERep RpInactive] /\
  logs s 1 = [EReq (RAct (SP 0 0) false); EUpd (0, 0) 0; ERep (RpActive (SP 0 0)); EUpd (0, 0) 5] /\
  listens s 0 (0, 0) = false /\ listens s 1 (0, 0) = true /\ last_upd (0, 0) (logs s 1) = Some (cache s (0, 0)) /\
  bcasts s = [((0, 0), 5, [1; 0])].
Proof. vm_compute. repeat split; reflexivity. Qed.

(* non-vacuity of C08_subscribe_survives_concurrent_disconnect: the interleaving of the refutation above on the model of
   the code - connection 1 keeps its subscription and receives the later update *)
Example C08_demo_subscribe_race :
  let sched := lost_sched ++ [(TU 0, 1)] in
  let s := run one [[RAct (SM 0) false; RClose]; [RAct (SM 0) false]] [[(P00, 1)]] sched in
  all_enabled one (init [[RAct (SM 0) false; RClose]; [RAct (SM 0) false]] [[(P00, 1)]]) sched = true /\
  logs s 1 = [EReq (RAct (SM 0) false); EUpd P00 0; ERep (RpActive (SM 0)); EUpd P00 1] /\ listens s 1 P00 = true.
Proof. exact code_keeps_subscription. Qed.

(* non-vacuity of C08_deactivate_module_removes_parameter_scopes: `activate m0:value; deactivate m0` on a fresh table,
   then the driver announces value := 1 - the hypotheses of the theorem hold in the state before the deactivate step
   (no global scope, nothing in flight, no later activate), the connection gets `inactive` and no further update; and
   the control history (bare module activated and left by connection 1 before) *)
Example C08_demo_deactivate_module_fresh_table :
  let cs := [[RAct (SP 0 0) false; RDeact (SM 0) false]] in
  let us := [[(P00, 1)]] in
  let s := run one cs us (repeat (TC 0, 0) 9) in
  let s' := run one cs us (repeat (TC 0, 0) 11 ++ repeat (TU 0, 0) 3) in
  all_enabled one (init cs us) (repeat (TC 0, 0) 11 ++ repeat (TU 0, 0) 3) = true /\
  c_pc (cth s 0) = CAcq (RDeact (SM 0) false) /\ dlock s = None /\ find_key (SM 0) (tbl s) = None /\
  memc 0 (actv s) = false /\ c_script (cth s 0) = [] /\ listens s 0 P00 = true /\
  logs s' 0 = [EReq (RAct (SP 0 0) false); EUpd P00 0; ERep (RpActive (SP 0 0)); EReq (RDeact (SM 0) false); ERep RpInactive] /\
  cache s' P00 = 1 /\ u_pc (uth s' 0) = UDone /\ listens s' 0 P00 = false.
Proof. vm_compute. repeat split; reflexivity. Qed.
Example C08_demo_deactivate_module_control :
  let cs := [[RAct (SP 0 0) false]; [RAct (SM 0) false; RDeact (SM 0) false]] in
  let s := run one cs [] control_sched in
  all_enabled one (init cs []) control_sched = true /\
  find_key (SM 0) (tbl s) = Some 0 /\ listens s 0 P00 = true /\
  listens (unsubscribe_early_return s 0 (SM 0)) 0 P00 = false /\
  listens (unsubscribe_code s 0 (SM 0)) 0 P00 = false.
Proof. exact early_return_control. Qed.

Print Assumptions C08_source_facts.
Print Assumptions C08_snapshot_complete.
Print Assumptions C08_broadcast_selects_all_listeners.
Print Assumptions C08_every_listener_receives.
Print Assumptions C08_scope_isolation.
Print Assumptions C08_deactivate_removes_its_scope.
Print Assumptions C08_deactivate_module_removes_parameter_scopes.
Print Assumptions C08_refuted_parameter_scope_survives_if_unsubscribe_returns_early.
Print Assumptions C08_ident_and_disconnect_remove_all.
Print Assumptions C08_subscribe_survives_concurrent_disconnect.
Print Assumptions C08_silent_after_scope_ended_except_late_update.
Print Assumptions C08_quiescent_fresh.
Print Assumptions C08_update_lock_discipline.
Print Assumptions C08_refuted_late_update.
Print Assumptions C08_refuted_late_update_after_disconnect.
Print Assumptions C08_refuted_subscribe_lost_if_empty_entries_are_deleted.
