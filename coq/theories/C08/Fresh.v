(* C08 - freshness at quiescence for ALL schedules (since the repair c1c8ab8 the initial updates of a module are built and
   sent under its updateLock), with the lock discipline of Module.updateLock as auxiliary invariant *)
From Coq Require Import List Arith Bool Lia.
Import ListNotations.
Require Import FV.C08.Model FV.C08.Lemmas FV.C08.Table FV.C08.Snapshot FV.C08.Silence.

(* value of the last update message for p in a log *)
Definition last_upd (p : pid) (l : list entry) : option nat :=
  fold_left (fun acc e => match e with EUpd q v => if pid_eqb q p then Some v else acc | _ => acc end) l None.

Lemma last_upd_app : forall p l e, last_upd p (l ++ [e]) =
  match e with EUpd q v => if pid_eqb q p then Some v else last_upd p l | _ => last_upd p l end.
Proof. intros. unfold last_upd. rewrite fold_left_app; simpl. destruct e; auto. Qed.

(* ---- steps of connection threads touch neither the driver threads nor the cache *)
Lemma conn_step_frame : forall nd s a x,
  let s' := cstep nd s (TC a, x) in
  uth s' = uth s /\ cache s' = cache s /\ bcasts s' = bcasts s.
Proof.
  intros nd s a x s'. unfold s'.
  apply (cstep_cases nd s (TC a, x)); simpl; intros; try discriminate; try (unf; auto; fail).
  apply handle_cases; intros; subst r; unf; auto.
Qed.

(* ---- lock discipline: a driver thread between its store and the end of its broadcast, and a connection thread
   between make_update and send_reply of the initial updates of a module, own the updateLock of that module *)
Definition in_bcast (s : state) (u : nat) (p : pid) : Prop :=
  u_pc (uth s u) = UBuild p \/ exists v all pend, u_pc (uth s u) = USend p v all pend.
Definition holds (s : state) (t : tid) (m : nat) : Prop :=
  match t with
  | TU u => exists p, in_bcast s u p /\ fst p = m
  | TC c => match c_pc (cth s c) with CBuild _ m' _ _ | CSendU _ m' _ _ _ _ => m' = m | _ => False end
  end.
Definition lock_inv (s : state) : Prop := forall t m, holds s t m -> ulock s m = Some t.
(* the message of a running broadcast, and a built initial update, carry the cached value *)
Definition val1 (s : state) : Prop := forall u p v all pend, u_pc (uth s u) = USend p v all pend -> cache s p = v.
Definition val2 (s : state) : Prop :=
  forall c sc m i v todo g, c_pc (cth s c) = CSendU sc m i v todo g -> cache s (m, i) = v.
Definition val_inv (s : state) : Prop := val1 s /\ val2 s.

Lemma not_in_bcast_next : forall s u p, in_bcast (next_upd s u) u p -> False.
Proof.
  intros s u p [E | [v [all [pend E]]]]; destruct (uth_next_upd_self s u) as [_ [F | F]]; rewrite F in E; discriminate.
Qed.

Lemma lock_acquire : forall s s' t m, lock_inv s -> ulock s m = None ->
  (forall t' m', holds s' t' m' -> (t' = t /\ m' = m) \/ holds s t' m') ->
  ulock s' = upd (ulock s) m (Some t) -> lock_inv s'.
Proof.
  intros s s' t m L N H E t' m' K. rewrite E. destruct (H t' m' K) as [[-> ->] | K'].
  - apply upd_same.
  - pose proof (L t' m' K') as X. rewrite upd_other; auto. intros ->. congruence.
Qed.
Lemma lock_release : forall s s' t m, lock_inv s -> holds s t m ->
  (forall t' m', holds s' t' m' -> t' <> t /\ holds s t' m') ->
  ulock s' = upd (ulock s) m None -> lock_inv s'.
Proof.
  intros s s' t m L HT H E t' m' K. rewrite E. destruct (H t' m' K) as [N K'].
  pose proof (L t' m' K') as X. pose proof (L t m HT) as Y. rewrite upd_other; auto. intros ->. congruence.
Qed.
Lemma lock_same : forall s s', lock_inv s -> (forall t' m', holds s' t' m' -> holds s t' m') ->
  ulock s' = ulock s -> lock_inv s'.
Proof. intros s s' L H E t' m' K. rewrite E. apply L; auto. Qed.

(* holds only looks at the thread itself *)
Lemma holds_U : forall s s' u m, uth s' u = uth s u -> holds s' (TU u) m -> holds s (TU u) m.
Proof. intros s s' u m E. unfold holds, in_bcast. rewrite E. auto. Qed.
Lemma holds_C : forall s s' c m, cth s' c = cth s c -> holds s' (TC c) m -> holds s (TC c) m.
Proof. intros s s' c m E. unfold holds. rewrite E. auto. Qed.

Lemma not_holds_enter : forall s c sc g m, holds (enter_groups s c sc g) (TC c) m -> False.
Proof.
  intros s c sc g m H. unfold holds in H. destruct (cth_enter_self s c sc g) as [_ [[_ E] | [_ E]]]; rewrite E in H; auto.
Qed.

Lemma not_holds_after : forall s c k m, holds (after_reset s c k) (TC c) m -> False.
Proof.
  intros s c k m H. unfold holds in H. destruct (cth_after_self s c k) as [_ E]; rewrite E in H. destruct k; auto.
Qed.

(* a step of connection thread a: every other thread holds what it held *)
Ltac other_holder a N :=
  match goal with
  | K : holds _ ?t ?m |- _ =>
      destruct t as [c0 | u0];
      [destruct (Nat.eq_dec c0 a) as [-> | N] | ]
  end.

Lemma lock_inv_step : forall nd s st, lock_inv s -> lock_inv (cstep nd s st).
Proof.
  intros nd s [[a | u] x] L.
  - apply (cstep_cases nd s (TC a, x)); simpl; intros; auto; try discriminate; inversion H; subst c; clear H.
    + (* start *) apply (lock_same s); auto. intros t' m' K. other_holder a N.
      * unfold holds in K; unf. rewrite upd_same in K; simpl in K. destruct K.
      * revert K; apply holds_C; unf; apply upd_other; auto.
      * revert K; apply holds_U; unf; auto.
    + (* close *) apply (lock_same s); auto. intros t' m' K. other_holder a N.
      * unfold holds in K; unf. rewrite upd_same in K; simpl in K. destruct K.
      * revert K; apply holds_C; unf; apply upd_other; auto.
      * revert K; apply holds_U; unf; auto.
    + (* request *) apply (lock_same s); auto. intros t' m' K. other_holder a N.
      * unfold holds in K; unf. rewrite upd_same in K; simpl in K. destruct K.
      * revert K; apply holds_C; unf; apply upd_other; auto.
      * revert K; apply holds_U; unf; auto.
    + (* handler *) apply handle_cases; intros; subst r;
        try (apply (lock_same s); [auto | | unf; auto]; intros t' m' K; other_holder a N;
             [unfold holds in K; unf; rewrite upd_same in K; simpl in K; destruct K
             | revert K; apply holds_C; unf; apply upd_other; auto
             | revert K; apply holds_U; unf; auto]; fail).
      apply (lock_same s); [auto | | unf; auto]. intros t' m' K. other_holder a N.
      * exfalso; eapply not_holds_enter; eauto.
      * revert K; apply holds_C; rewrite cth_enter_other by auto; unf; auto.
      * revert K; apply holds_U; unf; auto.
    + (* module lock, nothing to send *) apply (lock_same s); [auto | | unf; auto]. intros t' m' K. other_holder a N.
      * exfalso; eapply not_holds_enter; eauto.
      * revert K; apply holds_C; rewrite cth_enter_other by auto; auto.
      * revert K; apply holds_U; unf; auto.
    + (* module lock taken *) apply (lock_acquire s _ (TC a) m); auto. intros t' m' K. other_holder a N.
      * left. unfold holds in K; unf. rewrite upd_same in K; simpl in K. auto.
      * right. revert K; apply holds_C; unf; apply upd_other; auto.
      * right. revert K; apply holds_U; unf; auto.
    + (* build *) apply (lock_same s); auto. intros t' m' K. other_holder a N.
      * unfold holds in *; unf. rewrite upd_same in K; simpl in K. rewrite H0. auto.
      * revert K; apply holds_C; unf; apply upd_other; auto.
      * revert K; apply holds_U; unf; auto.
    + (* last initial update of the module: lock released *)
      apply (lock_release s _ (TC a) m); auto; [unfold holds; rewrite H0; auto | | unf; auto].
      intros t' m' K. other_holder a N.
      * exfalso; eapply not_holds_enter; eauto.
      * split; [congruence |]. revert K; apply holds_C; rewrite cth_enter_other by auto; unf; auto.
      * split; [discriminate |]. revert K; apply holds_U; unf; auto.
    + (* initial update *) apply (lock_same s); auto. intros t' m' K. other_holder a N.
      * unfold holds in *; unf. rewrite upd_same in K; simpl in K. rewrite H0. auto.
      * revert K; apply holds_C; unf; apply upd_other; auto.
      * revert K; apply holds_U; unf; auto.
    + (* reply *) apply (lock_same s); auto. intros t' m' K. other_holder a N.
      * unfold holds in K; unf. rewrite upd_same in K; simpl in K. destruct K.
      * revert K; apply holds_C; unf; apply upd_other; auto.
      * revert K; apply holds_U; unf; auto.
    + (* subscribe, second half *) apply (lock_same s); [auto | | unf; auto]. intros th' m' K. other_holder a N.
      * exfalso; eapply not_holds_enter; eauto.
      * revert K; apply holds_C; rewrite cth_enter_other by auto; auto.
      * revert K; apply holds_U; unf; auto.
    + (* last discard *) apply (lock_same s); [auto | | unf; auto]. intros th' m' K. other_holder a N.
      * exfalso; eapply not_holds_after; eauto.
      * revert K; apply holds_C; rewrite cth_after_other by auto; unf; auto.
      * revert K; apply holds_U; unf; auto.
    + (* discard *) apply (lock_same s); [auto | | unf; auto]. intros th' m' K. other_holder a N.
      * unfold holds in K; unf. rewrite upd_same in K; simpl in K. destruct K.
      * revert K; apply holds_C; unf; apply upd_other; auto.
      * revert K; apply holds_U; unf; auto.
  - apply (cstep_cases nd s (TU u, x)); simpl; intros; auto; try discriminate; inversion H; subst u0; clear H;
      unfold release in *.
    + (* start *) apply (lock_same s); [auto | | unf; auto]. intros [c0 | u'] m' K.
      * revert K; apply holds_C; unf; auto.
      * destruct (Nat.eq_dec u' u) as [-> | N]; [destruct K as [q [K _]]; exfalso; eapply not_in_bcast_next; eauto |].
        revert K; apply holds_U; apply uth_next_upd_other; auto.
    + (* store, exported *) apply (lock_acquire s _ (TU u) (fst p)); auto. intros [c0 | u'] m' K.
      * right. revert K; apply holds_C; unf; auto.
      * destruct (Nat.eq_dec u' u) as [-> | N].
        -- left. destruct K as [q [[K | [? [? [? K]]]] E]]; unf; rewrite !upd_same in K; simpl in K; [| discriminate].
           inversion K; subst. auto.
        -- right. revert K; apply holds_U; unf; rewrite !upd_other by auto; auto.
    + (* store, hidden *) apply (lock_same s); [auto | | unf; auto]. intros [c0 | u'] m' K.
      * revert K; apply holds_C; unf; auto.
      * destruct (Nat.eq_dec u' u) as [-> | N]; [destruct K as [q [K _]]; exfalso; eapply not_in_bcast_next; eauto |].
        revert K; apply holds_U; rewrite uth_next_upd_other by auto; simpl; apply upd_other; auto.
    + (* no listeners *)
      apply (lock_release s _ (TU u) (fst p)); auto; [exists p; split; auto; left; auto | | unf; auto].
      intros [c0 | u'] m' K.
      * split; [discriminate |]. revert K; apply holds_C; unf; auto.
      * destruct (Nat.eq_dec u' u) as [-> | N]; [destruct K as [q [K _]]; exfalso; eapply not_in_bcast_next; eauto |].
        split; [congruence |]. revert K; apply holds_U; rewrite uth_next_upd_other by auto; auto.
    + (* listeners selected *) apply (lock_same s); auto. intros [c0 | u'] m' K.
      * revert K; apply holds_C; unf; auto.
      * destruct (Nat.eq_dec u' u) as [-> | N].
        -- destruct K as [q [[K | [? [? [? K]]]] E]]; unf; rewrite upd_same in K; simpl in K; [discriminate |].
           inversion K; subst. exists q; split; auto. left; auto.
        -- revert K; apply holds_U; unf; apply upd_other; auto.
    + (* last send *)
      apply (lock_release s _ (TU u) (fst p)); auto; [exists p; split; auto; right; eauto | | unf; auto].
      intros [c0 | u'] m' K.
      * split; [discriminate |]. revert K; apply holds_C; unf; auto.
      * destruct (Nat.eq_dec u' u) as [-> | N]; [destruct K as [q [K _]]; exfalso; eapply not_in_bcast_next; eauto |].
        split; [congruence |]. revert K; apply holds_U; rewrite uth_next_upd_other by auto; auto.
    + (* send *) apply (lock_same s); auto. intros [c0 | u'] m' K.
      * revert K; apply holds_C; unf; auto.
      * destruct (Nat.eq_dec u' u) as [-> | N].
        -- destruct K as [q [[K | [? [? [? K]]]] E]]; unf; rewrite upd_same in K; simpl in K; [discriminate |].
           inversion K; subst. exists q; split; auto. right; eauto.
        -- revert K; apply holds_U; unf; apply upd_other; auto.
Qed.

Lemma val2_upd : forall s s' a, val2 s -> cache s' = cache s ->
  (forall c0, c0 <> a -> cth s' c0 = cth s c0) ->
  (forall sc m i v todo g, c_pc (cth s' a) = CSendU sc m i v todo g -> cache s (m, i) = v) -> val2 s'.
Proof.
  intros s s' a V E O A c sc m i v todo g B. rewrite E. destruct (Nat.eq_dec c a) as [-> | N].
  - eapply A; eauto.
  - rewrite O in B by auto. eapply V; eauto.
Qed.
Lemma not_csendu_enter : forall s c sc g sc' m i v todo g', c_pc (cth (enter_groups s c sc g) c) = CSendU sc' m i v todo g' -> False.
Proof. intros. destruct (cth_enter_self s c sc g) as [_ [[_ E] | [_ E]]]; rewrite E in H; discriminate. Qed.

Lemma not_csendu_after : forall s c k sc' m i v todo g', c_pc (cth (after_reset s c k) c) = CSendU sc' m i v todo g' -> False.
Proof. intros. destruct (cth_after_self s c k) as [_ E]; rewrite E in H. destruct k; discriminate. Qed.

Ltac v2after a V2 :=
  eapply (val2_upd _ _ a); [exact V2 | unf; auto | intros; rewrite cth_after_other by auto; unf; rewrite ?upd_other by auto; auto
                          | intros * B; exfalso; eapply not_csendu_after; eauto].
Ltac v2simple a V2 :=
  eapply (val2_upd _ _ a); [exact V2 | unf; auto | intros; unf; rewrite ?upd_other by auto; auto
                          | intros *; unf; rewrite ?upd_same; simpl; try discriminate].
Ltac v2enter a V2 :=
  eapply (val2_upd _ _ a); [exact V2 | unf; auto | intros; rewrite cth_enter_other by auto; unf; rewrite ?upd_other by auto; auto
                          | intros * B; exfalso; eapply not_csendu_enter; eauto].

Lemma val_inv_step : forall nd s st, lock_inv s -> val_inv s -> val_inv (cstep nd s st).
Proof.
  intros nd s [[a | u] x] L [V1 V2].
  - destruct (conn_step_frame nd s a x) as [E1 [E2 _]]. split; [unfold val1; rewrite E1, E2; auto |]. clear E1 E2.
    apply (cstep_cases nd s (TC a, x)); simpl; auto; try (intros; discriminate).
    + intros c HT HPC. inversion HT; subst c. v2simple a V2.
    + intros c rest HT HPC HSC. inversion HT; subst c. v2simple a V2.
    + intros c r rest HT HPC HSC HNC. inversion HT; subst c. v2simple a V2.
    + intros c r HT HPC HDL. inversion HT; subst c.
      apply handle_cases; intros; subst r; try (v2simple a V2; fail). v2enter a V2.
    + intros c sc m rest HT HPC HUL. inversion HT; subst c. v2enter a V2.
    + intros c sc m i todo rest HT HPC HUL. inversion HT; subst c. v2simple a V2.
    + intros c sc m i todo rest HT HPC. inversion HT; subst c. v2simple a V2. intros B; inversion B; subst; auto.
    + intros c sc m i v rest HT HPC. inversion HT; subst c. v2enter a V2.
    + intros c sc m i v j todo rest HT HPC. inversion HT; subst c. v2simple a V2.
    + intros c r HT HPC. inversion HT; subst c. v2simple a V2.
    + intros c sc id HT HPC. inversion HT; subst c. v2enter a V2.
    + intros c t k HT HPC. inversion HT; subst c. v2after a V2.
    + intros c t t' ts k HT HPC. inversion HT; subst c. v2simple a V2.
  - assert (NC : forall p, ulock s (fst p) = None -> forall c sc m i v todo g, c_pc (cth s c) = CSendU sc m i v todo g -> (m, i) <> p).
    { intros p UL c sc m i v todo g B E. subst p. assert (X : ulock s m = Some (TC c)) by (apply L; unfold holds; rewrite B; auto).
      simpl in UL. congruence. }
    assert (NU : forall p, ulock s (fst p) = None -> forall u' v all pend, u_pc (uth s u') = USend p v all pend -> False).
    { intros p UL u' v all pend B. assert (X : ulock s (fst p) = Some (TU u')) by (apply L; exists p; split; auto; right; eauto).
      congruence. }
    apply (cstep_cases nd s (TU u, x)); simpl; [split; auto | ..]; intros; try discriminate; inversion H; subst u0; clear H;
      unfold release in *; (split; [unfold val1 in *; intros u' q w al pe B | unfold val2 in *; intros c0 sc0 m0 i0 v0 todo0 g0 B]).
    + destruct (Nat.eq_dec u' u) as [-> | N]; [exfalso; eapply not_usend_next; eauto |].
      rewrite uth_next_upd_other in B by auto. unf. eapply V1; eauto.
    + unf. eapply V2; eauto.
    + unf. destruct (Nat.eq_dec u' u) as [-> | N]; [rewrite !upd_same in B; discriminate |].
      rewrite !upd_other in B by auto. rewrite updp_other; [eapply V1; eauto |].
      intros ->. eapply NU; eauto.
    + unf. rewrite updp_other; [eapply V2; eauto |]. eapply NC; eauto.
    + destruct (Nat.eq_dec u' u) as [-> | N]; [exfalso; eapply not_usend_next; eauto |].
      rewrite uth_next_upd_other in B by auto. unf. rewrite upd_other in B by auto. rewrite updp_other; [eapply V1; eauto |].
      intros ->. eapply NU; eauto.
    + unf. rewrite updp_other; [eapply V2; eauto |]. eapply NC; eauto.
    + destruct (Nat.eq_dec u' u) as [-> | N]; [exfalso; eapply not_usend_next; eauto |].
      rewrite uth_next_upd_other in B by auto. unf. eapply V1; eauto.
    + unf. eapply V2; eauto.
    + unf. destruct (Nat.eq_dec u' u) as [-> | N].
      * rewrite upd_same in B; simpl in B. inversion B; subst; auto.
      * rewrite upd_other in B by auto. eapply V1; eauto.
    + unf. eapply V2; eauto.
    + destruct (Nat.eq_dec u' u) as [-> | N]; [exfalso; eapply not_usend_next; eauto |].
      rewrite uth_next_upd_other in B by auto. unf. eapply V1; eauto.
    + unf. eapply V2; eauto.
    + unf. destruct (Nat.eq_dec u' u) as [-> | N].
      * rewrite upd_same in B; simpl in B. inversion B; subst. eapply V1; eauto.
      * rewrite upd_other in B by auto. eapply V1; eauto.
    + unf. eapply V2; eauto.
Qed.

(* ---- freshness *)
Definition fresh_at (s : state) (c : conn) (p : pid) : Prop :=
  last_upd p (logs s c) = Some (cache s p)
  \/ (exists u, u_pc (uth s u) = UBuild p)
  \/ (exists u v all pend, u_pc (uth s u) = USend p v all pend /\ In c pend)
  \/ cflight s c p.
Definition fresh_inv (nd : node) (s : state) : Prop :=
  forall c p, listens s c p = true -> exported nd p = true -> fresh_at s c p.

Lemma fresh_at_frame : forall s s' c p,
  logs s' c = logs s c -> cache s' = cache s -> uth s' = uth s -> cth s' c = cth s c ->
  fresh_at s c p -> fresh_at s' c p.
Proof. intros s s' c p E1 E2 E3 E4 F. unfold fresh_at, cflight in *. rewrite E1, E2, E3, E4. auto. Qed.

(* the three disjuncts that do not depend on the own program counter *)
Definition fresh3 (s : state) (c : conn) (p : pid) : Prop :=
  last_upd p (logs s c) = Some (cache s p)
  \/ (exists u, u_pc (uth s u) = UBuild p)
  \/ (exists u v all pend, u_pc (uth s u) = USend p v all pend /\ In c pend).
Lemma fresh3_fresh : forall s c p, fresh3 s c p -> fresh_at s c p.
Proof. unfold fresh3, fresh_at; tauto. Qed.
Lemma fresh_split : forall s c p, fresh_at s c p -> fresh3 s c p \/ cflight s c p.
Proof. unfold fresh3, fresh_at; tauto. Qed.

Lemma fresh_enter : forall s c sc g p, fresh3 s c p \/ In p (flat g) -> fresh_at (enter_groups s c sc g) c p.
Proof.
  intros s c sc g p [F | F].
  - apply fresh3_fresh. unfold fresh3 in *. rewrite logs_enter, cache_enter, uth_enter. auto.
  - unfold fresh_at, cflight. right; right; right.
    destruct (cth_enter_self s c sc g) as [_ [[-> E] | [G E]]]; rewrite E; simpl; auto.
Qed.

Lemma fresh_own_step : forall nd s c x, tbl_wf s -> val_inv s -> fresh_inv nd s ->
  forall p, listens (cstep nd s (TC c, x)) c p = true -> exported nd p = true -> fresh_at (cstep nd s (TC c, x)) c p.
Proof.
  intros nd s c x WF [_ V2] I p.
  apply (cstep_cases nd s (TC c, x)); simpl; try (intros; discriminate).
  - intros LS EX. apply I; auto.
  - (* start *) intros c0 HT HPC LS EX. inversion HT; subst c0.
    assert (F := I c p LS EX). unfold fresh_at, cflight in *; unf. rewrite upd_same; simpl. rewrite HPC in F. tauto.
  - (* close: reset_connection starts *) intros c0 rest HT HPC HSC LS EX. inversion HT; subst c0.
    assert (F := I c p LS EX). unfold fresh_at, cflight in *; unf. rewrite !upd_same; simpl.
    rewrite last_upd_app. rewrite HPC in F. tauto.
  - (* request *) intros c0 r rest HT HPC HSC HNC LS EX. inversion HT; subst c0.
    assert (F := I c p LS EX). unfold fresh_at, cflight in *; unf. rewrite !upd_same; simpl.
    rewrite last_upd_app. rewrite HPC in F. tauto.
  - (* handler *) intros c0 r HT HPC HDL. inversion HT; subst c0.
    apply handle_cases.
    + intros HR LS EX. assert (F := I c p LS EX). unfold fresh_at, cflight in *; unf. rewrite upd_same; simpl. rewrite HPC in F. tauto.
    + intros sc HR LS EX. assert (F := I c p LS EX). unfold fresh_at, cflight in *; unf. rewrite upd_same; simpl. rewrite HPC in F. tauto.
    + intros sc HR LS EX. rewrite (listens_ext (unregister s c sc)) in LS by reflexivity. apply listens_unregister_le in LS.
      assert (F := I c p LS EX). unfold fresh_at, cflight in *; unf. rewrite upd_same; simpl. rewrite HPC in F. tauto.
    + intros sc HR LS EX. assert (F := I c p LS EX). unfold fresh_at, cflight in *; unf. rewrite upd_same; simpl. rewrite HPC in F. tauto.
    + intros sc e HR HAE LS EX. assert (F := I c p LS EX). unfold fresh_at, cflight in *; unf. rewrite upd_same; simpl. rewrite HPC in F. tauto.
    + intros HR LS EX. rewrite listens_enter in LS.
      rewrite (listens_ext (register_g s c)) in LS by reflexivity. rewrite listens_register_g in LS.
      apply fresh_enter. destruct (listens s c p) eqn:LS0.
      * left. assert (F := I c p LS0 EX). apply fresh_split in F. destruct F as [F | F].
        -- unfold fresh3 in *; unf. auto.
        -- unfold cflight in F. rewrite HPC in F. destruct F.
      * right. apply (snapshot_list_complete nd SG p); auto.
    + intros sc HR HAE HSG LS EX. rewrite (listens_ext (fst (lookup s sc))) in LS by reflexivity. rewrite listens_lookup in LS.
      assert (F := I c p LS EX). unfold fresh_at, cflight in *; unf. rewrite upd_same; simpl. rewrite HPC in F. tauto.
    + intros HR LS EX. assert (F := I c p LS EX). unfold fresh_at, cflight in *; unf. rewrite upd_same; simpl. rewrite HPC in F. tauto.
    + intros HR LS EX. assert (F := I c p LS EX). unfold fresh_at, cflight in *; unf. rewrite upd_same; simpl. rewrite HPC in F. tauto.
  - (* module lock, nothing to send *) intros c0 sc m rest HT HPC HUL LS EX. inversion HT; subst c0.
    rewrite listens_enter in LS. assert (F := I c p LS EX). apply fresh_enter. apply fresh_split in F.
    destruct F as [F | F]; auto. unfold cflight in F. rewrite HPC in F. simpl in F. auto.
  - (* module lock *) intros c0 sc m i todo rest HT HPC HUL LS EX. inversion HT; subst c0.
    assert (F := I c p LS EX). unfold fresh_at, cflight in *; unf. rewrite upd_same; simpl. rewrite HPC in F. simpl in F. tauto.
  - (* build *) intros c0 sc m i todo rest HT HPC LS EX. inversion HT; subst c0.
    assert (F := I c p LS EX). unfold fresh_at, cflight in *; unf. rewrite upd_same; simpl. rewrite HPC in F. simpl in F. tauto.
  - (* last initial update of a module *) intros c0 sc m i v rest HT HPC LS EX. inversion HT; subst c0.
    assert (CV : cache s (m, i) = v) by (eapply V2; eauto).
    rewrite listens_enter in LS. assert (F := I c p LS EX). apply fresh_enter. apply fresh_split in F.
    unfold fresh3; unf. rewrite upd_same, last_upd_app.
    destruct (pid_eqb (m, i) p) eqn:E; [apply pid_eqb_eq in E; subst p; left; left; congruence |]. apply pid_eqb_neq in E.
    destruct F as [F | F]; [left; exact F |]. unfold cflight in F. rewrite HPC in F. simpl in F.
    destruct F as [F | F]; [contradiction | right; exact F].
  - (* initial update *) intros c0 sc m i v j todo rest HT HPC LS EX. inversion HT; subst c0.
    assert (CV : cache s (m, i) = v) by (eapply V2; eauto).
    assert (F := I c p LS EX). apply fresh_split in F. unfold fresh_at, fresh3, cflight in *; unf.
    rewrite !upd_same, last_upd_app; simpl.
    destruct (pid_eqb (m, i) p) eqn:E; [apply pid_eqb_eq in E; subst p; left; congruence |]. apply pid_eqb_neq in E.
    destruct F as [F | F]; [tauto |]. rewrite HPC in F. simpl in F. destruct F as [F | F]; [contradiction | tauto].
  - (* reply *) intros c0 r HT HPC LS EX. inversion HT; subst c0.
    assert (F := I c p LS EX). unfold fresh_at, cflight in *; unf. rewrite !upd_same; simpl.
    rewrite last_upd_app. rewrite HPC in F. destruct r; simpl in *; tauto.
  - (* subscribe, second half: what the connection listens to in addition is in the snapshot still to be sent *)
    intros c0 sc id HT HPC LS EX. inversion HT; subst c0.
    assert (LV : live s sc id) by (eapply wf_live; eauto).
    rewrite listens_enter in LS. apply (listens_add_only s c id sc p) in LS; [| apply wf_unique; auto].
    apply fresh_enter. destruct LS as [LS | LS].
    + left. assert (F := I c p LS EX). apply fresh_split in F. destruct F as [F | F].
      * unfold fresh3 in *; unf. auto.
      * unfold cflight in F. rewrite HPC in F. destruct F.
    + right. apply (snapshot_list_complete nd sc p); auto.
  - (* last discard *) intros c0 t k HT HPC LS EX. inversion HT; subst c0.
    rewrite listens_after in LS. apply listens_discard_le in LS.
    assert (F := I c p LS EX). apply fresh_split in F. destruct F as [F | F].
    + apply fresh3_fresh. unfold fresh3 in *; unf. auto.
    + unfold cflight in F. rewrite HPC in F. destruct F.
  - (* discard *) intros c0 t t' ts k HT HPC LS EX. inversion HT; subst c0.
    rewrite (listens_ext (discard_target false s c t)) in LS by reflexivity. apply listens_discard_le in LS.
    assert (F := I c p LS EX). apply fresh_split in F. destruct F as [F | F].
    + apply fresh3_fresh. unfold fresh3 in *; unf. auto.
    + unfold cflight in F. rewrite HPC in F. destruct F.
Qed.

Lemma fresh_upd_step : forall nd s u x, lock_inv s -> val_inv s -> fresh_inv nd s ->
  forall c p, listens (cstep nd s (TU u, x)) c p = true -> exported nd p = true -> fresh_at (cstep nd s (TU u, x)) c p.
Proof.
  intros nd s u x L V I c p.
  apply (cstep_cases nd s (TU u, x)); simpl; try (intros; discriminate).
  - intros LS EX. apply I; auto.
  - (* start *) intros u0 HT HPC LS EX. inversion HT; subst u0.
    unf. assert (F := I c p LS EX). unfold fresh_at, cflight in *; unf.
    destruct F as [F | [[u' F] | [[u' [v [al [pe [F1 F2]]]]] | F]]]; auto.
    + right; left. exists u'. rewrite uth_next_upd_other by (intros ->; congruence); auto.
    + right; right; left. exists u', v, al, pe. rewrite uth_next_upd_other by (intros ->; congruence); auto.
  - (* store, exported *) intros u0 p0 v rest HT HPC HSC HUL HEX LS EX. inversion HT; subst u0.
    unf. destruct (pid_eqb p p0) eqn:E.
    + apply pid_eqb_eq in E. subst p0. unfold fresh_at, cflight; unf. right; left. exists u. rewrite !upd_same; auto.
    + apply pid_eqb_neq in E. assert (F := I c p LS EX). unfold fresh_at, cflight in *; unf. rewrite updp_other by auto.
      destruct F as [F | [[u' F] | [[u' [w [al [pe [F1 F2]]]]] | F]]]; auto.
      * right; left. exists u'. rewrite !upd_other by (intros ->; congruence); auto.
      * right; right; left. exists u', w, al, pe. rewrite !upd_other by (intros ->; congruence); auto.
  - (* store, hidden *) intros u0 p0 v rest HT HPC HSC HUL HEX LS EX. inversion HT; subst u0.
    unf. assert (E : p <> p0) by (intros ->; congruence).
    assert (F := I c p LS EX). unfold fresh_at, cflight in *; unf. rewrite updp_other by auto.
    destruct F as [F | [[u' F] | [[u' [w [al [pe [F1 F2]]]]] | F]]]; auto.
    + right; left. exists u'. rewrite uth_next_upd_other by (intros ->; congruence). simpl. rewrite upd_other by (intros ->; congruence); auto.
    + right; right; left. exists u', w, al, pe. rewrite uth_next_upd_other by (intros ->; congruence). simpl.
      rewrite upd_other by (intros ->; congruence); auto.
  - (* no listeners *) intros u0 p0 HT HPC HL LS EX. inversion HT; subst u0.
    unf.
    assert (E : p <> p0). { intros ->. assert (LS0 : listens s c p0 = true) by exact LS. apply listeners_spec in LS0. rewrite HL in LS0. destruct LS0. }
    assert (F := I c p LS EX). unfold fresh_at, cflight in *; unf.
    destruct F as [F | [[u' F] | [[u' [w [al [pe [F1 F2]]]]] | F]]]; auto.
    + right; left. exists u'. rewrite uth_next_upd_other by (intros ->; congruence); auto.
    + right; right; left. exists u', w, al, pe. rewrite uth_next_upd_other by (intros ->; congruence); auto.
  - (* listeners selected *) intros u0 p0 HT HPC HL LS EX. inversion HT; subst u0.
    unf. destruct (pid_eqb p p0) eqn:E.
    + apply pid_eqb_eq in E. subst p0. unfold fresh_at, cflight; unf. right; right; left.
      exists u, (cache s p), (listeners s p), (listeners s p). rewrite upd_same; simpl. split; auto. apply listeners_spec; exact LS.
    + apply pid_eqb_neq in E. assert (F := I c p LS EX). unfold fresh_at, cflight in *; unf.
      destruct F as [F | [[u' F] | [[u' [w [al [pe [F1 F2]]]]] | F]]]; auto.
      * right; left. exists u'. rewrite upd_other by (intros ->; congruence); auto.
      * right; right; left. exists u', w, al, pe. rewrite upd_other by (intros ->; congruence); auto.
  - (* last send *) intros u0 p0 v all pend HT HPC HIN HRM LS EX. inversion HT; subst u0.
    unf. assert (CV : cache s p0 = v) by (eapply V; eauto).
    assert (F := I c p LS EX). unfold fresh_at, cflight in *; unf.
    destruct (Nat.eq_dec c x) as [-> | N]; [rewrite upd_same, last_upd_app | rewrite upd_other by auto].
    + destruct (pid_eqb p0 p) eqn:E; [apply pid_eqb_eq in E; subst p0; left; congruence |]. apply pid_eqb_neq in E.
      destruct F as [F | [[u' F] | [[u' [w [al [pe [F1 F2]]]]] | F]]]; auto.
      * right; left. exists u'. rewrite uth_next_upd_other by (intros ->; congruence); auto.
      * right; right; left. exists u', w, al, pe. rewrite uth_next_upd_other by (intros ->; congruence); auto.
    + destruct F as [F | [[u' F] | [[u' [w [al [pe [F1 F2]]]]] | F]]]; auto.
      * right; left. exists u'. rewrite uth_next_upd_other by (intros ->; congruence); auto.
      * destruct (Nat.eq_dec u' u) as [-> | NU].
        -- exfalso. rewrite HPC in F1. inversion F1; subst.
           match goal with HR : remc x ?l = [] |- _ =>
             assert (Y : In c (remc x l)) by (apply In_remc; auto); rewrite HR in Y; destruct Y end.
        -- right; right; left. exists u', w, al, pe. rewrite uth_next_upd_other; auto.
  - (* send *) intros u0 p0 v all pend HT HPC HIN HRM LS EX. inversion HT; subst u0.
    unf. assert (CV : cache s p0 = v) by (eapply V; eauto).
    assert (F := I c p LS EX). unfold fresh_at, cflight in *; unf.
    destruct (Nat.eq_dec c x) as [-> | N]; [rewrite upd_same, last_upd_app | rewrite upd_other by auto].
    + destruct (pid_eqb p0 p) eqn:E; [apply pid_eqb_eq in E; subst p0; left; congruence |]. apply pid_eqb_neq in E.
      destruct F as [F | [[u' F] | [[u' [w [al [pe [F1 F2]]]]] | F]]]; auto.
      * right; left. exists u'. rewrite upd_other by (intros ->; congruence); auto.
      * right; right; left. exists u', w, al, pe. rewrite upd_other by (intros ->; congruence); auto.
    + destruct F as [F | [[u' F] | [[u' [w [al [pe [F1 F2]]]]] | F]]]; auto.
      * right; left. exists u'. rewrite upd_other by (intros ->; congruence); auto.
      * destruct (Nat.eq_dec u' u) as [-> | NU].
        -- rewrite HPC in F1. inversion F1; subst. right; right; left.
           do 4 eexists. rewrite upd_same; simpl. split; [reflexivity |]. apply In_remc; auto.
        -- right; right; left. exists u', w, al, pe. rewrite upd_other; auto.
Qed.

Lemma fresh_inv_step : forall nd s st, tbl_wf s -> lock_inv s -> val_inv s -> fresh_inv nd s -> fresh_inv nd (cstep nd s st).
Proof.
  intros nd s [[a | u] x] WF L V I c p LS EX.
  - destruct (Nat.eq_dec a c) as [-> | N]; [apply fresh_own_step; auto |].
    destruct (isolation nd s a x c N) as [E1 [E2 [E3 [E4 [E5 _]]]]].
    rewrite E3 in LS. apply (fresh_at_frame s); auto.
  - apply fresh_upd_step; auto.
Qed.

(* ---- the run *)
Definition all_inv (nd : node) (s : state) : Prop := lock_inv s /\ val_inv s /\ fresh_inv nd s /\ tbl_wf s.

Lemma all_inv_step : forall nd s st, all_inv nd s -> all_inv nd (cstep nd s st).
Proof.
  intros nd s st [L [V [I W]]]. split; [apply lock_inv_step; auto |]. split; [apply val_inv_step; auto |].
  split; [apply fresh_inv_step; auto | apply wf_step; auto].
Qed.

Lemma all_inv_init : forall nd cs us, all_inv nd (init cs us).
Proof.
  intros. split; [| split; [split | split]].
  - intros [c | u] m H; simpl in H; [destruct H |]. destruct H as [p [[E | [v [al [pe E]]]] _]]; simpl in E; discriminate.
  - intros u p v al pe E; simpl in E; discriminate.
  - intros c sc m i v todo g E; simpl in E; discriminate.
  - intros c p L; unfold listens in L; simpl in L; discriminate.
  - apply wf_init.
Qed.

Definition conn_idle (s : state) (c : conn) : Prop :=
  match c_pc (cth s c) with CAcqU _ _ | CBuild _ _ _ _ | CSendU _ _ _ _ _ _ => False | _ => True end.
Definition upd_idle (s : state) (u : nat) : Prop :=
  match u_pc (uth s u) with UBuild _ | USend _ _ _ _ => False | _ => True end.

(* ALL schedules: once no broadcast and no snapshot of this connection is in progress, the last update message a
   listening connection holds for an exported parameter carries the cached value *)
Lemma quiescent_fresh : forall nd cs us sched c p,
  let s := run nd cs us sched in
  listens s c p = true -> exported nd p = true ->
  (forall u, upd_idle s u) -> conn_idle s c ->
  last_upd p (logs s c) = Some (cache s p).
Proof.
  intros nd cs us sched c p s. subst s. unfold run. intros LS EX UI CI.
  assert (A : all_inv nd (run_from nd (init cs us) sched)).
  { apply (run_invariant nd (all_inv nd)); [intros; apply all_inv_step; auto | apply all_inv_init]. }
  destruct A as [_ [_ [I _]]].
  destruct (I c p LS EX) as [F | [[u F] | [[u [v [al [pe [F _]]]]] | F]]]; auto.
  - specialize (UI u). unfold upd_idle in UI. rewrite F in UI. destruct UI.
  - specialize (UI u). unfold upd_idle in UI. rewrite F in UI. destruct UI.
  - unfold conn_idle in CI. unfold cflight in F.
    destruct (c_pc (cth (run_from nd (init cs us) sched) c)); simpl in F; try contradiction. destruct r; destruct F.
Qed.

(* ---- every selected listener receives the message of a broadcast *)
Definition deliver_inv (s : state) : Prop :=
  (forall p v all, In (p, v, all) (bcasts s) -> forall c, In c all -> In (EUpd p v) (logs s c)) /\
  (forall u p v all pend, u_pc (uth s u) = USend p v all pend ->
     forall c, In c all -> In c pend \/ In (EUpd p v) (logs s c)).

Lemma logs_grow : forall nd s st c e, In e (logs s c) -> In e (logs (cstep nd s st) c).
Proof.
  intros nd s st c e I.
  apply (cstep_cases nd s st); simpl; intros; auto; try (unf; auto; fail);
    try (unf; destruct (Nat.eq_dec c c0) as [-> | N]; [rewrite upd_same; apply in_or_app; auto | rewrite upd_other; auto]; fail).
  - apply handle_cases; intros; subst r; unf; auto.

  - unf. destruct (Nat.eq_dec c (snd st)) as [-> | N]; [rewrite upd_same; apply in_or_app; auto | rewrite upd_other; auto].
  - unf. destruct (Nat.eq_dec c (snd st)) as [-> | N]; [rewrite upd_same; apply in_or_app; auto | rewrite upd_other; auto].
Qed.

Lemma deliver_inv_step : forall nd s st, deliver_inv s -> deliver_inv (cstep nd s st).
Proof.
  intros nd s st [D1 D2].
  assert (G : forall c e, In e (logs s c) -> In e (logs (cstep nd s st) c)) by (intros; apply logs_grow; auto).
  destruct st as [[a | u] x].
  - destruct (conn_step_frame nd s a x) as [E1 [_ E4]]. split.
    + rewrite E4. intros. apply G. eapply D1; eauto.
    + rewrite E1. intros. destruct (D2 _ _ _ _ _ H c H0); auto.
  - revert G. apply (cstep_cases nd s (TU u, x)); simpl; intros; try discriminate; try (inversion H; subst u0; clear H); unfold release in *.
    + split; auto.
    + split; [unf; intros; apply G; eapply D1; eauto |]. intros u' q w al pe B c IC.
      destruct (Nat.eq_dec u' u) as [-> | N]; [exfalso; eapply not_usend_next; eauto |].
      rewrite uth_next_upd_other in B by auto. destruct (D2 _ _ _ _ _ B c IC); auto.
    + split; [unf; intros; apply G; eapply D1; eauto |]. intros u' q w al pe B c IC. unf.
      destruct (Nat.eq_dec u' u) as [-> | N]; [rewrite !upd_same in B; discriminate |].
      rewrite !upd_other in B by auto. destruct (D2 _ _ _ _ _ B c IC); auto.
    + split; [unf; intros; apply G; eapply D1; eauto |]. intros u' q w al pe B c IC.
      destruct (Nat.eq_dec u' u) as [-> | N]; [exfalso; eapply not_usend_next; eauto |].
      rewrite uth_next_upd_other in B by auto. unf. rewrite upd_other in B by auto. destruct (D2 _ _ _ _ _ B c IC); auto.
    + split; [unf; intros; apply G; eapply D1; eauto |]. intros u' q w al pe B c IC.
      destruct (Nat.eq_dec u' u) as [-> | N]; [exfalso; eapply not_usend_next; eauto |].
      rewrite uth_next_upd_other in B by auto. destruct (D2 _ _ _ _ _ B c IC); auto.
    + split; [unf; intros; apply G; eapply D1; eauto |]. intros u' q w al pe B c IC. unf.
      destruct (Nat.eq_dec u' u) as [-> | N].
      * rewrite upd_same in B; simpl in B. inversion B; subst. auto.
      * rewrite upd_other in B by auto. destruct (D2 _ _ _ _ _ B c IC); auto.
    + (* last send: the broadcast is complete *)
      assert (K : forall c, In c all -> In (EUpd p v) (logs (log_add s x (EUpd p v)) c)).
      { intros c IC. unf. destruct (D2 _ _ _ _ _ H0 c IC) as [IP | IL].
        - destruct (Nat.eq_dec c x) as [-> | N]; [rewrite upd_same; apply in_or_app; simpl; auto |].
          exfalso. assert (Y : In c (remc x pend)) by (apply In_remc; auto). rewrite H2 in Y. destruct Y.
        - destruct (Nat.eq_dec c x) as [-> | N]; [rewrite upd_same; apply in_or_app; auto | rewrite upd_other; auto]. }
      split.
      * unf. intros q w al [E | IB] c IC; [inversion E; subst; apply K; auto | apply G; eapply D1; eauto].
      * intros u' q w al pe B c IC.
        destruct (Nat.eq_dec u' u) as [-> | N]; [exfalso; eapply not_usend_next; eauto |].
        rewrite uth_next_upd_other in B by auto. unf. destruct (D2 _ _ _ _ _ B c IC); auto.
    + split; [unf; intros; apply G; eapply D1; eauto |]. intros u' q w al pe B c IC. unf.
      destruct (Nat.eq_dec u' u) as [-> | N].
      * rewrite upd_same in B; simpl in B. inversion B; subst. destruct (D2 _ _ _ _ _ H0 c IC) as [IP | IL].
        -- destruct (Nat.eq_dec c x) as [-> | NC]; [right; rewrite upd_same; apply in_or_app; simpl; auto |].
           left. apply In_remc; auto.
        -- right. destruct (Nat.eq_dec c x) as [-> | NC]; [rewrite upd_same; apply in_or_app; auto | rewrite upd_other; auto].
      * rewrite upd_other in B by auto. destruct (D2 _ _ _ _ _ B c IC); auto.
Qed.

Lemma deliver_inv_init : forall cs us, deliver_inv (init cs us).
Proof. intros; split; simpl; intros; [contradiction | discriminate]. Qed.

(* all schedules: every connection selected as listener of a completed broadcast holds its message *)
Lemma broadcast_delivered : forall nd cs us sched p v all c,
  In (p, v, all) (bcasts (run nd cs us sched)) -> In c all -> In (EUpd p v) (logs (run nd cs us sched) c).
Proof.
  intros nd cs us sched.
  assert (D : deliver_inv (run nd cs us sched)).
  { unfold run. apply (run_invariant nd deliver_inv); [intros; apply deliver_inv_step; auto | apply deliver_inv_init]. }
  destruct D as [D1 _]. intros. eapply D1; eauto.
Qed.

(* the listeners of a broadcast are selected at its build step: exactly the connections listening at that moment *)
Lemma broadcast_selects : forall nd s u x p,
  u_pc (uth s u) = UBuild p ->
  let s' := cstep nd s (TU u, x) in
  (forall c, listens s c p = false) /\ (u_pc (uth s' u) = UDone \/ u_pc (uth s' u) = UAcq)
  \/ exists all, u_pc (uth s' u) = USend p (cache s p) all all /\ NoDup all /\ forall c, In c all <-> listens s c p = true.
Proof.
  intros nd s u x p H s'. unfold s', cstep, cstep_gen, cstep_upd, uenabled; simpl. rewrite H; simpl.
  destruct (listeners s p) eqn:E.
  - left. split.
    + intros c. destruct (listens s c p) eqn:F; auto. apply listeners_spec in F. rewrite E in F. destruct F.
    + unfold release. destruct (uth_next_upd_self (set_ulock s (upd (ulock s) (fst p) None)) u) as [_ X]. exact X.
  - right. exists (listeners s p). rewrite <- E. unf. rewrite upd_same; simpl. split; auto. split; [apply listeners_nodup |].
    intros; apply listeners_spec.
Qed.
