(* C08 - correspondence driver.  A case carries the node, the scripts of the connection and driver threads, the
   executed step sequence of the real threads (thread, label of the synchronisation point at which the step started;
   for a broadcast send the connection that was served) and what was observed: the log of every connection, the final
   parameter cache and the final subscription tables.  check_case re-runs the model along the same schedule and requires:
   every step is enabled in the model and parked at the same label (same parameter for make_update, same module for an
   updateLock, a member of the pending listener set for a send; set.add inside subscribe, set.discard inside
   reset_connection), all threads have finished their scripts, and all observations are equal (also the event names
   bound in the subscription table, with or without members). *)
From Coq Require Import List Arith Bool.
Import ListNotations.
Require Import FV.Base.Util FV.Gen.C08 FV.C08.Model.

Inductive lab := LStart | LRecv | LAcqD | LAcqU (m : nat) | LBuild (p : pid) | LSend (c : conn) | LAdd | LDisc.

Record case := {
  k_node : node;
  k_conns : list (list req);
  k_upds : list (list (pid * nat));
  k_trace : list (tid * lab);
  k_logs : list (list entry);
  k_cache : list (pid * nat);
  k_actv : list conn;
  k_subs : list (conn * scope);
  k_keys : list scope;
}.

Definition req_eqb (a b : req) : bool :=
  match a, b with
  | RAct s d, RAct s' d' | RDeact s d, RDeact s' d' => scope_eqb s s' && Bool.eqb d d'
  | RIdn, RIdn | RClose, RClose | RBogus, RBogus => true
  | _, _ => false
  end.
Definition reply_eqb (a b : reply) : bool :=
  match a, b with
  | RpActive s, RpActive s' => scope_eqb s s'
  | RpInactive, RpInactive | RpIdent, RpIdent => true
  | RpErr e, RpErr e' => Nat.eqb e e'
  | _, _ => false
  end.
Definition entry_eqb (a b : entry) : bool :=
  match a, b with
  | EReq r, EReq r' => req_eqb r r'
  | EUpd p v, EUpd p' v' => pid_eqb p p' && Nat.eqb v v'
  | ERep r, ERep r' => reply_eqb r r'
  | EClose, EClose => true
  | _, _ => false
  end.

Definition lab_ok (s : state) (t : tid) (l : lab) : bool :=
  match t, l with
  | TC c, LStart => match c_pc (cth s c) with CStart => true | _ => false end
  | TC c, LRecv => match c_pc (cth s c) with CRecv => true | _ => false end
  | TC c, LAcqD => match c_pc (cth s c) with CAcq _ => true | _ => false end
  | TC c, LAcqU m => match c_pc (cth s c) with CAcqU _ ((m', _) :: _) => Nat.eqb m m' | _ => false end
  | TC c, LBuild p => match c_pc (cth s c) with CBuild _ m (i :: _) _ => pid_eqb p (m, i) | _ => false end
  | TC c, LSend c' => Nat.eqb c c' && match c_pc (cth s c) with CSendU _ _ _ _ _ _ | CSendR _ => true | _ => false end
  | TC c, LAdd => match c_pc (cth s c) with CAdd _ _ => true | _ => false end
  | TC c, LDisc => match c_pc (cth s c) with CDisc (_ :: _) _ => true | _ => false end
  | TU u, LStart => match u_pc (uth s u) with UStart => true | _ => false end
  | TU u, LAcqU m => match u_pc (uth s u), u_script (uth s u) with UAcq, (p, _) :: _ => Nat.eqb m (fst p) | _, _ => false end
  | TU u, LBuild p => match u_pc (uth s u) with UBuild q => pid_eqb p q | _ => false end
  | TU u, LSend _ => match u_pc (uth s u) with USend _ _ _ _ => true | _ => false end
  | _, _ => false
  end.

Definition target (l : lab) : conn := match l with LSend c => c | _ => 0 end.
Definition enabled (s : state) (t : tid) (c : conn) : bool :=
  match t with TC x => cenabled s x | TU u => uenabled s u c end.

(* number of the first step that the model cannot follow (None: all followed) *)
Fixpoint follow (nd : node) (s : state) (tr : list (tid * lab)) (n : nat) : state * option nat :=
  match tr with
  | [] => (s, None)
  | (t, l) :: r =>
      if lab_ok s t l && enabled s t (target l)
      then follow nd (cstep nd s (t, target l)) r (S n)
      else (s, Some n)
  end.

Definition final (k : case) : state * option nat :=
  follow (k_node k) (init (k_conns k) (k_upds k)) (k_trace k) 0.

Definition conn_finished (s : state) (c : conn) : bool :=
  match c_pc (cth s c), c_script (cth s c) with
  | CDone, _ => true
  | CRecv, [] => true
  | _, _ => false
  end.
Definition upd_finished (s : state) (u : nat) : bool :=
  match u_pc (uth s u) with UDone => true | _ => false end.

Definition subset {A} (eqb : A -> A -> bool) (a b : list A) : bool :=
  forallb (fun x => existsb (eqb x) b) a.
Definition same_set {A} (eqb : A -> A -> bool) (a b : list A) : bool := subset eqb a b && subset eqb b a.
Definition sub_eqb (a b : conn * scope) : bool := Nat.eqb (fst a) (fst b) && scope_eqb (snd a) (snd b).

Definition check_case (k : case) : bool :=
  let '(s, bad) := final k in
  match bad with Some _ => false | None =>
    forallb (conn_finished s) (seq 0 (length (k_conns k)))
    && forallb (upd_finished s) (seq 0 (length (k_upds k)))
    && list_eqb (list_eqb entry_eqb) (map (logs s) (seq 0 (length (k_conns k)))) (k_logs k)
    && forallb (fun pv => Nat.eqb (cache s (fst pv)) (snd pv)) (k_cache k)
    && same_set Nat.eqb (actv s) (k_actv k)
    && same_set sub_eqb (subs s) (k_subs k)
    && same_set scope_eqb (map e_key (tbl s)) (k_keys k)
    && match dlock s with None => true | Some _ => false end
    && forallb (fun m => match ulock s m with None => true | Some _ => false end) (seq 0 (length (k_node k)))
  end.

(* diagnosis: first step not followed, the logs / tables of the model at that point *)
Definition model_result (k : case) :=
  let '(s, bad) := final k in
  (bad, map (logs s) (seq 0 (length (k_conns k))), actv s, subs s, tbl s,
   map (fun c => c_pc (cth s c)) (seq 0 (length (k_conns k))),
   map (fun u => u_pc (uth s u)) (seq 0 (length (k_upds k)))).
