(* C11 - lemmas: (1) the matching code hands the answer to a request to the entry of that request,
   (2) a waiting caller can always leave by time-out, (3) entries are linear: every entry is in at most one of
   txq / pending / active_requests / a thread's hand / answered, under every schedule. *)
From Coq Require Import List Arith NArith Bool Lia.
Import ListNotations.
Require Import FV.Base.Util FV.C11.Model.

(* ---------------------------------------------------------------- strings and keys *)
Lemma str_eqb_eq : forall a b, str_eqb a b = true <-> a = b.
Proof.
  unfold str_eqb. induction a as [|x a IH]; destruct b as [|y b]; simpl; split; intro H; try discriminate; auto.
  - apply andb_true_iff in H. destruct H as [H1 H2]. apply N.eqb_eq in H1. apply IH in H2. congruence.
  - inversion H; subst. apply andb_true_iff. split; [apply N.eqb_refl | apply IH; reflexivity].
Qed.

Lemma key_eqb_eq : forall a b, key_eqb a b = true <-> a = b.
Proof.
  intros [[a1 a2]|] [[b1 b2]|]; simpl; split; intro H; try discriminate; auto.
  - apply andb_true_iff in H. destruct H as [H1 H2]. apply str_eqb_eq in H1, H2. congruence.
  - inversion H; subst. apply andb_true_iff. split; apply str_eqb_eq; reflexivity.
Qed.

Lemma key_eqb_refl : forall k, key_eqb k k = true.
Proof. intro; apply key_eqb_eq; reflexivity. Qed.

Lemma starts_with_app : forall p s, starts_with p (p ++ s) = true.
Proof. induction p; simpl; intros; auto. rewrite N.eqb_refl; simpl; auto. Qed.

Lemma skipn_app_len : forall (p s : str), skipn (length p) (p ++ s) = s.
Proof. induction p; simpl; auto. Qed.

Lemma dpop_dget : forall k l, fst (dpop k l) = dget k l.
Proof.
  induction l as [|[k' e] r IH]; simpl; auto.
  destruct (key_eqb k k'); simpl; auto. destruct (dpop k r); simpl in *; auto.
Qed.

Lemma dget_none : forall k l, (forall k' e, In (k', e) l -> k' <> k) -> dget k l = None.
Proof.
  induction l as [|[k' e] r IH]; simpl; intros H; auto.
  destruct (key_eqb k k') eqn:E.
  - apply key_eqb_eq in E. exfalso. apply (H k' e); auto.
  - apply IH. intros; eapply H; eauto.
Qed.

Section Match.
Variable R2R : list (str * str).
Variable ERR : str.
Variable reqs : list (str * str).

Lemma r2r_in_value : forall a l r, r2r_in a l = Some r -> exists a', In (a', r) l.
Proof.
  induction l as [|[x y] l IH]; simpl; intros r H; try discriminate.
  destruct (str_eqb a x).
  - inversion H; subst. eauto.
  - destruct (IH _ H) as [a' Ha]. eauto.
Qed.

(* no reply action of the table starts with the error prefix *)
Definition table_ok : Prop := forall a r, In (a, r) R2R -> starts_with ERR r = false.
(* the answer a ++ "_r" of the peer to an unknown action is neither a reply action of the table nor an error reply *)
Definition wf_req (rq : str * str) : Prop :=
  r2r R2R (fst rq) = None ->
  (forall a, ~ In (a, fst rq ++ SUFFIX) R2R) /\ starts_with ERR (fst rq ++ SUFFIX) = false.

Definition keys_ok (a : list (key * eid)) : Prop :=
  forall k e, In (k, e) a -> k = key_of R2R (req reqs e).

Lemma no_err_key : forall a x i, table_ok -> keys_ok a -> dget (Some (ERR ++ x, i)) a = None.
Proof.
  intros a x i T K. apply dget_none. intros k' e Hin Heq. rewrite (K _ _ Hin) in Heq.
  unfold key_of in Heq. destruct (r2r R2R (fst (req reqs e))) eqn:E; try discriminate.
  inversion Heq; subst. destruct (r2r_in_value _ _ _ E) as [a' Ha].
  apply T in Ha. rewrite starts_with_app in Ha. discriminate.
Qed.

Lemma rx_match_fst : forall a m,
  fst (rx_match R2R ERR a m) =
  match dget (Some (m_action m, m_ident m)) a with
  | Some e => Some e
  | None => dget (if starts_with ERR (m_action m)
                  then match r2r R2R (skipn (length ERR) (m_action m)) with
                       | Some r => Some (r, m_ident m) | None => None end
                  else None) a
  end.
Proof.
  intros. unfold rx_match. rewrite <- (dpop_dget (Some (m_action m, m_ident m)) a).
  destruct (dpop (Some (m_action m, m_ident m)) a) as [[e|] a']; simpl; auto. apply dpop_dget.
Qed.

(* lines 487-500 of frappy/client/__init__.py with the table of frappy/protocol/messages.py: whatever else is
   registered, the reply or the error reply to the request of entry t is handed to entry t *)
Theorem match_own : forall a t ok,
  table_ok -> wf_req (req reqs t) -> keys_ok a ->
  dget (key_of R2R (req reqs t)) a = Some t ->
  fst (rx_match R2R ERR a (answer R2R ERR (req reqs t) ok t)) = Some t.
Proof.
  intros a t ok T W K G. rewrite rx_match_fst. unfold answer, key_of in *. simpl.
  destruct (r2r R2R (fst (req reqs t))) eqn:E; destruct ok; simpl.
  - rewrite G. reflexivity.
  - rewrite no_err_key by assumption. rewrite starts_with_app, skipn_app_len, E. exact G.
  - destruct (W E) as [W1 W2].
    assert (N : forall x : str, x = fst (req reqs t) ++ SUFFIX -> dget (Some (x, snd (req reqs t))) a = None).
    { intros x Hx. subst x. apply dget_none. intros k' e Hin Heq. rewrite (K _ _ Hin) in Heq. unfold key_of in Heq.
      destruct (r2r R2R (fst (req reqs e))) eqn:E'; try discriminate. inversion Heq; subst.
      destruct (r2r_in_value _ _ _ E') as [a' Ha]. exact (W1 _ Ha). }
    rewrite (N _ eq_refl), W2. exact G.
  - rewrite no_err_key by assumption. rewrite starts_with_app, skipn_app_len, E. exact G.
Qed.

End Match.

(* ---------------------------------------------------------------- the pending-request table under all schedules *)
Definition removal (l l' : list (key * eid)) : Prop :=
  (forall x, In x l' -> In x l) /\ (NoDup (map fst l) -> NoDup (map fst l')).

Lemma removal_refl : forall l, removal l l.
Proof. split; auto. Qed.
Lemma removal_trans : forall a b c, removal a b -> removal b c -> removal a c.
Proof. intros a b c [H1 H2] [H3 H4]. split; auto. Qed.

Lemma removal_tail : forall x l, removal (x :: l) l.
Proof. intros [k e] l. split; simpl; auto. intro H. inversion H; auto. Qed.

Lemma removal_cons : forall x l l', removal l l' -> removal (x :: l) (x :: l').
Proof.
  intros [k e] l l' [H1 H2]. split; simpl.
  - intros y [Hy|Hy]; auto.
  - intro N. inversion N; subst. constructor; auto.
    intro Hin. apply H3. apply in_map_iff in Hin. destruct Hin as [[k' e'] [Hk Hin]]. simpl in Hk; subst.
    apply in_map_iff. exists (k, e'). split; auto.
Qed.

Lemma dpop_removal : forall k l, removal l (snd (dpop k l)).
Proof.
  induction l as [|[k' e] r IH]; simpl.
  - apply removal_refl.
  - destruct (key_eqb k k'); simpl.
    + apply removal_tail.
    + destruct (dpop k r) as [x r'] eqn:E. simpl in *. apply removal_cons. exact IH.
Qed.

Lemma dremove_val_removal : forall e l, removal l (dremove_val e l).
Proof.
  induction l as [|[k' e'] r IH]; simpl.
  - apply removal_refl.
  - destruct (Nat.eqb e e'); [apply removal_tail | apply removal_cons; exact IH].
Qed.

Lemma fold_remove_removal : forall es l, removal l (fold_left (fun a e => dremove_val e a) es l).
Proof.
  induction es as [|e es IH]; simpl; intro l; [apply removal_refl|].
  eapply removal_trans; [apply dremove_val_removal | apply IH].
Qed.

Lemma popitem_none : forall l, popitem l = None -> l = [].
Proof. destruct l as [|[k x] r]; simpl; auto. destruct (popitem r) as [[y r']|]; discriminate. Qed.

Lemma popitem_removal : forall l e l', popitem l = Some (e, l') -> removal l l'.
Proof.
  induction l as [|[k x] r IH]; simpl; intros e l' H; try discriminate.
  destruct (popitem r) as [[y r']|] eqn:E.
  - inversion H; subst. apply removal_cons. eapply IH; reflexivity.
  - inversion H; subst. apply popitem_none in E. subst r. apply removal_tail.
Qed.

Lemma dmem_false_notin : forall k l, dmem k l = false -> ~ In k (map fst l).
Proof.
  induction l as [|[k' e] r IH]; simpl; intros H; auto.
  destruct (key_eqb k k') eqn:E; try discriminate.
  intros [Hk|Hk]; [subst; rewrite key_eqb_refl in E; discriminate | exact (IH H Hk)].
Qed.

Lemma NoDup_app_one : forall {A} (l : list A) x, NoDup l -> ~ In x l -> NoDup (l ++ [x]).
Proof.
  induction l as [|y l IH]; simpl; intros x N H.
  - constructor; auto.
  - inversion N; subst. constructor.
    + intro Hin. apply in_app_or in Hin. destruct Hin as [Hin|[Hin|[]]]; auto.
    + apply IH; auto.
Qed.

Section Table.
Variable R2R : list (str * str).
Variable ERR : str.
Variable reqs : list (str * str).

(* how one step may change the table: entries are only removed, or one entry is registered under the key of its
   own request, and only if that key is not registered *)
Definition table_step (l l' : list (key * eid)) : Prop :=
  removal l l' \/ exists e, l' = l ++ [(key_of R2R (req reqs e), e)] /\ dmem (key_of R2R (req reqs e)) l = false.

Lemma rx_match_removal : forall a m, removal a (snd (rx_match R2R ERR a m)).
Proof.
  intros. unfold rx_match. pose proof (dpop_removal (Some (m_action m, m_ident m)) a) as P.
  destruct (dpop (Some (m_action m, m_ident m)) a) as [[e|] a']; simpl in *; auto.
  apply dpop_removal.
Qed.

Lemma rel_loop_removal : forall s, removal (active s) (active (fst (rel_loop_in s))).
Proof.
  intro s. unfold rel_loop_in. destruct (popitem (active s)) as [[e a']|] eqn:E; simpl.
  - eapply popitem_removal; eauto.
  - apply removal_refl.
Qed.

Ltac brk := repeat match goal with
  | |- context[match ?x with _ => _ end] => destruct x eqn:?; simpl
  | |- context[if ?x then _ else _] => destruct x eqn:?; simpl
  end.

Lemma dstep_removal : forall s d, removal (active s) (active (fst (dstep s d))).
Proof.
  intros s d. destruct d; simpl; try apply removal_refl;
    unfold post_drain, after_tx, rel_begin; brk;
    try apply removal_refl;
    try (match goal with |- removal _ (active (fst (rel_loop_in ?s))) =>
           eapply removal_trans; [|apply (rel_loop_removal s)]; simpl; apply removal_refl end).
Qed.

Lemma rx_loop_top_removal : forall s, removal (active s) (active (rx_loop_top s)).
Proof.
  intro s. unfold rx_loop_top, do_cleanup, rx_finally. brk; try apply removal_refl; apply fold_remove_removal.
Qed.

Lemma tx_loop_top_active : forall s, active (tx_loop_top s) = active s.
Proof. intro s. unfold tx_loop_top, tx_exit. destruct (running s); reflexivity. Qed.

Lemma cstep_table : forall s x, table_step (active s) (active (cstep R2R ERR reqs s x)).
Proof.
  intros s [t a]. unfold cstep; simpl. destruct t.
  - (* caller *) left. unfold caller_step, finish. brk; apply removal_refl.
  - (* tx *) unfold tx_step. destruct (tx s) eqn:Etx; simpl.
    + left. rewrite tx_loop_top_active. apply removal_refl.
    + destruct (txq s) as [|[e|] r] eqn:Eq; simpl.
      * left. apply removal_refl.
      * destruct (dmem (key_of R2R (req reqs e)) (active s)) eqn:Em; simpl.
        -- left. apply removal_refl.
        -- right. exists e. destruct (io_set s); simpl; auto.
      * left. unfold tx_exit. simpl. apply removal_refl.
    + left. rewrite tx_loop_top_active. apply removal_refl.
    + left. destruct (closed_local s); simpl; [apply removal_refl|].
      rewrite tx_loop_top_active. apply removal_refl.
    + left. destruct (d_enabled s d); [|apply removal_refl].
      pose proof (dstep_removal s d) as P. destruct (dstep s d) as [s1 d1]. simpl in *. exact P.
    + left. apply removal_refl.
  - (* rx *) left. unfold rx_step. destruct (rx s) eqn:Erx; simpl.
    + apply rx_loop_top_removal.
    + destruct (pending s); [destruct (io_set s)|]; apply removal_refl.
    + destruct (pending s); apply removal_refl.
    + apply removal_refl.
    + destruct (closed_local s); [apply removal_refl|].
      destruct a as [| |[| | |t ok]]; try apply rx_loop_top_removal; try apply removal_refl.
      destruct (memb t (out s)); [|apply rx_loop_top_removal].
      pose proof (rx_match_removal (active s) (answer R2R ERR (req reqs t) ok t)) as P. simpl.
      destruct (rx_match R2R ERR (active s) (answer R2R ERR (req reqs t) ok t)) as [[e|] a'] eqn:Em; simpl in *.
      * exact P.
      * eapply removal_trans; [|apply rx_loop_top_removal]. simpl. apply removal_refl.
    + apply removal_refl.
    + destruct (pending s); [apply rx_loop_top_removal | apply removal_refl].
    + destruct (pending s); apply removal_refl.
    + apply removal_refl.
    + destruct (d_enabled s d); [|apply removal_refl].
      pose proof (dstep_removal s d) as P. destruct (dstep s d) as [s1 d1]. simpl in *. exact P.
  - (* user *) left. unfold user_step. destruct (us s); simpl; [apply removal_refl|].
    destruct (d_enabled s d); [|apply removal_refl].
    pose proof (dstep_removal s d) as P. destruct (dstep s d) as [s1 d1]. simpl in *. exact P.
Qed.

Definition table_inv (l : list (key * eid)) : Prop :=
  keys_ok R2R reqs l /\ NoDup (map fst l).

Lemma table_step_inv : forall l l', table_step l l' -> table_inv l -> table_inv l'.
Proof.
  intros l l' [[H1 H2]|[e [He Hm]]] [K N].
  - split; auto. intros k e Hin. apply K. apply H1. exact Hin.
  - subst l'. split.
    + intros k x Hin. apply in_app_or in Hin. destruct Hin as [Hin|[Hin|[]]]; [apply K; exact Hin|].
      inversion Hin; subst. reflexivity.
    + rewrite map_app. simpl. apply NoDup_app_one; auto. apply dmem_false_notin. exact Hm.
Qed.

Theorem table_inv_run : forall sched, table_inv (active (run R2R ERR reqs sched)).
Proof.
  intro sched. unfold run.
  assert (G : forall s, table_inv (active s) -> table_inv (active (fold_left (cstep R2R ERR reqs) sched s))).
  { induction sched as [|x r IH]; simpl; intros s H; auto.
    apply IH. eapply table_step_inv; [apply cstep_table | exact H]. }
  apply G. simpl. split; [intros k e []|constructor].
Qed.

End Table.

(* ---------------------------------------------------------------- linearity of entries under all schedules *)
Fixpoint cnt (x : nat) (l : list nat) : nat :=
  match l with [] => 0 | y :: r => (if Nat.eqb x y then 1 else 0) + cnt x r end.
Fixpoint cnto (x : nat) (l : list (option nat)) : nat :=
  match l with
  | [] => 0
  | Some y :: r => (if Nat.eqb x y then 1 else 0) + cnto x r
  | None :: r => cnto x r
  end.
Fixpoint cputs (k : nat) (l : list cpc) : list nat :=
  match l with
  | [] => []
  | CPut :: r => k :: cputs (S k) r
  | _ :: r => cputs (S k) r
  end.
Definition hand_t (t : tpc) : list nat := match t with TPark e => [e] | _ => [] end.
Definition hand_r (r : rpc) : list nat := match r with RReq e | RTopReq e => [e] | _ => [] end.
Definition vals (l : list (key * eid)) : list nat := map snd l.

(* where an entry can be: not yet queued, in txq, in pending, registered, in the hand of tx (about to be parked),
   in the hand of rx (being re-queued), answered *)
Definition Q (s : state) (x : nat) : nat :=
  cnto x (txq s) + cnt x (pending s) + cnt x (vals (active s)).
Definition P (s : state) (x : nat) : nat :=
  cnt x (cputs 0 (cs s)) + Q s x + cnt x (hand_t (tx s)) + cnt x (hand_r (rx s)) + cnt x (map fst (replies s)).

Lemma cnt_app : forall x a b, cnt x (a ++ b) = cnt x a + cnt x b.
Proof. induction a; simpl; intros; auto. rewrite IHa. lia. Qed.
Lemma cnto_app : forall x a b, cnto x (a ++ b) = cnto x a + cnto x b.
Proof. induction a as [|[y|] a IH]; simpl; intros; auto. rewrite IH. lia. Qed.
Lemma vals_app : forall a b, vals (a ++ b) = vals a ++ vals b.
Proof. intros. unfold vals. apply map_app. Qed.

Lemma dpop_cnt : forall x k l,
  cnt x (vals l) = cnt x (vals (snd (dpop k l))) + match fst (dpop k l) with Some e => cnt x [e] | None => 0 end.
Proof.
  induction l as [|[k' e] r IH]; simpl; auto.
  destruct (key_eqb k k'); simpl; [lia|].
  destruct (dpop k r) as [y r']; simpl in *. lia.
Qed.

Lemma dremove_val_cnt : forall x e l, cnt x (vals (dremove_val e l)) <= cnt x (vals l).
Proof.
  induction l as [|[k' e'] r IH]; simpl; auto. destruct (Nat.eqb e e'); simpl; lia.
Qed.
Lemma fold_remove_cnt : forall x es l, cnt x (vals (fold_left (fun a e => dremove_val e a) es l)) <= cnt x (vals l).
Proof.
  induction es as [|e es IH]; simpl; intro l; auto.
  eapply Nat.le_trans; [apply IH | apply dremove_val_cnt].
Qed.
Lemma popitem_cnt : forall x l e l', popitem l = Some (e, l') -> cnt x (vals l') <= cnt x (vals l).
Proof.
  induction l as [|[k y] r IH]; simpl; intros e l' H; try discriminate.
  destruct (popitem r) as [[z r']|] eqn:E; inversion H; subst; simpl.
  - specialize (IH _ _ eq_refl). lia.
  - lia.
Qed.

Lemma cputs_set_put : forall x c' l i k, nth_error l i = Some CPut -> c' <> CPut ->
  cnt x (cputs k (set_nth i c' l)) + (if Nat.eqb x (k + i) then 1 else 0) = cnt x (cputs k l).
Proof.
  induction l as [|c l IH]; intros i k H Hc; destruct i; simpl in *; try discriminate.
  - inversion H; subst. destruct c'; try congruence; simpl; rewrite Nat.add_0_r; lia.
  - specialize (IH i (S k) H Hc). replace (k + S i) with (S k + i) by lia.
    destruct c; simpl in *; lia.
Qed.
Lemma cputs_set_other : forall c c' l i k, nth_error l i = Some c -> c <> CPut -> c' <> CPut ->
  cputs k (set_nth i c' l) = cputs k l.
Proof.
  induction l as [|d l IH]; intros i k H Hc Hc'; destruct i; simpl in *; try discriminate.
  - inversion H; subst. destruct c; destruct c'; try congruence; reflexivity.
  - rewrite (IH i (S k) H Hc Hc'). reflexivity.
Qed.

Section Linear.
Variable R2R : list (str * str).
Variable ERR : str.
Variable reqs : list (str * str).

Ltac brk := repeat match goal with
  | |- context[match ?x with _ => _ end] => destruct x eqn:?; simpl
  | |- context[if ?x then _ else _] => destruct x eqn:?; simpl
  end.

Lemma rx_match_cnt : forall x a m,
  cnt x (vals a) = cnt x (vals (snd (rx_match R2R ERR a m))) +
                   match fst (rx_match R2R ERR a m) with Some e => cnt x [e] | None => 0 end.
Proof.
  intros. unfold rx_match. pose proof (dpop_cnt x (Some (m_action m, m_ident m)) a) as D1.
  destruct (dpop (Some (m_action m, m_ident m)) a) as [[e|] a'] eqn:E1; simpl in *; auto.
  apply dpop_cnt.
Qed.

Lemma rel_loop_Q : forall s x, Q (fst (rel_loop_in s)) x <= Q s x.
Proof.
  intros. unfold rel_loop_in, Q. destruct (popitem (active s)) as [[e a']|] eqn:E; simpl; auto.
  pose proof (popitem_cnt x _ _ _ E). lia.
Qed.

(* disconnect() only drops entries; it changes neither the callers nor the answered entries nor the thread states *)
Lemma dstep_Q : forall s d x, Q (fst (dstep s d)) x <= Q s x.
Proof.
  intros s d x. destruct d; simpl; auto;
    unfold post_drain, after_tx, rel_begin; brk; auto;
    try (match goal with |- Q (fst (rel_loop_in ?s1)) _ <= _ =>
           eapply Nat.le_trans; [apply (rel_loop_Q s1)|]; unfold Q; simpl; auto end);
    unfold Q; simpl; try rewrite cnto_app; simpl; try lia;
    repeat match goal with H : txq s = _ |- _ => rewrite H; simpl | H : pending s = _ |- _ => rewrite H; simpl end;
    try lia; destruct o; simpl; lia.
Qed.
Lemma dstep_frame : forall s d, let s1 := fst (dstep s d) in
  cs s1 = cs s /\ replies s1 = replies s /\ tx s1 = tx s /\ rx s1 = rx s.
Proof.
  intros s d. destruct d; simpl; auto; unfold post_drain, after_tx, rel_begin, rel_loop_in; brk; auto.
Qed.

Lemma tx_loop_top_P : forall s x, P (tx_loop_top s) x + cnt x (hand_t (tx s)) = P s x.
Proof. intros. unfold tx_loop_top, tx_exit, P, Q. destruct (running s); simpl; lia. Qed.

Lemma rx_loop_top_P : forall s x, P (rx_loop_top s) x + cnt x (hand_r (rx s)) <= P s x.
Proof.
  intros. unfold rx_loop_top, do_cleanup, rx_finally, P, Q. brk; try lia.
  pose proof (fold_remove_cnt x (rev (cleanup s)) (active s)). lia.
Qed.

Lemma disc_P : forall s d x (f : state -> dpc -> state),
  (forall s1 d1, P (f s1 d1) x + cnt x (hand_t (tx s1)) + cnt x (hand_r (rx s1))
                 = P s1 x + cnt x (hand_t (tx (f s1 d1))) + cnt x (hand_r (rx (f s1 d1)))) ->
  hand_t (tx (f (fst (dstep s d)) (snd (dstep s d)))) = hand_t (tx s) ->
  hand_r (rx (f (fst (dstep s d)) (snd (dstep s d)))) = hand_r (rx s) ->
  P (let '(s1, d1) := dstep s d in f s1 d1) x <= P s x.
Proof.
  intros s d x f Hf Ht Hr. pose proof (dstep_Q s d x) as HQ. pose proof (dstep_frame s d) as [F1 [F2 [F3 F4]]].
  destruct (dstep s d) as [s1 d1]. simpl in *. specialize (Hf s1 d1).
  rewrite Ht, Hr, F3, F4 in Hf. unfold P in *. rewrite F1, F2, F3, F4 in *. lia.
Qed.

Theorem cstep_P : forall s a x, P (cstep R2R ERR reqs s a) x <= P s x.
Proof.
  intros s [t a] x. unfold cstep; simpl. destruct t.
  - (* caller *)
    unfold caller_step, finish. destruct (nth_error (cs s) i) as [[| | |o]|] eqn:En; auto.
    + unfold P, Q; simpl. rewrite cnto_app; simpl.
      pose proof (cputs_set_put x (if running s then CWait else CSetOwn) (cs s) i 0 En
                    ltac:(destruct (running s); discriminate)). simpl in H. lia.
    + unfold P, Q; simpl. erewrite cputs_set_other; eauto; try discriminate; try lia.
    + assert (C : forall o, cputs 0 (set_nth i (CDone o) (cs s)) = cputs 0 (cs s)).
      { intro o. eapply cputs_set_other; eauto; discriminate. }
      brk; unfold P, Q; simpl; rewrite ?C; lia.
  - (* tx *)
    unfold tx_step. destruct (tx s) eqn:Etx; auto.
    + pose proof (tx_loop_top_P s x). rewrite Etx in H. simpl in H. lia.
    + destruct (txq s) as [|[e|] r] eqn:Eq; auto.
      * simpl. destruct (dmem (key_of R2R (req reqs e)) (active s)); [|simpl; destruct (io_set s)];
          unfold P, Q; simpl; rewrite ?Eq, ?Etx; simpl; rewrite ?vals_app, ?cnt_app; simpl; lia.
      * unfold tx_exit, P, Q; simpl. rewrite Eq, Etx. simpl. lia.
    + pose proof (tx_loop_top_P (set_pending s (pending s ++ [e])) x) as H. simpl in H. rewrite Etx in H.
      unfold P, Q in *. simpl in *. rewrite cnt_app in H. rewrite ?Etx in H. simpl in H. rewrite ?Etx. simpl. lia.
    + destruct (closed_local s).
      * unfold P, Q; simpl. rewrite Etx. simpl. lia.
      * pose proof (tx_loop_top_P (set_out s (out s ++ [e])) x) as H. simpl in H. rewrite Etx in H.
        unfold P, Q in *. simpl in *. rewrite ?Etx in H. simpl in H. rewrite ?Etx. simpl. lia.
    + destruct (d_enabled s d); auto.
      apply (disc_P s d x (fun s1 d1 => set_tx s1 (TDisc d1))).
      * intros. unfold P, Q. simpl. lia.
      * simpl. rewrite Etx. reflexivity.
      * simpl. destruct (dstep_frame s d) as [_ [_ [_ F]]]. rewrite F. reflexivity.
  - (* rx *)
    unfold rx_step. destruct (rx s) eqn:Erx; auto.
    + pose proof (rx_loop_top_P s x). lia.
    + destruct (pending s); [destruct (io_set s)|]; unfold rx_finally, P, Q; simpl; rewrite Erx; simpl; lia.
    + destruct (pending s) eqn:Ep; auto. unfold P, Q; simpl. rewrite Erx, Ep. simpl. lia.
    + unfold P, Q; simpl. rewrite Erx, cnto_app. simpl. lia.
    + assert (L : P (rx_loop_top s) x <= P s x) by (pose proof (rx_loop_top_P s x); lia).
      assert (F : forall sd, P (rx_finally s sd) x <= P s x).
      { intro sd. unfold rx_finally, P, Q; simpl. rewrite Erx. simpl. lia. }
      destruct (closed_local s); auto.
      destruct a as [| |[| | |t ok]]; auto.
      destruct (memb t (out s)); auto.
      change (active (set_out s (remove_id t (out s)))) with (active s).
      pose proof (rx_match_cnt x (active s) (answer R2R ERR (req reqs t) ok t)) as D.
      destruct (rx_match R2R ERR (active s) (answer R2R ERR (req reqs t) ok t)) as [[e|] a'] eqn:Em; simpl in D.
      * unfold P, Q; simpl. rewrite Erx. simpl. lia.
      * pose proof (rx_loop_top_P (set_out s (remove_id t (out s))) x) as H. simpl in H.
        unfold P, Q in *. simpl in *. lia.
    + unfold P, Q; simpl. rewrite Erx. simpl. lia.
    + destruct (pending s) eqn:Ep.
      * pose proof (rx_loop_top_P s x). lia.
      * unfold P, Q; simpl. rewrite Erx. simpl. lia.
    + destruct (pending s) eqn:Ep; auto. unfold P, Q; simpl. rewrite Erx, Ep. simpl. lia.
    + unfold P, Q; simpl. rewrite Erx, cnto_app. simpl. lia.
    + destruct (d_enabled s d); auto.
      apply (disc_P s d x (fun s1 d1 => set_rx s1 (RDisc d1))).
      * intros. unfold P, Q. simpl. lia.
      * simpl. destruct (dstep_frame s d) as [_ [_ [F _]]]. rewrite F. reflexivity.
      * simpl. rewrite Erx. reflexivity.
  - (* user *)
    unfold user_step. destruct (us s) eqn:Eu.
    + unfold P, Q; simpl. lia.
    + destruct (d_enabled s d); auto.
      apply (disc_P s d x (fun s1 d1 => set_us s1 (UDisc d1))).
      * intros. unfold P, Q. simpl. lia.
      * simpl. destruct (dstep_frame s d) as [_ [_ [F _]]]. rewrite F. reflexivity.
      * simpl. destruct (dstep_frame s d) as [_ [_ [_ F]]]. rewrite F. reflexivity.
Qed.

Lemma cputs_lt : forall x l k, x < k -> cnt x (cputs k l) = 0.
Proof.
  induction l as [|c l IH]; intros k H; simpl; auto.
  destruct c; simpl; try (apply IH; lia).
  replace (Nat.eqb x k) with false by (symmetry; apply Nat.eqb_neq; lia). simpl. apply IH. lia.
Qed.
Lemma cputs_le1 : forall x l k, cnt x (cputs k l) <= 1.
Proof.
  induction l as [|c l IH]; intros k; simpl; auto.
  destruct c; simpl; auto.
  destruct (Nat.eqb x k) eqn:E; [|simpl; apply IH].
  apply Nat.eqb_eq in E. subst. rewrite cputs_lt by lia. lia.
Qed.

Theorem linear_run : forall sched x, P (run R2R ERR reqs sched) x <= 1.
Proof.
  intros sched x. unfold run.
  assert (G : forall s, P (fold_left (cstep R2R ERR reqs) sched s) x <= P s x).
  { induction sched as [|a r IH]; simpl; intro s; auto.
    eapply Nat.le_trans; [apply IH | apply cstep_P]. }
  eapply Nat.le_trans; [apply G|]. unfold P, Q, init; simpl.
  pose proof (cputs_le1 x (map (fun _ : str * str => CPut) reqs) 0). lia.
Qed.

End Linear.

(* ---------------------------------------------------------------- bounded wait; where disconnect() can raise *)
Lemma nth_error_set_nth : forall {A} (l : list A) i c v, nth_error l i = Some c -> nth_error (set_nth i v l) i = Some v.
Proof. induction l; destruct i; simpl; intros; try discriminate; eauto. Qed.

Lemma wait_bounded : forall R2R ERR reqs s i, nth_error (cs s) i = Some CWait ->
  enabled s (TC i) ATimeout = true /\
  exists o, nth_error (cs (cstep R2R ERR reqs s (TC i, ATimeout))) i = Some (CDone o).
Proof.
  intros R2R ERR reqs s i H. split.
  - unfold enabled. rewrite H. apply orb_true_r.
  - unfold cstep, caller_step, finish; simpl. rewrite H.
    destruct (memb i (evset s)); [destruct (rassoc i (replies s))|]; simpl; eexists;
      eapply nth_error_set_nth; eauto.
Qed.

(* ---------------------------------------------------------------- disconnect() never raises (repair a58ac30) *)
Ltac brk0 := repeat match goal with
  | |- context[match ?x with _ => _ end] => destruct x eqn:?; simpl
  | |- context[if ?x then _ else _] => destruct x eqn:?; simpl
  end.

Lemma dstep_no_exc : forall s d, d <> DExc -> snd (dstep s d) <> DExc.
Proof.
  intros s d H. destruct d; simpl; try congruence;
    unfold post_drain, after_tx, rel_begin, rel_loop_in; brk0; discriminate.
Qed.

Lemma dstep_frame_us : forall s d, us (fst (dstep s d)) = us s.
Proof. intros s d. destruct d; simpl; auto; unfold post_drain, after_tx, rel_begin, rel_loop_in; brk0; auto. Qed.

Definition exc_free (s : state) : Prop :=
  tx s <> TDisc DExc /\ rx s <> RDisc DExc /\ us s <> UDisc DExc.

Lemma cstep_exc_free : forall R2R ERR reqs s a, exc_free s -> exc_free (cstep R2R ERR reqs s a).
Proof.
  intros R2R ERR reqs s [t a] [Ht [Hr Hu]]. unfold cstep; simpl. unfold exc_free. destruct t.
  - unfold caller_step, finish. brk0; repeat split; simpl; congruence.
  - unfold tx_step. destruct (tx s) eqn:Etx;
      try (unfold tx_loop_top, tx_exit; brk0; repeat split; simpl; congruence).
    destruct (d_enabled s d); [|repeat split; congruence].
    pose proof (dstep_no_exc s d) as N. pose proof (dstep_frame s d) as [_ [_ [_ F]]].
    pose proof (dstep_frame_us s d) as U.
    destruct (dstep s d) as [s1 d1]. simpl in *. repeat split; simpl; try congruence.
    intro E. inversion E; subst. apply N; auto. intro; subst; apply Ht; reflexivity.
  - unfold rx_step. destruct (rx s) eqn:Erx;
      try (unfold rx_loop_top, do_cleanup, rx_finally; brk0; repeat split; simpl; congruence).
    destruct (d_enabled s d); [|repeat split; congruence].
      pose proof (dstep_no_exc s d) as N. pose proof (dstep_frame s d) as [_ [_ [F _]]].
      pose proof (dstep_frame_us s d) as U.
      destruct (dstep s d) as [s1 d1]. simpl in *. repeat split; simpl; try congruence.
      intro E. inversion E; subst. apply N; auto. intro; subst; apply Hr; reflexivity.
  - unfold user_step. destruct (us s) eqn:Eu.
    + repeat split; simpl; congruence.
    + destruct (d_enabled s d); [|repeat split; congruence].
      pose proof (dstep_no_exc s d) as N. pose proof (dstep_frame s d) as [_ [_ [F1 F2]]].
      destruct (dstep s d) as [s1 d1]. simpl in *. repeat split; simpl; try congruence.
      intro E. inversion E; subst. apply N; auto. intro; subst; apply Hu; reflexivity.
Qed.

Theorem never_raises : forall R2R ERR reqs sched, exc_free (run R2R ERR reqs sched).
Proof.
  intros R2R ERR reqs sched. unfold run.
  assert (G : forall s, exc_free s -> exc_free (fold_left (cstep R2R ERR reqs) sched s)).
  { induction sched as [|a r IH]; simpl; intros s H; auto. apply IH. apply cstep_exc_free; exact H. }
  apply G. repeat split; simpl; discriminate.
Qed.

(* ---------------------------------------------------------------- the repaired release paths, step by step *)
Lemma memb_head : forall e l, memb e (e :: l) = true.
Proof. intros. simpl. rewrite Nat.eqb_refl. reflexivity. Qed.

(* repair 14a9701: every entry taken out of txq by the drain of disconnect() gets its event set by the same thread *)
Lemma drain_releases : forall s e r, txq s = Some e :: r ->
  snd (dstep s DQDrop) = DQSet e /\
  memb e (evset (fst (dstep (fst (dstep s DQDrop)) (DQSet e)))) = true /\
  snd (dstep (fst (dstep s DQDrop)) (DQSet e)) = DQDrop.
Proof. intros s e r H. simpl. rewrite H. simpl. rewrite Nat.eqb_refl. auto. Qed.

(* repair 14a9701: a request queued after disconnect() began is released by its own caller *)
Lemma late_put_self_release : forall R2R ERR reqs s i, running s = false -> nth_error (cs s) i = Some CPut ->
  let s2 := cstep R2R ERR reqs (cstep R2R ERR reqs s (TC i, ANone)) (TC i, ANone) in
  memb i (evset s2) = true /\ nth_error (cs s2) i = Some CWait.
Proof.
  intros R2R ERR reqs s i Hr Hc. unfold cstep; simpl.
  assert (E1 : caller_step ERR s i ANone = set_cs (set_txq s (txq s ++ [Some i])) (set_nth i CSetOwn (cs s))).
  { unfold caller_step. rewrite Hc, Hr. reflexivity. }
  rewrite E1. remember (set_cs (set_txq s (txq s ++ [Some i])) (set_nth i CSetOwn (cs s))) as s1 eqn:Es1.
  assert (H1 : nth_error (cs s1) i = Some CSetOwn) by (subst s1; simpl; eapply nth_error_set_nth; eauto).
  unfold caller_step. rewrite H1. simpl. rewrite Nat.eqb_refl. split; auto.
  eapply nth_error_set_nth; eauto.
Qed.

(* repair 2fda835: the rx thread reaches readline only through the re-queue loop, and only with `pending` empty *)
Lemma recv_only_after_requeue : forall R2R ERR reqs s a,
  rx s <> RRecv -> rx (rx_step R2R ERR reqs s a) = RRecv -> rx s = RTopEmpty /\ pending s = [].
Proof.
  intros R2R ERR reqs s a Hn H. unfold rx_step in H. destruct (rx s) eqn:Erx; try congruence;
    unfold rx_loop_top, rx_finally, do_cleanup in H;
    repeat match type of H with
    | context[match ?x with _ => _ end] => destruct x eqn:?; simpl in H
    | context[if ?x then _ else _] => destruct x eqn:?; simpl in H
    end; try discriminate; auto; try congruence.
Qed.
Lemma requeue_moves_parked : forall R2R ERR reqs s e r a, rx s = RTopEmpty -> pending s = e :: r ->
  let s3 := rx_step R2R ERR reqs (rx_step R2R ERR reqs (rx_step R2R ERR reqs s a) a) a in
  rx s3 = RTopEmpty /\ pending s3 = r /\ txq s3 = txq s ++ [Some e].
Proof.
  intros R2R ERR reqs s e r a H1 H2.
  assert (E1 : rx_step R2R ERR reqs s a = set_rx s RTopGet) by (unfold rx_step; rewrite H1, H2; reflexivity).
  rewrite E1.
  assert (E2 : rx_step R2R ERR reqs (set_rx s RTopGet) a = set_rx (set_pending (set_rx s RTopGet) r) (RTopReq e))
    by (unfold rx_step; simpl; rewrite H2; reflexivity).
  rewrite E2. unfold rx_step. simpl. auto.
Qed.
