(* C11 - lemmas: (1) the matching code hands the answer to a request to the entry of that request,
   (2) a waiting caller can always leave by time-out, (3) entries are linear: every entry is in at most one of
   txq / pending / active_requests / a thread's hand / answered, under every schedule. *)
From Coq Require Import List Arith NArith Bool Lia.
Import ListNotations.
Require Import FV.Base.Util FV.C11.Model.

(* ---------------------------------------------------------------- strings and keys *)
Lemma str_eqb_eq : forall a b, str_eqb a b = true <-> a = b.
Proof.
  unfold str_eqb. induction a as [|x a IH]; destruct b as [|y b]; simpl; split; intro H; try discriminate; auto.
  - apply andb_true_iff in H. destruct H as [H1 H2]. apply N.eqb_eq in H1. apply IH in H2. congruence.
  - inversion H; subst. apply andb_true_iff. split; [apply N.eqb_refl | apply IH; reflexivity].
Qed.

Lemma key_eqb_eq : forall a b, key_eqb a b = true <-> a = b.
Proof.
  intros [[a1 a2]|] [[b1 b2]|]; simpl; split; intro H; try discriminate; auto.
  - apply andb_true_iff in H. destruct H as [H1 H2]. apply str_eqb_eq in H1, H2. congruence.
  - inversion H; subst. apply andb_true_iff. split; apply str_eqb_eq; reflexivity.
Qed.

Lemma key_eqb_refl : forall k, key_eqb k k = true.
Proof. intro; apply key_eqb_eq; reflexivity. Qed.

Lemma starts_with_app : forall p s, starts_with p (p ++ s) = true.
Proof. induction p; simpl; intros; auto. rewrite N.eqb_refl; simpl; auto. Qed.

Lemma skipn_app_len : forall (p s : str), skipn (length p) (p ++ s) = s.
Proof. induction p; simpl; auto. Qed.

Lemma dpop_dget : forall k l, fst (dpop k l) = dget k l.
Proof.
  induction l as [|[k' e] r IH]; simpl; auto.
  destruct (key_eqb k k'); simpl; auto. destruct (dpop k r); simpl in *; auto.
Qed.

Lemma dget_none : forall k l, (forall k' e, In (k', e) l -> k' <> k) -> dget k l = None.
Proof.
  induction l as [|[k' e] r IH]; simpl; intros H; auto.
  destruct (key_eqb k k') eqn:E.
  - apply key_eqb_eq in E. exfalso. apply (H k' e); auto.
  - apply IH. intros; eapply H; eauto.
Qed.

Section Match.
Variable R2R : list (str * str).
Variable ERR : str.
Variable reqs : list (str * str).

Lemma r2r_in_value : forall a l r, r2r_in a l = Some r -> exists a', In (a', r) l.
Proof.
  induction l as [|[x y] l IH]; simpl; intros r H; try discriminate.
  destruct (str_eqb a x).
  - inversion H; subst. eauto.
  - destruct (IH _ H) as [a' Ha]. eauto.
Qed.

(* no reply action of the table starts with the error prefix *)
Definition table_ok : Prop := forall a r, In (a, r) R2R -> starts_with ERR r = false.
(* the answer a ++ "_r" of the peer to an unknown action is neither a reply action of the table nor an error reply *)
Definition wf_req (rq : str * str) : Prop :=
  r2r R2R (fst rq) = None ->
  (forall a, ~ In (a, fst rq ++ SUFFIX) R2R) /\ starts_with ERR (fst rq ++ SUFFIX) = false.

Definition keys_ok (a : list (key * eid)) : Prop :=
  forall k e, In (k, e) a -> k = key_of R2R (req reqs e).

Lemma no_err_key : forall a x i, table_ok -> keys_ok a -> dget (Some (ERR ++ x, i)) a = None.
Proof.
  intros a x i T K. apply dget_none. intros k' e Hin Heq. rewrite (K _ _ Hin) in Heq.
  unfold key_of in Heq. destruct (r2r R2R (fst (req reqs e))) eqn:E; try discriminate.
  inversion Heq; subst. destruct (r2r_in_value _ _ _ E) as [a' Ha].
  apply T in Ha. rewrite starts_with_app in Ha. discriminate.
Qed.

Lemma rx_match_fst : forall a m,
  fst (rx_match R2R ERR a m) =
  match dget (Some (m_action m, m_ident m)) a with
  | Some e => Some e
  | None => dget (if starts_with ERR (m_action m)
                  then match r2r R2R (skipn (length ERR) (m_action m)) with
                       | Some r => Some (r, m_ident m) | None => None end
                  else None) a
  end.
Proof.
  intros. unfold rx_match. rewrite <- (dpop_dget (Some (m_action m, m_ident m)) a).
  destruct (dpop (Some (m_action m, m_ident m)) a) as [[e|] a']; simpl; auto. apply dpop_dget.
Qed.

(* lines 487-500 of frappy/client/__init__.py with the table of frappy/protocol/messages.py: whatever else is
   registered, the reply or the error reply to the request of entry t is handed to entry t *)
Theorem match_own : forall a t ok,
  table_ok -> wf_req (req reqs t) -> keys_ok a ->
  dget (key_of R2R (req reqs t)) a = Some t ->
  fst (rx_match R2R ERR a (answer R2R ERR (req reqs t) ok t)) = Some t.
Proof.
  intros a t ok T W K G. rewrite rx_match_fst. unfold answer, key_of in *. simpl.
  destruct (r2r R2R (fst (req reqs t))) eqn:E; destruct ok; simpl.
  - rewrite G. reflexivity.
  - rewrite no_err_key by assumption. rewrite starts_with_app, skipn_app_len, E. exact G.
  - destruct (W E) as [W1 W2].
    assert (N : dget (Some (fst (req reqs t) ++ SUFFIX, snd (req reqs t))) a = None).
    { apply dget_none. intros k' e Hin Heq. rewrite (K _ _ Hin) in Heq. unfold key_of in Heq.
      destruct (r2r R2R (fst (req reqs e))) eqn:E'; try discriminate. inversion Heq; subst.
      destruct (r2r_in_value _ _ _ E') as [a' Ha]. exact (W1 _ Ha). }
    rewrite N, W2. exact G.
  - rewrite no_err_key by assumption. rewrite starts_with_app, skipn_app_len, E. exact G.
Qed.

End Match.
