(* C11 - the time-out cleanup of the rx thread (top of every turn of __rxthread:
     while self.cleanup: entry = self.cleanup.pop()
         for key, prev in self.active_requests.items():
             if prev is entry: self.active_requests.pop(key); break )
   removes an entry from active_requests only if it IS the entry of a timed-out request (identity, not key):
   under every schedule the entry of a caller that still waits survives the cleanup - also when a timed-out request
   with the same action+specifier is on the cleanup list - and the reply that arrives for it is matched to it. *)
From Coq Require Import List Arith NArith Bool Lia.
Import ListNotations.
Require Import FV.Base.Util FV.C11.Model FV.C11.Lemmas FV.C11.ReleaseBase.

Lemma memb_In : forall e l, memb e l = true <-> In e l.
Proof.
  induction l as [|x r IH]; simpl; split; intro H; try discriminate; try contradiction.
  - destruct (Nat.eqb e x) eqn:E; [apply Nat.eqb_eq in E; auto | right; apply IH; exact H].
  - destruct H as [H|H]; [subst; rewrite Nat.eqb_refl; reflexivity|].
    destruct (Nat.eqb e x); auto. apply IH; exact H.
Qed.

Lemma cnt_zero_notin : forall x l, cnt x (vals l) = 0 -> forall k, ~ In (k, x) l.
Proof.
  induction l as [|[k' e'] r IH]; simpl; intros H k Hin; auto.
  destruct (Nat.eqb x e') eqn:E; simpl in H; try discriminate.
  destruct Hin as [Hin|Hin]; [inversion Hin; subst; rewrite Nat.eqb_refl in E; discriminate | exact (IH H k Hin)].
Qed.

(* ---- one pass of the scan: `for key, prev in items(): if prev is entry: pop(key); break` *)
Lemma dremove_val_keeps : forall e k x l, In (k, x) l -> x <> e -> In (k, x) (dremove_val e l).
Proof.
  induction l as [|[k' e'] r IH]; simpl; intros Hin Hne; auto.
  destruct (Nat.eqb e e') eqn:E.
  - apply Nat.eqb_eq in E. subst e'. destruct Hin as [Hin|Hin]; auto. inversion Hin; subst. congruence.
  - destruct Hin as [Hin|Hin]; [left; exact Hin | right; apply IH; assumption].
Qed.

Lemma dremove_val_sub : forall e p l, In p (dremove_val e l) -> In p l.
Proof. intros e p l. apply (dremove_val_removal e l). Qed.

Lemma dremove_val_gone : forall e l, cnt e (vals l) <= 1 -> forall k, ~ In (k, e) (dremove_val e l).
Proof.
  induction l as [|[k' e'] r IH]; simpl; intros H k Hin; auto.
  destruct (Nat.eqb e e') eqn:E; simpl in *.
  - apply (cnt_zero_notin e r ltac:(lia) k Hin).
  - destruct Hin as [Hin|Hin].
    + inversion Hin; subst. rewrite Nat.eqb_refl in E. discriminate.
    + apply (IH H k Hin).
Qed.

(* ---- the whole loop over the cleanup list *)
Definition scan (es : list eid) (l : list (key * eid)) := fold_left (fun a e => dremove_val e a) es l.

Lemma scan_keeps : forall es k x l, In (k, x) l -> ~ In x es -> In (k, x) (scan es l).
Proof.
  unfold scan. induction es as [|e es IH]; simpl; intros k x l Hin Hn; auto.
  apply IH; [|tauto]. apply dremove_val_keeps; [exact Hin|]. intro Hx. subst. tauto.
Qed.

Lemma scan_sub : forall es p l, In p (scan es l) -> In p l.
Proof. intros es p l. apply (fold_remove_removal es l). Qed.

Lemma scan_gone : forall es e l, (forall x, cnt x (vals l) <= 1) -> In e es -> forall k, ~ In (k, e) (scan es l).
Proof.
  unfold scan. induction es as [|e0 es IH]; simpl; intros e l H Hin k; [contradiction|].
  assert (H' : forall x, cnt x (vals (dremove_val e0 l)) <= 1).
  { intro x. eapply Nat.le_trans; [apply dremove_val_cnt | apply H]. }
  destruct (Nat.eq_dec e e0) as [->|Hne].
  - intro Hf. apply scan_sub in Hf. exact (dremove_val_gone e0 l (H e0) k Hf).
  - destruct Hin as [Hin|Hin]; [congruence|]. apply IH; assumption.
Qed.

Lemma dget_in : forall k e l, dget k l = Some e -> exists k', k' = k /\ In (k', e) l.
Proof.
  induction l as [|[k' e'] r IH]; simpl; intro H; try discriminate.
  destruct (key_eqb k k') eqn:E.
  - apply key_eqb_eq in E. inversion H; subst. exists k'. auto.
  - destruct (IH H) as [k2 [H1 H2]]. exists k2. auto.
Qed.

Lemma in_nodup_dget : forall k e l, NoDup (map fst l) -> In (k, e) l -> dget k l = Some e.
Proof.
  induction l as [|[k' e'] r IH]; simpl; intros N Hin; [contradiction|].
  inversion N; subst. destruct Hin as [Hin|Hin].
  - inversion Hin; subst. rewrite key_eqb_refl. reflexivity.
  - destruct (key_eqb k k') eqn:E.
    + apply key_eqb_eq in E. subst. exfalso. apply H1. apply in_map_iff. exists (k', e). auto.
    + apply IH; assumption.
Qed.

Lemma dn_caller_done : forall s e, dn (cs s) e = true -> caller_done s e = true.
Proof.
  intros s e H. unfold dn in H. unfold caller_done.
  destruct (nth_error (cs s) e) as [c|] eqn:E; try discriminate.
  rewrite (nth_error_nth _ _ CPut E). destruct c; try discriminate. reflexivity.
Qed.

Section Cleanup.
Variable R2R : list (str * str).
Variable ERR : str.
Variable reqs : list (str * str).

Lemma active_do_cleanup : forall s, active (do_cleanup s) = scan (rev (cleanup s)) (active s).
Proof. reflexivity. Qed.

(* the cleanup loop runs at the top of every turn of the rx thread while the client is running, and only there *)
Lemma rx_loop_top_is_cleanup : forall s, running s = true ->
  active (rx_loop_top s) = active (do_cleanup s) /\ cleanup (rx_loop_top s) = [].
Proof. intros s H. unfold rx_loop_top. rewrite H. split; reflexivity. Qed.

(* (1) identity: in every reachable state the cleanup removes exactly the entries of the requests on the cleanup
   list; an entry of any other request - whatever its key - stays *)
Theorem cleanup_by_identity : forall sched,
  let s := run R2R ERR reqs sched in
  forall k e, In (k, e) (active s) -> (In (k, e) (active (do_cleanup s)) <-> ~ In e (cleanup s)).
Proof.
  intros sched s k e Hin. rewrite active_do_cleanup. split.
  - intros H Hc. revert H. apply scan_gone.
    + intro x. pose proof (linear_run R2R ERR reqs sched x) as L. fold s in L. unfold P, Q in L. lia.
    + apply in_rev. rewrite rev_involutive. exact Hc.
  - intro Hn. apply scan_keeps; auto. intro Hr. apply Hn. apply in_rev. exact Hr.
Qed.

(* the flag invariant I5 of ReleaseBase (cleanup list within the returned callers) along every schedule; proved here from
   its step lemma alone, without the large tracking invariant of Release.v *)
Lemma I5_run : forall sched, I5 (run R2R ERR reqs sched).
Proof.
  intro sched. unfold run.
  assert (G : forall s, I5 s -> I5 (fold_left (cstep R2R ERR reqs) sched s)).
  { induction sched as [|x r IH]; simpl; intros s H; auto. apply IH. apply step_I5. exact H. }
  apply G. unfold I5, init; simpl. intros e H. discriminate.
Qed.

(* (2) only requests whose caller has returned (time-out) are ever on the cleanup list *)
Theorem cleanup_only_returned : forall sched,
  let s := run R2R ERR reqs sched in
  forall e, In e (cleanup s) -> caller_done s e = true.
Proof.
  intros sched s e Hin. pose proof (I5_run sched) as H5. fold s in H5.
  apply dn_caller_done. apply H5. apply memb_In. exact Hin.
Qed.

(* (3) hence: the entry of a caller that has not returned survives every cleanup - also when a timed-out request
   with the same key is on the list (the key was reused) - stays registered under its key, and the reply or error
   reply that arrives for it is matched to it *)
Theorem cleanup_keeps_waiting_entry : forall sched t ok,
  table_ok R2R ERR -> wf_req R2R ERR (req reqs t) ->
  let s := run R2R ERR reqs sched in
  let a' := active (do_cleanup s) in
  caller_done s t = false ->
  dget (key_of R2R (req reqs t)) (active s) = Some t ->
  dget (key_of R2R (req reqs t)) a' = Some t /\
  fst (rx_match R2R ERR a' (answer R2R ERR (req reqs t) ok t)) = Some t.
Proof.
  intros sched t ok TO W s a' Hd Hg.
  destruct (table_inv_run R2R ERR reqs sched) as [K N]. fold s in K, N.
  destruct (dget_in _ _ _ Hg) as [k [Hk Hin]]. subst k.
  assert (Hin' : In (key_of R2R (req reqs t), t) a').
  { apply (cleanup_by_identity sched); auto. intro Hc.
    pose proof (cleanup_only_returned sched t Hc) as D. fold s in D. congruence. }
  pose proof (fold_remove_removal (rev (cleanup s)) (active s)) as [S1 S2].
  assert (N' : NoDup (map fst a')) by (apply S2; exact N).
  assert (K' : keys_ok R2R reqs a') by (intros k e Hi; apply K; apply S1; exact Hi).
  assert (G' : dget (key_of R2R (req reqs t)) a' = Some t) by (apply in_nodup_dget; assumption).
  split; [exact G'|]. apply match_own; assumption.
Qed.

End Cleanup.
