(* C11 - release on disconnect, the transmit queue (repair 14a9701), under all schedules:
   an entry of a waiting caller whose event is not set is never left in txq once every thread is past its drain. *)
From Coq Require Import List Arith NArith Bool Lia.
Import ListNotations.
Require Import FV.Base.Util FV.C11.Model FV.C11.Lemmas.

Fixpoint memb_o (e : eid) (l : list (option eid)) : bool :=
  match l with
  | [] => false
  | Some x :: r => Nat.eqb e x || memb_o e r
  | None :: r => memb_o e r
  end.

Definition txl (s : state) : bool := match tx s with TStart | TGet | TPark _ | TSend _ => true | _ => false end.
Definition rxl (s : state) : bool := match rx s with RDisc _ => false | _ => true end.
Definition dT (s : state) : option dpc := match tx s with TDisc d => Some d | _ => None end.
Definition dR (s : state) : option dpc := match rx s with RDisc d => Some d | _ => None end.
Definition dU (s : state) : option dpc := match us s with UDisc d => Some d | _ => None end.
Definition ob (p : dpc -> bool) (o : option dpc) : bool := match o with Some d => p d | None => false end.
(* some thread is inside disconnect() at a program point satisfying p *)
Definition ex (p : dpc -> bool) (s : state) : bool := ob p (dT s) || ob p (dR s) || ob p (dU s).

(* before or inside the drain of txq *)
Definition qst (d : dpc) : bool := match d with DShutSet | DQDrop | DQSet _ => true | _ => false end.
(* past `if self.io: self.io.shutdown()` *)
Definition past_pd (d : dpc) : bool := match d with DShutSet | DQDrop | DQSet _ | DExc => false | _ => true end.

Definition txlive (s : state) : bool := txl s && negb (closed_local s).
(* somebody will still look at txq: the tx thread while it can transmit, the rx thread (its disconnect is still to
   come), or a thread that has not finished its drain *)
Definition Wq (s : state) : bool := txlive s || rxl s || ex qst s.

Definition wl (l : list cpc) (i : nat) : bool := match nth_error l i with Some CWait => true | _ => false end.
Definition waiting (s : state) (i : nat) : bool := wl (cs s) i.

Definition Mq (s : state) : Prop :=
  forall i, waiting s i = true -> memb i (evset s) = false -> memb_o i (txq s) = true -> Wq s = true.
Definition I0 (s : state) : Prop := running s = true -> rxl s = true.
Definition I3 (s : state) : Prop := io_set s = false -> closed_local s = true.
Definition CL (s : state) : Prop := ex past_pd s = true -> closed_local s = true.
Definition INVq (s : state) : Prop := Mq s /\ I0 s /\ I3 s /\ CL s.

Ltac brk := repeat match goal with
  | |- context[match ?x with _ => _ end] =>
      lazymatch x with
      | context[match _ with _ => _ end] => fail
      | _ => destruct x eqn:?; simpl
      end
  end.

Ltac unf := unfold cstep, caller_step, finish, tx_step, rx_step, user_step, tx_loop_top, tx_exit, rx_loop_top,
  rx_finally, do_cleanup, dstep, post_drain, after_tx, rel_begin, rel_loop_in, d_enabled, tx_fin, rx_fin, set_ev.

Lemma memb_o_app_some : forall i l e, memb_o i (l ++ [Some e]) = memb_o i l || Nat.eqb i e.
Proof. induction l as [|[x|] l IH]; simpl; intros; rewrite ?IH, ?orb_false_r, ?orb_assoc; auto. Qed.
Lemma memb_o_app_none : forall i l, memb_o i (l ++ [None]) = memb_o i l.
Proof. induction l as [|[x|] l IH]; simpl; intros; rewrite ?IH; auto. Qed.
Definition is_wait (c : cpc) : bool := match c with CWait => true | _ => false end.
Lemma wl_set_nth : forall l j c0 c i, nth_error l j = Some c0 ->
  wl (set_nth j c l) i = if Nat.eqb i j then is_wait c else wl l i.
Proof.
  unfold wl. induction l as [|x l IH]; intros j c0 c i H; destruct j; simpl in *; try discriminate.
  - destruct i; simpl; auto; destruct c; auto.
  - destruct i; simpl; auto. eapply IH; eauto.
Qed.

Section Rel.
Variable R2R : list (str * str).
Variable ERR : str.
Variable reqs : list (str * str).

Lemma step_I0 : forall s a, I0 s -> I0 (cstep R2R ERR reqs s a).
Proof.
  intros s [t a] H. unfold I0, rxl in *. unfold cstep; simpl. destruct t.
  - Time (unf; brk; auto).
  - Time (unf; brk; auto; try discriminate).
  - Time (unf; brk; auto; try discriminate).
  - Time (unf; brk; auto; try discriminate).
Qed.
Ltac rw := repeat match goal with
  | E : ?x = _, H : context[?x] |- _ =>
      lazymatch x with
      | tx _ => idtac | rx _ => idtac | us _ => idtac | txq _ => idtac | pending _ => idtac
      | io_set _ => idtac | closed_local _ => idtac | running _ => idtac | txset _ => idtac | rxset _ => idtac
      | nth_error _ _ => idtac
      end; rewrite E in H
  end.
Ltac fin := intros; simpl in *; unfold ex, dT, dR, dU, ob, txlive, txl, rxl in *; simpl in *; rw; simpl in *;
  rewrite ?orb_true_iff, ?andb_true_iff, ?negb_true_iff, ?orb_false_iff, ?andb_false_iff, ?negb_false_iff in *;
  try solve [intuition (try congruence; try discriminate)].

Lemma step_I3 : forall s a, I3 s -> I3 (cstep R2R ERR reqs s a).
Proof.
  intros s [t a] H. unfold I3 in *. unfold cstep; simpl. destruct t.
  - Time (unf; brk; fin).
  - Time (unf; brk; fin).
  - Time (unf; brk; fin).
  - Time (unf; brk; fin).
Qed.

Lemma step_CL : forall s a, I3 s -> CL s -> CL (cstep R2R ERR reqs s a).
Proof.
  intros s [t a] H3 H. unfold I3, CL in *. unfold cstep; simpl. destruct t.
  - Time (unf; brk; fin).
  - Time (unf; brk; fin).
  - Time (unf; brk; fin).
  - Time (unf; brk; fin).
Qed.
Ltac wsn := repeat match goal with
  | E : nth_error ?l ?j = Some _, H : context[wl (set_nth ?j ?c ?l) ?i] |- _ => rewrite (wl_set_nth l j _ c i E) in H
  end.
Ltac finM := intros; simpl in *; unfold waiting, Wq, ex, dT, dR, dU, ob, txlive, txl, rxl in *; simpl in *;
  rewrite ?memb_o_app_some, ?memb_o_app_none in *; wsn; rw; simpl in *;
  repeat match goal with
  | H : context[Nat.eqb ?a ?b] |- _ => destruct (Nat.eqb a b) eqn:?; simpl in H
  | |- context[Nat.eqb ?a ?b] => destruct (Nat.eqb a b) eqn:?; simpl
  end;
  rewrite ?orb_true_iff, ?andb_true_iff, ?negb_true_iff, ?orb_false_iff, ?andb_false_iff, ?negb_false_iff in *;
  try solve [intuition (try congruence; try discriminate)].

Lemma step_Mq : forall s a, INVq s -> Mq (cstep R2R ERR reqs s a).
Proof.
  intros s [t a] [M [H0 [H3 HC]]]. unfold Mq, I0, I3, CL in *. unfold cstep; simpl. destruct t.
  - Time (unf; brk; intros j Hw He Hm; specialize (M j); finM).
    all: admit.
  - Time (unf; brk; intros j Hw He Hm; specialize (M j); finM).
    all: admit.
  - Time (unf; brk; intros j Hw He Hm; specialize (M j); finM).
    all: admit.
  - Time (unf; brk; intros j Hw He Hm; specialize (M j); finM).
    all: admit.
Abort.
End Rel.
