(* C11 - release on disconnect under all schedules (positive after repairs 14a9701 and a58ac30). *)
From Coq Require Import List Arith NArith Bool Lia.
Import ListNotations.
Require Import FV.Base.Util FV.C11.Model FV.C11.Lemmas FV.C11.ReleaseBase
  FV.C11.ReleaseC FV.C11.ReleaseTx FV.C11.ReleaseRx FV.C11.ReleaseUs.

Lemma INV_step : forall R2R ERR reqs s x, INV s -> INV (cstep R2R ERR reqs s x).
Proof.
  intros R2R ERR reqs s [t a] H. pose proof H as [HT [H0 [H3 [HC [HK [HX H5]]]]]].
  split; [|repeat split].
  - destruct t; [apply step_T_c | apply step_T_tx | apply step_T_rx | apply step_T_us]; exact H.
  - apply step_I0; assumption.
  - apply step_I3; assumption.
  - apply step_CL; assumption.
  - apply step_K; assumption.
  - apply step_TXS; assumption.
  - apply step_I5; assumption.
Qed.

Lemma wl_init : forall (reqs : list (str * str)) i, wl (map (fun _ => CPut) reqs) i = false.
Proof.
  unfold wl. induction reqs as [|r l IH]; destruct i; simpl; auto.
Qed.

Theorem INV_run : forall R2R ERR reqs sched, INV (run R2R ERR reqs sched).
Proof.
  intros R2R ERR reqs sched. unfold run.
  assert (G : forall s, INV s -> INV (fold_left (cstep R2R ERR reqs) sched s)).
  { induction sched as [|x r IH]; simpl; intros s H; auto. apply IH. apply INV_step. exact H. }
  apply G. unfold INV, T, I0, I3, CL, K, TXS, I5, init, waiting; simpl. repeat split; auto; try discriminate.
  intros i H. rewrite wl_init in H. discriminate.
Qed.

(* nobody owes a release any more: the tx thread cannot transmit, the rx thread has left its loop, every
   disconnect() that was entered has completed *)
Definition quiescent (s : state) : Prop := Wp s = false.

Lemma ob_pst_false : forall i o, ob pst o = false ->
  ob qst o = false /\ ob ast o = false /\ ob jt o = false /\ ob (holdd i) o = false.
Proof. intros i o. destruct o as [[]|]; simpl; intro H; try discriminate; auto. Qed.

Lemma quiescent_no_owed : forall s i, K s -> quiescent s -> owedb s i = false.
Proof.
  intros s i HK Q. unfold quiescent, Wp in Q.
  apply orb_false_iff in Q. destruct Q as [Q Q3]. apply orb_false_iff in Q. destruct Q as [Q1 Q2].
  unfold ex in Q3. apply orb_false_iff in Q3. destruct Q3 as [Q3 QU]. apply orb_false_iff in Q3. destruct Q3 as [QT QR].
  destruct (ob_pst_false i _ QT) as [T1 [T2 [T3 T4]]].
  destruct (ob_pst_false i _ QR) as [R1 [R2 [R3 R4]]].
  destruct (ob_pst_false i _ QU) as [U1 [U2 [U3 U4]]].
  assert (EJ : ex jt s = false) by (unfold ex; rewrite T3, R3, U3; reflexivity).
  assert (TL : txl s = false).
  { destruct (txl s) eqn:X; auto. unfold txlive in Q1. rewrite X in Q1. simpl in Q1.
    apply negb_false_iff in Q1. unfold K in HK. rewrite (HK Q1 X) in EJ. discriminate. }
  unfold owedb, Wq, Wa, Wp, hold, ex. rewrite Q1, Q2, QT, QR, QU, T1, R1, U1, T2, R2, U2, T4, R4, U4. simpl.
  rewrite !andb_false_r. simpl.
  unfold txl in TL. unfold rxl in Q2.
  destruct (tx s); try discriminate; destruct (rx s); try discriminate; reflexivity.
Qed.

(* RELEASE ON DISCONNECT: for every set of requests and every schedule, once the shutdown is complete every
   caller that is still waiting has had its event set (its next step returns its reply or ConnectionError) *)
Theorem release_on_disconnect : forall R2R ERR reqs sched,
  let s := run R2R ERR reqs sched in
  quiescent s -> forall i, waiting s i = true -> memb i (evset s) = true.
Proof.
  intros R2R ERR reqs sched s Q i W.
  destruct (INV_run R2R ERR reqs sched) as [HT [_ [_ [_ [HK _]]]]]. fold s in HT, HK.
  destruct (memb i (evset s)) eqn:E; auto.
  specialize (HT i W E). rewrite quiescent_no_owed in HT by assumption. discriminate.
Qed.
