(* C11 - vacuity audit: every property theorem with premises is applied at a concrete reachable state of the model
   (several callers, tx / rx / user threads taking steps, the constants R2R / ERR of FV.Gen.C11 as in Run.v). *)
From Coq Require Import List Arith NArith Bool Lia.
Import ListNotations.
Require Import FV.Gen.C11 FV.C11.Model FV.C11.Lemmas FV.C11.ReleaseBase FV.C11.Release FV.C11.Cleanup FV.C11.Properties.

Definition rd : str * str := ([114; 101; 97; 100]%N, [109; 58; 112]%N).          (* read m:p *)
Definition ch : str * str := ([99; 104; 97; 110; 103; 101]%N, [109; 58; 113]%N). (* change m:q *)
Definition foo : str * str := ([102; 111; 111]%N, [120]%N).                      (* unknown action foo x *)

(* wf_req: known action (premise of wf_req false, holds trivially) and unknown action (both conjuncts proved) *)
Example C11_nonvacuous_wf_req_known : wf_req R2R ERR rd.
Proof. intro H. vm_compute in H. discriminate. Qed.
Example C11_nonvacuous_wf_req_unknown : r2r R2R (fst foo) = None /\ wf_req R2R ERR foo.
Proof.
  split; [reflexivity|]. intros _. split; [|reflexivity].
  intros a H. vm_compute in H. repeat (destruct H as [H|H]; [inversion H|]). exact H.
Qed.

(* three callers: two with the same key, one with an unknown action; tx registers caller 0 and caller 2, parks caller 1 *)
Definition reqs3 := [rd; rd; foo].
Definition sched3 : list (tid * arg) :=
  [(TC 0, ANone); (TC 2, ANone); (TC 1, ANone); (TTx, ANone); (TTx, ANone); (TTx, ANone); (TTx, ANone); (TTx, ANone);
   (TTx, ANone)].

Example C11_state3 :
  let s := run R2R ERR reqs3 sched3 in
  map snd (active s) = [0; 2] /\ tx s = TPark 1 /\ cs s = [CWait; CWait; CWait].
Proof. vm_compute. repeat split; reflexivity. Qed.

Example C11_answer_matched_applies_known : forall ok,
  fst (rx_match R2R ERR (active (run R2R ERR reqs3 sched3)) (answer R2R ERR (req reqs3 0) ok 0)) = Some 0.
Proof.
  intro ok. apply (C11_answer_matched_to_own_entry reqs3 sched3 0 ok).
  - exact C11_nonvacuous_wf_req_known.
  - vm_compute. reflexivity.
Qed.
Example C11_answer_matched_applies_unknown : forall ok,
  fst (rx_match R2R ERR (active (run R2R ERR reqs3 sched3)) (answer R2R ERR (req reqs3 2) ok 2)) = Some 2.
Proof.
  intro ok. apply (C11_answer_matched_to_own_entry reqs3 sched3 2 ok).
  - exact (proj2 C11_nonvacuous_wf_req_unknown).
  - vm_compute. reflexivity.
Qed.

Example C11_wait_bounded_applies :
  let s := run R2R ERR reqs3 sched3 in
  enabled s (TC 1) ATimeout = true /\
  exists o, nth_error (cs (cstep R2R ERR reqs3 s (TC 1, ATimeout))) 1 = Some (CDone o).
Proof. apply C11_wait_bounded. vm_compute. reflexivity. Qed.

(* waiting, event not set: the entry of the parked caller 1 is in the hand of the tx thread *)
Example C11_no_entry_lost_applies : owedb (run R2R ERR reqs3 sched3) 1 = true.
Proof. apply (C11_no_entry_lost reqs3 sched3 1); vm_compute; reflexivity. Qed.

(* the state of C11_release_demo: quiescent, both callers waiting *)
Definition reqs2 := [rd; ch].
Definition sched_rel : list (tid * arg) :=
  [(TC 0, ANone); (TTx, ANone); (TRx, ANone); (TUser, ANone); (TUser, ANone); (TUser, ANone); (TUser, ANone);
   (TUser, ANone); (TC 1, ANone); (TC 1, ANone); (TTx, ANone); (TTx, ANone); (TRx, ANone); (TRx, APeer PClose);
   (TRx, ANone); (TRx, ANone); (TRx, ANone); (TRx, ANone); (TRx, ANone); (TUser, ANone); (TUser, ANone);
   (TUser, ANone)].
Example C11_release_applies :
  memb 0 (evset (run R2R ERR reqs2 sched_rel)) = true /\ memb 1 (evset (run R2R ERR reqs2 sched_rel)) = true.
Proof.
  split; apply (C11_release_on_disconnect reqs2 sched_rel); try (vm_compute; reflexivity).
Qed.

(* drain: reachable state with an entry at the head of txq *)
Example C11_drained_applies :
  let s := run R2R ERR reqs2 [(TC 0, ANone); (TC 1, ANone); (TUser, ANone); (TUser, ANone)] in
  us s = UDisc DQDrop /\ txq s = [Some 0; Some 1] /\
  snd (dstep s DQDrop) = DQSet 0 /\
  memb 0 (evset (fst (dstep (fst (dstep s DQDrop)) (DQSet 0)))) = true.
Proof.
  intro s. split; [reflexivity|]. split; [reflexivity|].
  destruct (C11_drained_entry_released s 0 [Some 1] eq_refl) as [A [B _]]. split; assumption.
Qed.

(* late request: the user has begun disconnect(), caller 1 has not queued yet *)
Example C11_late_request_applies :
  let s := run R2R ERR reqs2 [(TC 0, ANone); (TUser, ANone)] in
  let s2 := cstep R2R ERR reqs2 (cstep R2R ERR reqs2 s (TC 1, ANone)) (TC 1, ANone) in
  memb 1 (evset s2) = true /\ nth_error (cs s2) 1 = Some CWait.
Proof. apply C11_late_request_released; vm_compute; reflexivity. Qed.

(* parked request: reachable state with rx at the top of its turn and a parked entry *)
Definition sched_park : list (tid * arg) := sched3 ++ [(TTx, ANone); (TRx, ANone)].
Example C11_parked_applies :
  let s := run R2R ERR reqs3 sched_park in
  rx s = RTopEmpty /\ pending s = [1] /\
  let s3 := rx_step R2R ERR reqs3 (rx_step R2R ERR reqs3 (rx_step R2R ERR reqs3 s ANone) ANone) ANone in
  rx s3 = RTopEmpty /\ pending s3 = [] /\ txq s3 = txq s ++ [Some 1].
Proof.
  intro s. split; [reflexivity|]. split; [reflexivity|].
  apply (proj2 (C11_parked_requeued_every_turn reqs3 s ANone) 1 []); reflexivity.
Qed.
(* first half: a state from which rx reaches readline *)
Example C11_parked_first_half_applies :
  let s := run R2R ERR reqs2 [(TC 0, ANone); (TRx, ANone)] in
  rx s <> RRecv /\ rx (rx_step R2R ERR reqs2 s ANone) = RRecv.
Proof. vm_compute. split; [discriminate|reflexivity]. Qed.

(* cleanup: fourth conjunct applied at the state of C11_cleanup_demo *)
Definition reqs_cl := [rd; rd].
Definition sched_cl : list (tid * arg) :=
  [(TC 0, ANone); (TTx, ANone); (TTx, ANone); (TTx, ANone); (TC 1, ANone); (TTx, ANone); (TTx, ANone);
   (TRx, ANone); (TRx, ANone); (TRx, ANone); (TRx, ANone); (TRx, ANone); (TTx, ANone); (TTx, ANone);
   (TC 0, ATimeout); (TRx, APeer (PReply 0 true)); (TRx, ANone); (TRx, ANone); (TRx, ANone); (TRx, ANone);
   (TTx, ANone)].
Example C11_cleanup_applies : forall ok,
  let s := run R2R ERR reqs_cl sched_cl in
  cleanup s = [0] /\
  dget (key_of R2R (req reqs_cl 1)) (active (do_cleanup s)) = Some 1 /\
  fst (rx_match R2R ERR (active (do_cleanup s)) (answer R2R ERR (req reqs_cl 1) ok 1)) = Some 1.
Proof.
  intros ok s. split; [reflexivity|].
  destruct (C11_cleanup_removes_only_own_entry reqs_cl sched_cl) as [_ [_ [_ H]]].
  apply (H 1 ok).
  - exact C11_nonvacuous_wf_req_known.
  - reflexivity.
  - reflexivity.
Qed.
