(* C11 - property theorems only; each is closed by a lemma of Lemmas.v / Release.v.  `sched` ranges over every
   interleaving of caller / tx / rx / user threads at their synchronisation points together with every behaviour
   of the environment (time-outs firing at any moment; the peer answering any outstanding request with a reply or
   an error reply, sending updates, staying idle, closing), `reqs` over every set of requests (any number of
   callers, equal or distinct keys, known or unknown actions). *)
From Coq Require Import List Arith NArith Bool Lia.
Import ListNotations.
Require Import FV.Gen.C11 FV.C11.Model FV.C11.Lemmas FV.C11.ReleaseBase FV.C11.Release FV.C11.Cleanup.

(* obligations on the facts regenerated from /repo (Gen/C11.v): the code has the modelled shape, and no reply
   action of REQUEST2REPLY starts with the error prefix *)
Theorem C11_source_facts :
  get_reply_shape = true /\ queue_request_shape = true /\ tx_shape = true /\ rx_match_shape = true /\
  rx_deliver_shape = true /\ rx_cleanup_shape = true /\ rx_finally_shape = true /\ disconnect_order = true /\
  txq_size = 30 /\ pending_size = 30 /\ reply_timeout = 10 /\ table_ok R2R ERR.
Proof.
  repeat split; try reflexivity.
  intros a r H.
  assert (F : forallb (fun p => negb (starts_with ERR (snd p))) R2R = true) by reflexivity.
  rewrite forallb_forall in F. apply F in H. simpl in H. apply negb_true_iff in H. exact H.
Qed.

(* the pending-request table never holds two entries per key, and every entry is registered under the key
   (reply action, identifier) of its own request: all schedules *)
Theorem C11_one_entry_per_key : forall reqs sched,
  let a := active (run R2R ERR reqs sched) in
  NoDup (map fst a) /\ forall k e, In (k, e) a -> k = key_of R2R (req reqs e).
Proof. intros reqs sched. destruct (table_inv_run R2R ERR reqs sched) as [K N]. split; [exact N | exact K]. Qed.

(* in every reachable state: if the request of caller t is registered, the reply or error reply to it is handed
   to caller t and to nobody else, whatever other requests are registered (known and unknown actions) *)
Theorem C11_answer_matched_to_own_entry : forall reqs sched t ok,
  wf_req R2R ERR (req reqs t) ->
  let a := active (run R2R ERR reqs sched) in
  dget (key_of R2R (req reqs t)) a = Some t ->
  fst (rx_match R2R ERR a (answer R2R ERR (req reqs t) ok t)) = Some t.
Proof.
  intros reqs sched t ok W a G. apply match_own; auto.
  - apply C11_source_facts.
  - apply (table_inv_run R2R ERR reqs sched).
Qed.

(* every entry is in at most one place (not yet queued, txq, pending, registered, in the hand of the tx or rx
   thread, answered): all schedules.  Hence no entry is transmitted or answered twice *)
Theorem C11_entries_linear : forall reqs sched x, P (run R2R ERR reqs sched) x <= 1.
Proof. intros; apply linear_run. Qed.

(* no caller is handed two replies *)
Theorem C11_answered_at_most_once : forall reqs sched x,
  cnt x (map fst (replies (run R2R ERR reqs sched))) <= 1.
Proof. intros reqs sched x. pose proof (linear_run R2R ERR reqs sched x) as H. unfold P in H. lia. Qed.

(* no caller waits longer than its time-out: in every state a waiting caller can leave by time-out, and that
   step makes request() return *)
Theorem C11_wait_bounded : forall reqs s i, nth_error (cs s) i = Some CWait ->
  enabled s (TC i) ATimeout = true /\
  exists o, nth_error (cs (cstep R2R ERR reqs s (TC i, ATimeout))) i = Some (CDone o).
Proof. intros; apply wait_bounded; assumption. Qed.

(* disconnect() never raises, whoever runs it and however many run it at once (user, tx thread, rx thread):
   all schedules.  (Was refuted before repair a58ac30: C11/txthread-join-race.) *)
Theorem C11_disconnect_never_raises : forall reqs sched,
  let s := run R2R ERR reqs sched in
  us s <> UDisc DExc /\ tx s <> TDisc DExc /\ rx s <> RDisc DExc.
Proof. intros reqs sched. destruct (never_raises R2R ERR reqs sched) as [A [B C]]. repeat split; assumption. Qed.

(* RELEASE ON DISCONNECT (was refuted before repair 14a9701: C11/txq-entry-lost-on-disconnect; now the full
   statement, no guard): for every set of requests and every schedule - connection lost by the peer, shut down by
   the user, or both at once, requests queued at any moment - once the shutdown is complete (the tx thread cannot
   transmit any more, the rx thread has left its loop, every disconnect() that was entered has returned) every
   caller that is still waiting has had its event set, i.e. its next step returns its reply or a ConnectionError.
   The invariant behind it (FV.C11.ReleaseBase.T, proved for every reachable state): a waiting caller whose event is
   not set always has its entry in txq / pending / active_requests with a thread that will still look there, or in
   the hand of a thread that sets the event next - no entry is ever dropped. *)
Theorem C11_release_on_disconnect : forall reqs sched,
  let s := run R2R ERR reqs sched in
  quiescent s -> forall i, waiting s i = true -> memb i (evset s) = true.
Proof. intros reqs sched. apply release_on_disconnect. Qed.

Theorem C11_no_entry_lost : forall reqs sched i,
  let s := run R2R ERR reqs sched in
  waiting s i = true -> memb i (evset s) = false -> owedb s i = true.
Proof. intros reqs sched i. destruct (INV_run R2R ERR reqs sched) as [HT _]. apply HT. Qed.

(* the two repaired paths step by step: in every state, an entry that the drain of disconnect() takes out of txq gets its event set by the same thread
   before the next entry is taken ... *)
Theorem C11_drained_entry_released : forall s e r, txq s = Some e :: r ->
  snd (dstep s DQDrop) = DQSet e /\
  memb e (evset (fst (dstep (fst (dstep s DQDrop)) (DQSet e)))) = true /\
  snd (dstep (fst (dstep s DQDrop)) (DQSet e)) = DQDrop.
Proof. intros; eapply drain_releases; eauto. Qed.

(* ... and a caller that queues its request after a disconnect() has begun releases itself *)
Theorem C11_late_request_released : forall reqs s i, running s = false -> nth_error (cs s) i = Some CPut ->
  let s2 := cstep R2R ERR reqs (cstep R2R ERR reqs s (TC i, ANone)) (TC i, ANone) in
  memb i (evset s2) = true /\ nth_error (cs s2) i = Some CWait.
Proof. intros; apply late_put_self_release; assumption. Qed.

(* own reply, the repaired window (was refuted before repair 2fda835: C11/parked-in-pending): in every state the rx
   thread reaches readline only from the re-queue loop at the top of its turn and only when `pending` is empty, and
   that loop moves every parked request back into txq *)
Theorem C11_parked_requeued_every_turn : forall reqs s a,
  (rx s <> RRecv -> rx (rx_step R2R ERR reqs s a) = RRecv -> rx s = RTopEmpty /\ pending s = []) /\
  (forall e r, rx s = RTopEmpty -> pending s = e :: r ->
     let s3 := rx_step R2R ERR reqs (rx_step R2R ERR reqs (rx_step R2R ERR reqs s a) a) a in
     rx s3 = RTopEmpty /\ pending s3 = r /\ txq s3 = txq s ++ [Some e]).
Proof.
  intros reqs s a. split.
  - apply recv_only_after_requeue.
  - intros e r H1 H2. apply requeue_moves_parked; assumption.
Qed.

(* TIME-OUT CLEANUP BY IDENTITY.  `do_cleanup` is the loop at the top of every turn of the rx thread
   (`while self.cleanup: entry = self.cleanup.pop(); for key, prev in self.active_requests.items(): if prev is entry:
   pop(key); break`; `rx_loop_top` runs it whenever the client is running, and nothing else touches the list).
   For every set of requests and every schedule (time-outs at any moment, late replies, keys reused):
   (1) the cleanup removes an entry from active_requests if and only if it IS the entry of a request on the cleanup
       list - an entry of another request stays, whatever its key;
   (2) only requests whose caller has returned are on the cleanup list;
   (3) so the entry of a caller t that has not returned - e.g. a later request that reuses the key of a timed-out
       one, which is still on the list - keeps its registration under its key, and the reply or error reply that
       arrives for it is matched to t. *)
Theorem C11_cleanup_removes_only_own_entry : forall reqs sched,
  let s := run R2R ERR reqs sched in
  let a' := active (do_cleanup s) in
  (running s = true -> active (rx_loop_top s) = a' /\ cleanup (rx_loop_top s) = []) /\
  (forall k e, In (k, e) (active s) -> (In (k, e) a' <-> ~ In e (cleanup s))) /\
  (forall e, In e (cleanup s) -> caller_done s e = true) /\
  (forall t ok, wf_req R2R ERR (req reqs t) -> caller_done s t = false ->
     dget (key_of R2R (req reqs t)) (active s) = Some t ->
     dget (key_of R2R (req reqs t)) a' = Some t /\
     fst (rx_match R2R ERR a' (answer R2R ERR (req reqs t) ok t)) = Some t).
Proof.
  intros reqs sched s a'. split; [|split; [|split]].
  - apply rx_loop_top_is_cleanup.
  - apply cleanup_by_identity.
  - apply cleanup_only_returned.
  - intros t ok W D G. apply cleanup_keeps_waiting_entry; auto. apply C11_source_facts.
Qed.

(* non-vacuity: two callers with the same key; the second is parked in the window of the former defect (tx has
   tested the key, rx delivers and finds `pending` empty, tx parks), is re-queued at the next turn of rx, and both
   get their own answer (reply / error reply) *)
Example C11_demo :
  let reqs := [([114; 101; 97; 100]%N, [109; 58; 112]%N); ([114; 101; 97; 100]%N, [109; 58; 112]%N)] in
  let s := run R2R ERR reqs
    [(TC 0, ANone); (TC 1, ANone); (TTx, ANone); (TTx, ANone); (TTx, ANone); (TTx, ANone);
     (TRx, ANone); (TRx, ANone); (TRx, APeer (PReply 0 true)); (TRx, ANone); (TRx, ANone); (TRx, ANone);
     (TTx, ANone); (TC 0, ANone);
     (TRx, APeer PUpdate); (TRx, ANone); (TRx, ANone); (TRx, ANone); (TRx, ANone);
     (TTx, ANone); (TTx, ANone); (TRx, APeer (PReply 1 false)); (TRx, ANone); (TRx, ANone); (TRx, ANone); (TC 1, ANone)] in
  map (fun c => match c with CDone (OReply m) => Some (true, m_tok m) | CDone (OError m) => Some (false, m_tok m) | _ => None end) (cs s)
  = [Some (true, 0); Some (false, 1)] /\ pending s = [] /\ active s = [].
Proof. vm_compute. repeat split; reflexivity. Qed.

(* non-vacuity of C11_release_on_disconnect: the schedule of corpus/C11/txq_entry_lost.json without the last step of
   the callers (user disconnect drains the request of caller 0; caller 1 queues afterwards): the shutdown is
   complete, both callers are still waiting, both events are set *)
Example C11_release_demo :
  let reqs := [([114; 101; 97; 100]%N, [109; 58; 112]%N); ([99; 104; 97; 110; 103; 101]%N, [109; 58; 113]%N)] in
  let s := run R2R ERR reqs
    [(TC 0, ANone); (TTx, ANone); (TRx, ANone); (TUser, ANone); (TUser, ANone); (TUser, ANone); (TUser, ANone);
     (TUser, ANone); (TC 1, ANone); (TC 1, ANone); (TTx, ANone); (TTx, ANone); (TRx, ANone); (TRx, APeer PClose);
     (TRx, ANone); (TRx, ANone); (TRx, ANone); (TRx, ANone); (TRx, ANone); (TUser, ANone); (TUser, ANone);
     (TUser, ANone)] in
  Wp s = false /\ cs s = [CWait; CWait] /\ memb 0 (evset s) = true /\ memb 1 (evset s) = true /\ us s = UDisc DFin.
Proof. vm_compute. repeat split; reflexivity. Qed.

(* non-vacuity of C11_cleanup_removes_only_own_entry: two callers with the same key; caller 0 is transmitted, caller 1
   parked; caller 0 times out (cleanup list = [0]); its late reply arrives before the rx thread has looked at the list,
   the rx thread re-queues caller 1 and the tx thread registers it under the same key before the rx thread reaches
   the cleanup loop.  In that state the keyed removal `active_requests.pop(key of the timed-out request)` would
   delete the entry of caller 1; the cleanup by identity keeps it, and caller 1 receives its own reply *)
Example C11_cleanup_demo :
  let reqs := [([114; 101; 97; 100]%N, [109; 58; 112]%N); ([114; 101; 97; 100]%N, [109; 58; 112]%N)] in
  let pre := [(TC 0, ANone); (TTx, ANone); (TTx, ANone); (TTx, ANone); (TC 1, ANone); (TTx, ANone); (TTx, ANone);
     (TRx, ANone); (TRx, ANone); (TRx, ANone); (TRx, ANone); (TRx, ANone); (TTx, ANone); (TTx, ANone);
     (TC 0, ATimeout); (TRx, APeer (PReply 0 true)); (TRx, ANone); (TRx, ANone); (TRx, ANone); (TRx, ANone);
     (TTx, ANone)] in
  let s := run R2R ERR reqs pre in
  let k := key_of R2R (req reqs 0) in
  cleanup s = [0] /\ active s = [(k, 1)] /\ key_of R2R (req reqs 1) = k /\ caller_done s 1 = false /\
  snd (dpop k (active s)) = [] /\ active (do_cleanup s) = [(k, 1)] /\
  let s2 := run R2R ERR reqs (pre ++ [(TRx, ANone); (TTx, ANone); (TRx, ANone); (TRx, APeer (PReply 1 true));
                                       (TRx, ANone); (TC 1, ANone)]) in
  map (fun c => match c with CDone (OReply m) => Some (m_tok m) | CDone OTimeout => Some 99 | _ => None end) (cs s2)
  = [Some 99; Some 1] /\ active s2 = [] /\ cleanup s2 = [].
Proof. vm_compute. repeat split; reflexivity. Qed.

Print Assumptions C11_source_facts.
Print Assumptions C11_one_entry_per_key.
Print Assumptions C11_answer_matched_to_own_entry.
Print Assumptions C11_entries_linear.
Print Assumptions C11_answered_at_most_once.
Print Assumptions C11_wait_bounded.
Print Assumptions C11_disconnect_never_raises.
Print Assumptions C11_release_on_disconnect.
Print Assumptions C11_no_entry_lost.
Print Assumptions C11_drained_entry_released.
Print Assumptions C11_late_request_released.
Print Assumptions C11_parked_requeued_every_turn.
Print Assumptions C11_cleanup_removes_only_own_entry.
