From Coq Require Import List Arith NArith Bool.
Import ListNotations.
Require Import FV.Gen.C11 FV.C11.Model.

Theorem C11_source_facts :
  get_reply_shape = true /\ queue_request_shape = true /\ tx_shape = true /\ rx_match_shape = true /\
  rx_deliver_shape = true /\ rx_cleanup_shape = true /\ rx_finally_shape = true /\ disconnect_order = true /\
  txq_size = 30 /\ pending_size = 30 /\ reply_timeout = 10.
Proof. repeat split; reflexivity. Qed.
Print Assumptions C11_source_facts.
