(* C11 - property theorems only; each is closed by a lemma of Lemmas.v / Refuted.v.  `sched` ranges over every
   interleaving of caller / tx / rx / user threads at their synchronisation points together with every behaviour
   of the environment (time-outs firing at any moment; the peer answering any outstanding request with a reply or
   an error reply, sending updates, staying idle, closing), `reqs` over every set of requests (any number of
   callers, equal or distinct keys, known or unknown actions). *)
From Coq Require Import List Arith NArith Bool Lia.
Import ListNotations.
Require Import FV.Gen.C11 FV.C11.Model FV.C11.Lemmas FV.C11.Refuted.

(* obligations on the facts regenerated from /repo (Gen/C11.v): the code has the modelled shape, and no reply
   action of REQUEST2REPLY starts with the error prefix *)
Theorem C11_source_facts :
  get_reply_shape = true /\ queue_request_shape = true /\ tx_shape = true /\ rx_match_shape = true /\
  rx_deliver_shape = true /\ rx_cleanup_shape = true /\ rx_finally_shape = true /\ disconnect_order = true /\
  txq_size = 30 /\ pending_size = 30 /\ reply_timeout = 10 /\ table_ok R2R ERR.
Proof.
  repeat split; try reflexivity.
  intros a r H.
  assert (F : forallb (fun p => negb (starts_with ERR (snd p))) R2R = true) by reflexivity.
  rewrite forallb_forall in F. apply F in H. simpl in H. apply negb_true_iff in H. exact H.
Qed.

(* the pending-request table never holds two entries per key, and every entry is registered under the key
   (reply action, identifier) of its own request: all schedules *)
Theorem C11_one_entry_per_key : forall reqs sched,
  let a := active (run R2R ERR reqs sched) in
  NoDup (map fst a) /\ forall k e, In (k, e) a -> k = key_of R2R (req reqs e).
Proof. intros reqs sched. destruct (table_inv_run R2R ERR reqs sched) as [K N]. split; [exact N | exact K]. Qed.

(* in every reachable state: if the request of caller t is registered, the reply or error reply to it is handed
   to caller t and to nobody else, whatever other requests are registered (known and unknown actions) *)
Theorem C11_answer_matched_to_own_entry : forall reqs sched t ok,
  wf_req R2R ERR (req reqs t) ->
  let a := active (run R2R ERR reqs sched) in
  dget (key_of R2R (req reqs t)) a = Some t ->
  fst (rx_match R2R ERR a (answer R2R ERR (req reqs t) ok t)) = Some t.
Proof.
  intros reqs sched t ok W a G. apply match_own; auto.
  - apply C11_source_facts.
  - apply (table_inv_run R2R ERR reqs sched).
Qed.

(* every entry is in at most one place (not yet queued, txq, pending, registered, in the hand of the tx or rx
   thread, answered): all schedules.  Hence no entry is transmitted or answered twice *)
Theorem C11_entries_linear : forall reqs sched x, P (run R2R ERR reqs sched) x <= 1.
Proof. intros; apply linear_run. Qed.

(* no caller is handed two replies *)
Theorem C11_answered_at_most_once : forall reqs sched x,
  cnt x (map fst (replies (run R2R ERR reqs sched))) <= 1.
Proof. intros reqs sched x. pose proof (linear_run R2R ERR reqs sched x) as H. unfold P in H. lia. Qed.

(* no caller waits longer than its time-out: in every state a waiting caller can leave by time-out, and that
   step makes request() return *)
Theorem C11_wait_bounded : forall reqs s i, nth_error (cs s) i = Some CWait ->
  enabled s (TC i) ATimeout = true /\
  exists o, nth_error (cs (cstep R2R ERR reqs s (TC i, ATimeout))) i = Some (CDone o).
Proof. intros; apply wait_bounded; assumption. Qed.

(* FULL STATEMENT (refuted, see below): disconnect() never raises.  Proved with the exact guard: a step of
   disconnect() raises only at the shutdown-marker step, and only if self._txthread was cleared after the test *)
Theorem C11_disconnect_raises_only_in_join_race : forall s d,
  snd (dstep s d) = DExc -> d = DExc \/ (d = DMark /\ txset s = false).
Proof. intros; apply dstep_raises; assumption. Qed.

(* refutations on the faithful model (witness schedules are real executions of the pinned code, corpus/C11) *)
Theorem C11_refuted_own_reply_parked : exists reqs sched,
  all_enabled reqs sched = true /\
  let s := run R2R ERR reqs sched in
  nth_error (cs s) 1 = Some (CDone OTimeout) /\ pending s = [1] /\ active s = [] /\ out s = [] /\
  running s = true /\ closed_local s = false /\ memb 0 (map fst (replies s)) = true.
Proof. exact C11_refuted_parked. Qed.

Theorem C11_refuted_release_txq_entry_lost : exists reqs sched,
  all_enabled reqs sched = true /\
  let s := run R2R ERR reqs sched in
  us s = UDisc DFin /\ cs s = [CDone OTimeout; CDone OTimeout] /\ evset s = [].
Proof. exact C11_refuted_txq_entry_lost. Qed.

Theorem C11_refuted_disconnect_raises : exists reqs sched,
  all_enabled reqs sched = true /\ us (run R2R ERR reqs sched) = UDisc DExc.
Proof. exact C11_refuted_txthread_join_race. Qed.

(* non-vacuity: two callers with the same key, both answered with their own reply, in order *)
Example C11_demo :
  let reqs := [([114; 101; 97; 100]%N, [109; 58; 112]%N); ([114; 101; 97; 100]%N, [109; 58; 112]%N)] in
  let s := run R2R ERR reqs
    [(TC 0, ANone); (TC 1, ANone); (TTx, ANone); (TTx, ANone); (TTx, ANone); (TTx, ANone); (TTx, ANone);
     (TRx, ANone); (TRx, APeer (PReply 0 true)); (TRx, ANone); (TRx, ANone); (TRx, ANone); (TRx, ANone); (TRx, ANone);
     (TTx, ANone); (TTx, ANone); (TRx, APeer (PReply 1 false)); (TRx, ANone); (TC 0, ANone); (TC 1, ANone)] in
  map (fun c => match c with CDone (OReply m) => Some (true, m_tok m) | CDone (OError m) => Some (false, m_tok m) | _ => None end) (cs s)
  = [Some (true, 0); Some (false, 1)].
Proof. vm_compute. reflexivity. Qed.

Print Assumptions C11_source_facts.
Print Assumptions C11_one_entry_per_key.
Print Assumptions C11_answer_matched_to_own_entry.
Print Assumptions C11_entries_linear.
Print Assumptions C11_answered_at_most_once.
Print Assumptions C11_wait_bounded.
Print Assumptions C11_disconnect_raises_only_in_join_race.
Print Assumptions C11_refuted_own_reply_parked.
Print Assumptions C11_refuted_release_txq_entry_lost.
Print Assumptions C11_refuted_disconnect_raises.
