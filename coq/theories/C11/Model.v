(* C11 - executable model of the request/reply machinery of frappy/client/__init__.py:
   SecopClient.queue_request / get_reply (callers), __txthread, __rxthread, disconnect, as a transition system
   whose atomic steps end exactly at the synchronisation points of the implementation (Queue put/get/empty,
   Event set/wait, Thread.join, connection send/recv).  No proofs in this file.
   The request->reply table R2R and the error prefix ERR are the constants of FV.Gen.C11 (regenerated from
   frappy/protocol/messages.py on every run); here they are section variables so that the theorems hold for
   every table with the stated side conditions. *)
From Coq Require Import List Arith NArith Bool.
Import ListNotations.
Require Import FV.Base.Util.

Definition str := list N.
Definition str_eqb : str -> str -> bool := list_eqb N.eqb.
Definition eid := nat.                       (* an entry [request, Event, reply] = the caller that made it *)
Definition key := option (str * str).        (* (reply action, identifier) or None for unknown actions *)

Definition key_eqb (a b : key) : bool :=
  match a, b with
  | None, None => true
  | Some (a1, a2), Some (b1, b2) => str_eqb a1 b1 && str_eqb a2 b2
  | _, _ => false
  end.

Record msg := { m_action : str; m_ident : str; m_tok : eid }.

(* what the peer does at one recv call *)
Inductive peer := PIdle | PUpdate | PClose | PReply (t : eid) (ok : bool).
Inductive arg := ANone | ATimeout | APeer (p : peer).
Inductive tid := TC (i : nat) | TTx | TRx | TUser.

Inductive outcome := OReply (m : msg) | OError (m : msg) | OTimeout | OConnErr.

Inductive cpc := CPut | CSetOwn | CWait | CDone (o : outcome).
(* program counter inside disconnect(); the label of the synchronisation point the thread is parked at *)
Inductive dpc := DShutSet | DQDrop | DQSet (e : eid) | DMark | DJoinT | DJoinR | DRelA (e : eid) | DPDrain
               | DRelP (e : eid) | DFin
               | DExc.   (* an exception left disconnect(); no step of the repaired code produces it *)
Inductive tpc := TStart | TGet | TPark (e : eid) | TSend (e : eid) | TDisc (d : dpc) | TDead.
Inductive rpc := RStart | RTopEmpty | RTopGet | RTopReq (e : eid) | RRecv | RSet (e : eid) | REmpty | RPGet | RReq (e : eid)
               | RDisc (d : dpc).
Inductive upc := UStart | UDisc (d : dpc).

Record state := {
  txq : list (option eid);
  pending : list eid;
  active : list (key * eid);
  cleanup : list eid;
  running : bool;
  io_set : bool;
  closed_local : bool;
  txset : bool;
  rxset : bool;
  evset : list eid;
  replies : list (eid * msg);
  out : list eid;            (* requests the peer has received and not answered yet (also of callers that timed out) *)
  cs : list cpc;
  tx : tpc;
  rx : rpc;
  us : upc;
}.

Definition set_txq (s : state) (v : list (option eid)) : state :=
  {| txq := v; pending := pending s; active := active s; cleanup := cleanup s; running := running s; io_set := io_set s; closed_local := closed_local s; txset := txset s; rxset := rxset s; evset := evset s; replies := replies s; out := out s; cs := cs s; tx := tx s; rx := rx s; us := us s |}.
Definition set_pending (s : state) (v : list eid) : state :=
  {| txq := txq s; pending := v; active := active s; cleanup := cleanup s; running := running s; io_set := io_set s; closed_local := closed_local s; txset := txset s; rxset := rxset s; evset := evset s; replies := replies s; out := out s; cs := cs s; tx := tx s; rx := rx s; us := us s |}.
Definition set_active (s : state) (v : list (key * eid)) : state :=
  {| txq := txq s; pending := pending s; active := v; cleanup := cleanup s; running := running s; io_set := io_set s; closed_local := closed_local s; txset := txset s; rxset := rxset s; evset := evset s; replies := replies s; out := out s; cs := cs s; tx := tx s; rx := rx s; us := us s |}.
Definition set_cleanup (s : state) (v : list eid) : state :=
  {| txq := txq s; pending := pending s; active := active s; cleanup := v; running := running s; io_set := io_set s; closed_local := closed_local s; txset := txset s; rxset := rxset s; evset := evset s; replies := replies s; out := out s; cs := cs s; tx := tx s; rx := rx s; us := us s |}.
Definition set_running (s : state) (v : bool) : state :=
  {| txq := txq s; pending := pending s; active := active s; cleanup := cleanup s; running := v; io_set := io_set s; closed_local := closed_local s; txset := txset s; rxset := rxset s; evset := evset s; replies := replies s; out := out s; cs := cs s; tx := tx s; rx := rx s; us := us s |}.
Definition set_io_set (s : state) (v : bool) : state :=
  {| txq := txq s; pending := pending s; active := active s; cleanup := cleanup s; running := running s; io_set := v; closed_local := closed_local s; txset := txset s; rxset := rxset s; evset := evset s; replies := replies s; out := out s; cs := cs s; tx := tx s; rx := rx s; us := us s |}.
Definition set_closed_local (s : state) (v : bool) : state :=
  {| txq := txq s; pending := pending s; active := active s; cleanup := cleanup s; running := running s; io_set := io_set s; closed_local := v; txset := txset s; rxset := rxset s; evset := evset s; replies := replies s; out := out s; cs := cs s; tx := tx s; rx := rx s; us := us s |}.
Definition set_txset (s : state) (v : bool) : state :=
  {| txq := txq s; pending := pending s; active := active s; cleanup := cleanup s; running := running s; io_set := io_set s; closed_local := closed_local s; txset := v; rxset := rxset s; evset := evset s; replies := replies s; out := out s; cs := cs s; tx := tx s; rx := rx s; us := us s |}.
Definition set_rxset (s : state) (v : bool) : state :=
  {| txq := txq s; pending := pending s; active := active s; cleanup := cleanup s; running := running s; io_set := io_set s; closed_local := closed_local s; txset := txset s; rxset := v; evset := evset s; replies := replies s; out := out s; cs := cs s; tx := tx s; rx := rx s; us := us s |}.
Definition set_evset (s : state) (v : list eid) : state :=
  {| txq := txq s; pending := pending s; active := active s; cleanup := cleanup s; running := running s; io_set := io_set s; closed_local := closed_local s; txset := txset s; rxset := rxset s; evset := v; replies := replies s; out := out s; cs := cs s; tx := tx s; rx := rx s; us := us s |}.
Definition set_replies (s : state) (v : list (eid * msg)) : state :=
  {| txq := txq s; pending := pending s; active := active s; cleanup := cleanup s; running := running s; io_set := io_set s; closed_local := closed_local s; txset := txset s; rxset := rxset s; evset := evset s; replies := v; out := out s; cs := cs s; tx := tx s; rx := rx s; us := us s |}.
Definition set_out (s : state) (v : list eid) : state :=
  {| txq := txq s; pending := pending s; active := active s; cleanup := cleanup s; running := running s; io_set := io_set s; closed_local := closed_local s; txset := txset s; rxset := rxset s; evset := evset s; replies := replies s; out := v; cs := cs s; tx := tx s; rx := rx s; us := us s |}.
Definition set_cs (s : state) (v : list cpc) : state :=
  {| txq := txq s; pending := pending s; active := active s; cleanup := cleanup s; running := running s; io_set := io_set s; closed_local := closed_local s; txset := txset s; rxset := rxset s; evset := evset s; replies := replies s; out := out s; cs := v; tx := tx s; rx := rx s; us := us s |}.
Definition set_tx (s : state) (v : tpc) : state :=
  {| txq := txq s; pending := pending s; active := active s; cleanup := cleanup s; running := running s; io_set := io_set s; closed_local := closed_local s; txset := txset s; rxset := rxset s; evset := evset s; replies := replies s; out := out s; cs := cs s; tx := v; rx := rx s; us := us s |}.
Definition set_rx (s : state) (v : rpc) : state :=
  {| txq := txq s; pending := pending s; active := active s; cleanup := cleanup s; running := running s; io_set := io_set s; closed_local := closed_local s; txset := txset s; rxset := rxset s; evset := evset s; replies := replies s; out := out s; cs := cs s; tx := tx s; rx := v; us := us s |}.
Definition set_us (s : state) (v : upc) : state :=
  {| txq := txq s; pending := pending s; active := active s; cleanup := cleanup s; running := running s; io_set := io_set s; closed_local := closed_local s; txset := txset s; rxset := rxset s; evset := evset s; replies := replies s; out := out s; cs := cs s; tx := tx s; rx := rx s; us := v |}.

(* ---- dictionaries as association lists in insertion order (python dict) *)
Fixpoint dmem (k : key) (l : list (key * eid)) : bool :=
  match l with [] => false | (k', _) :: r => if key_eqb k k' then true else dmem k r end.
Fixpoint dget (k : key) (l : list (key * eid)) : option eid :=
  match l with [] => None | (k', e) :: r => if key_eqb k k' then Some e else dget k r end.
(* dict.pop(k): the entry and the remaining dictionary *)
Fixpoint dpop (k : key) (l : list (key * eid)) : option eid * list (key * eid) :=
  match l with
  | [] => (None, [])
  | (k', e) :: r => if key_eqb k k' then (Some e, r)
                    else let '(x, r') := dpop k r in (x, (k', e) :: r')
  end.
(* the cleanup loop: remove the first item whose value is this entry *)
Fixpoint dremove_val (e : eid) (l : list (key * eid)) : list (key * eid) :=
  match l with
  | [] => []
  | (k', e') :: r => if Nat.eqb e e' then r else (k', e') :: dremove_val e r
  end.
(* dict.popitem(): last inserted *)
Fixpoint popitem (l : list (key * eid)) : option (eid * list (key * eid)) :=
  match l with
  | [] => None
  | (k, e) :: r => match popitem r with
                   | None => Some (e, [])
                   | Some (x, r') => Some (x, (k, e) :: r')
                   end
  end.

Fixpoint memb (e : eid) (l : list eid) : bool :=
  match l with [] => false | x :: r => if Nat.eqb e x then true else memb e r end.
Fixpoint remove_id (e : eid) (l : list eid) : list eid :=
  match l with [] => [] | x :: r => if Nat.eqb e x then remove_id e r else x :: remove_id e r end.
Fixpoint rassoc (e : eid) (l : list (eid * msg)) : option msg :=
  match l with [] => None | (x, m) :: r => if Nat.eqb e x then Some m else rassoc e r end.

Fixpoint starts_with (p s : str) : bool :=
  match p, s with
  | [], _ => true
  | a :: p', b :: s' => N.eqb a b && starts_with p' s'
  | _ :: _, [] => false
  end.

Fixpoint set_nth {A} (n : nat) (v : A) (l : list A) : list A :=
  match l, n with
  | [], _ => []
  | _ :: r, O => v :: r
  | x :: r, S n' => x :: set_nth n' v r
  end.

Definition cdone_b (c : cpc) : bool := match c with CDone _ => true | _ => false end.

Section Model.
Variable R2R : list (str * str).      (* REQUEST2REPLY *)
Variable ERR : str.                   (* ERRORPREFIX *)
Variable reqs : list (str * str).     (* (action, identifier) of the request of each caller *)

Definition SUFFIX : str := [95%N; 114%N].      (* the peer answers an unknown action a with a ++ "_r" *)

Fixpoint r2r_in (a : str) (l : list (str * str)) : option str :=
  match l with [] => None | (x, y) :: r => if str_eqb a x then Some y else r2r_in a r end.
Definition r2r (a : str) : option str := r2r_in a R2R.

Definition req (e : eid) : str * str := nth e reqs ([], []).

(* __txthread: reply_action = REQUEST2REPLY.get(request[0]); key = (reply_action, ident) or None *)
Definition key_of (rq : str * str) : key :=
  match r2r (fst rq) with Some r => Some (r, snd rq) | None => None end.

(* the peer's answer to a request; the token identifies the request that is answered *)
Definition answer (rq : str * str) (ok : bool) (t : eid) : msg :=
  {| m_action := if ok then match r2r (fst rq) with Some r => r | None => fst rq ++ SUFFIX end
                 else ERR ++ fst rq;
     m_ident := snd rq; m_tok := t |}.

(* __rxthread lines 487-500: which entry a received message is matched to *)
Definition rx_match (a : list (key * eid)) (m : msg) : option eid * list (key * eid) :=
  match dpop (Some (m_action m, m_ident m)) a with
  | (Some e, a') => (Some e, a')
  | (None, _) =>
      let k := if starts_with ERR (m_action m)
               then match r2r (skipn (length ERR) (m_action m)) with
                    | Some r => Some (r, m_ident m) | None => None end
               else None in
      dpop k a
  end.

Definition caller_done (s : state) (e : eid) : bool := cdone_b (nth e (cs s) CPut).
Definition set_ev (s : state) (e : eid) : state := set_evset s (e :: evset s).

Definition tx_fin (s : state) : bool :=
  match tx s with TDead | TDisc DFin | TDisc DExc => true | _ => false end.
Definition rx_fin (s : state) : bool :=
  match rx s with RDisc DFin | RDisc DExc => true | _ => false end.

(* ---------------------------------------------------------------- disconnect(), run by user, tx or rx *)
Definition rel_loop_in (s : state) : state * dpc :=
  (* while self.active_requests: popitem -> event.set() *)
  match popitem (active s) with
  | None => (s, DPDrain)
  | Some (e, a') => (set_active s a', DRelA e)
  end.
Definition rel_begin (s : state) : state * dpc :=
  (* if self.io: self.io.disconnect();  self.io = None *)
  let s1 := if io_set s then set_closed_local s true else s in
  rel_loop_in (set_io_set s1 false).
Definition after_tx (s : state) : state * dpc :=
  if rxset s then (s, DJoinR) else rel_begin s.
Definition post_drain (s : state) : state * dpc :=
  (* if self.io: self.io.shutdown();  txthread = self._txthread; if txthread: self.txq.put(None) ... *)
  let s1 := if io_set s then set_closed_local s true else s in
  if txset s1 then (s1, DMark) else after_tx s1.

Definition d_enabled (s : state) (d : dpc) : bool :=
  match d with DJoinT => tx_fin s | DJoinR => rx_fin s | DFin | DExc => false | _ => true end.

Definition dstep (s : state) (d : dpc) : state * dpc :=
  match d with
  | DShutSet => (s, DQDrop)                           (* self._shutdown.set(); _set_state; time *)
  | DQDrop => match txq s with                        (* while True: entry = self.txq.get(False) *)
              | [] => post_drain s                    (* queue.Empty ends the loop *)
              | None :: r => (set_txq s r, DQDrop)
              | Some e :: r => (set_txq s r, DQSet e) (* if entry is not None: entry[1].set() *)
              end
  | DQSet e => (set_ev s e, DQDrop)
  | DMark => (set_txq s (txq s ++ [None]), DJoinT)    (* the handle was read into a local before the put *)
  | DJoinT => if tx_fin s then after_tx (set_txset s false) else (s, d)
  | DJoinR => if rx_fin s then rel_begin (set_rxset s false) else (s, d)
  | DRelA e => rel_loop_in (set_ev s e)
  | DPDrain => match pending s with
               | [] => (s, DFin)
               | e :: r => (set_pending s r, DRelP e)
               end
  | DRelP e => (set_ev s e, DPDrain)
  | DFin | DExc => (s, d)
  end.

(* ---------------------------------------------------------------- tx thread *)
Definition tx_exit (s : state) : state :=
  (* self._txthread = None; self.disconnect(False): self._running = False ... parks at txq.empty() *)
  set_tx (set_running (set_txset s false) false) (TDisc DQDrop).
Definition tx_loop_top (s : state) : state :=
  if running s then set_tx s TGet else tx_exit s.

Definition tx_step (s : state) : state :=
  match tx s with
  | TStart => tx_loop_top s
  | TGet =>
      match txq s with
      | [] => s
      | None :: r => tx_exit (set_txq s r)
      | Some e :: r =>
          let s1 := set_txq s r in
          let k := key_of (req e) in
          if dmem k (active s1) then set_tx s1 (TPark e)
          else let s2 := set_active s1 (active s1 ++ [(k, e)]) in
               if io_set s2 then set_tx s2 (TSend e) else set_tx s2 TDead
      end
  | TPark e => tx_loop_top (set_pending s (pending s ++ [e]))
  | TSend e =>
      if closed_local s then set_tx s TDead
      else tx_loop_top (set_out s (out s ++ [e]))     (* the peer has the request now *)
  | TDisc d => if d_enabled s d then let '(s1, d1) := dstep s d in set_tx s1 (TDisc d1) else s
  | TDead => s
  end.

(* ---------------------------------------------------------------- rx thread *)
Definition rx_finally (s : state) (sd : bool) : state :=
  (* self._rxthread = None; self.disconnect(shutdown) *)
  set_rx (set_running (set_rxset s false) false) (RDisc (if sd then DShutSet else DQDrop)).

Definition do_cleanup (s : state) : state :=
  set_cleanup (set_active s (fold_left (fun a e => dremove_val e a) (rev (cleanup s)) (active s))) [].

(* top of the loop: `while self._running:` cleanup handling, then the parked requests are re-queued
   (`while not self.pending.empty(): self.txq.put(self.pending.get())`), then self.io.readline() *)
Definition rx_loop_top (s : state) : state :=
  if running s then set_rx (do_cleanup s) RTopEmpty else rx_finally s false.

Definition rx_step (s : state) (a : arg) : state :=
  match rx s with
  | RStart => rx_loop_top s
  | RTopEmpty => match pending s with
                 | [] => if io_set s then set_rx s RRecv else rx_finally s true
                 | _ => set_rx s RTopGet
                 end
  | RTopGet => match pending s with [] => s | e :: r => set_rx (set_pending s r) (RTopReq e) end
  | RTopReq e => set_rx (set_txq s (txq s ++ [Some e])) RTopEmpty
  | RRecv =>
      if closed_local s then rx_finally s false
      else match a with
           | APeer PClose => rx_finally s false
           | APeer (PReply t ok) =>
               if memb t (out s) then
                 let m := answer (req t) ok t in
                 let s1 := set_out s (remove_id t (out s)) in
                 match rx_match (active s1) m with
                 | (Some e, a') => set_rx (set_replies (set_active s1 a') ((e, m) :: replies s1)) (RSet e)
                 | (None, _) => rx_loop_top s1
                 end
               else rx_loop_top s
           | _ => rx_loop_top s
           end
  | RSet e => set_rx (set_ev s e) REmpty
  | REmpty => match pending s with [] => rx_loop_top s | _ => set_rx s RPGet end
  | RPGet => match pending s with [] => s | e :: r => set_rx (set_pending s r) (RReq e) end
  | RReq e => set_rx (set_txq s (txq s ++ [Some e])) REmpty
  | RDisc d => if d_enabled s d then let '(s1, d1) := dstep s d in set_rx s1 (RDisc d1) else s
  end.

(* ---------------------------------------------------------------- user thread: client.disconnect() *)
Definition user_step (s : state) : state :=
  match us s with
  | UStart => set_us (set_running s false) (UDisc DShutSet)
  | UDisc d => if d_enabled s d then let '(s1, d1) := dstep s d in set_us s1 (UDisc d1) else s
  end.

(* ---------------------------------------------------------------- callers: request() after connect() *)
(* request() returns.  The request stays outstanding at the peer (`out`): a reply that arrives after the caller
   timed out (late reply) is received and matched by the rx thread like any other reply *)
Definition finish (s : state) (i : nat) (o : outcome) : state :=
  set_cs s (set_nth i (CDone o) (cs s)).

Definition caller_step (s : state) (i : nat) (a : arg) : state :=
  match nth_error (cs s) i with
  | Some CPut =>      (* self.txq.put(entry); if not self._running: entry[1].set() *)
      set_cs (set_txq s (txq s ++ [Some i])) (set_nth i (if running s then CWait else CSetOwn) (cs s))
  | Some CSetOwn => set_cs (set_ev s i) (set_nth i CWait (cs s))
  | Some CWait =>
      if memb i (evset s) then
        match rassoc i (replies s) with
        | None => finish s i OConnErr
        | Some m => finish s i (if starts_with ERR (m_action m) then OError m else OReply m)
        end
      else match a with
           | ATimeout => finish (set_cleanup s (cleanup s ++ [i])) i OTimeout
           | _ => s
           end
  | _ => s
  end.

Definition cstep (s : state) (x : tid * arg) : state :=
  match fst x with
  | TC i => caller_step s i (snd x)
  | TTx => tx_step s
  | TRx => rx_step s (snd x)
  | TUser => user_step s
  end.

Definition init : state :=
  {| txq := []; pending := []; active := []; cleanup := []; running := true; io_set := true;
     closed_local := false; txset := true; rxset := true; evset := []; replies := []; out := [];
     cs := map (fun _ => CPut) reqs; tx := TStart; rx := RStart; us := UStart |}.

Definition run (sched : list (tid * arg)) : state := fold_left cstep sched init.

End Model.

(* ---------------------------------------------------------------- labels of the synchronisation points and
   enabledness; a step of a thread that is not enabled leaves the state unchanged *)
Inductive label := LStart | LPutTxq | LGetTxq | LEmptyTxq | LPutPending | LGetPending | LEmptyPending
  | LSetShutdown | LSetEv (e : eid) | LWaitEv (e : eid) | LJoinTx | LJoinRx | LSend | LRecv | LNone.

Definition d_label (d : dpc) : label :=
  match d with
  | DShutSet => LSetShutdown | DQDrop => LGetTxq | DQSet e => LSetEv e | DMark => LPutTxq
  | DJoinT => LJoinTx | DJoinR => LJoinRx | DRelA e => LSetEv e | DPDrain => LGetPending
  | DRelP e => LSetEv e | DFin | DExc => LNone
  end.

Definition label_of (s : state) (t : tid) : label :=
  match t with
  | TC i => match nth_error (cs s) i with
            | Some CPut => LPutTxq | Some CSetOwn => LSetEv i | Some CWait => LWaitEv i | _ => LNone end
  | TTx => match tx s with
           | TStart => LStart | TGet => LGetTxq | TPark _ => LPutPending | TSend _ => LSend
           | TDisc d => d_label d | TDead => LNone end
  | TRx => match rx s with
           | RStart => LStart | RRecv => LRecv | RSet e => LSetEv e | REmpty | RTopEmpty => LEmptyPending
           | RPGet | RTopGet => LGetPending | RReq _ | RTopReq _ => LPutTxq | RDisc d => d_label d end
  | TUser => match us s with UStart => LStart | UDisc d => d_label d end
  end.

Definition enabled (s : state) (t : tid) (a : arg) : bool :=
  match t with
  | TC i => match nth_error (cs s) i with
            | Some CPut | Some CSetOwn => true
            | Some CWait => memb i (evset s) || match a with ATimeout => true | _ => false end
            | _ => false end
  | TTx => match tx s with
           | TGet => match txq s with [] => false | _ => true end
           | TDisc d => d_enabled s d | TDead => false | _ => true end
  | TRx => match rx s with
           | RPGet | RTopGet => match pending s with [] => false | _ => true end
           | RDisc d => d_enabled s d | _ => true end
  | TUser => match us s with UStart => true | UDisc d => d_enabled s d end
  end.
