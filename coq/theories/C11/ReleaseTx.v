(* C11 - release on disconnect, the tracking invariant T is preserved by every step of the tx thread *)
From Coq Require Import List Arith NArith Bool Lia.
Import ListNotations.
Require Import FV.Base.Util FV.C11.Model FV.C11.Lemmas FV.C11.ReleaseBase.

Lemma step_T_tx : forall R2R ERR reqs s a, INV s -> T (cstep R2R ERR reqs s (TTx, a)).
Proof.
  intros R2R ERR reqs s a [HT [H0 [H3 [HC [HK [HX H5]]]]]]. unfold T, I0, I3, CL, K, TXS in *. unfold cstep; simpl.
  pose proof (ob_facts (dT s)) as [FT1 [FT2 FT3]]. pose proof (ob_facts (dR s)) as [FR1 [FR2 FR3]].
  pose proof (ob_facts (dU s)) as [FU1 [FU2 FU3]].
  unf; brk; intros j Hw He; specialize (HT j); finM.
Qed.
