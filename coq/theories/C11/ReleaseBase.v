(* C11 - release on disconnect under all schedules, part 1: definitions, list lemmas, tactics, flag invariants.
   C11 - release on disconnect under all schedules (positive after repairs 14a9701 and a58ac30):
   a waiting caller whose event is not set is always *owed* a release: its entry is in txq / pending / active_requests
   and some thread is still going to look there, or it is in the hand of a thread that sets the event next.
   Once nobody owes anything any more (tx cannot transmit, rx has left its loop, every disconnect() that was entered
   has completed) every waiting caller has its event set. *)
From Coq Require Import List Arith NArith Bool Lia.
Import ListNotations.
Require Import FV.Base.Util FV.C11.Model FV.C11.Lemmas.

Fixpoint memb_o (e : eid) (l : list (option eid)) : bool :=
  match l with
  | [] => false
  | Some x :: r => Nat.eqb e x || memb_o e r
  | None :: r => memb_o e r
  end.

Definition txl (s : state) : bool := match tx s with TStart | TGet | TPark _ | TSend _ => true | _ => false end.
Definition rxl (s : state) : bool := match rx s with RDisc _ => false | _ => true end.
Definition dT (s : state) : option dpc := match tx s with TDisc d => Some d | _ => None end.
Definition dR (s : state) : option dpc := match rx s with RDisc d => Some d | _ => None end.
Definition dU (s : state) : option dpc := match us s with UDisc d => Some d | _ => None end.
Definition ob (p : dpc -> bool) (o : option dpc) : bool := match o with Some d => p d | None => false end.
(* some thread is inside disconnect() at a program point satisfying p *)
Definition ex (p : dpc -> bool) (s : state) : bool := ob p (dT s) || ob p (dR s) || ob p (dU s).

(* before or inside the drain of txq *)
Definition qst (d : dpc) : bool := match d with DShutSet | DQDrop | DQSet _ => true | _ => false end.
(* past `if self.io: self.io.shutdown()` *)
Definition past_pd (d : dpc) : bool := match d with DShutSet | DQDrop | DQSet _ | DExc => false | _ => true end.

Definition txlive (s : state) : bool := txl s && negb (closed_local s).
(* somebody will still look at txq: the tx thread while it can transmit, the rx thread (its disconnect is still to
   come), or a thread that has not finished its drain *)
Definition Wq (s : state) : bool := txlive s || rxl s || ex qst s.

Definition wl (l : list cpc) (i : nat) : bool := match nth_error l i with Some CWait => true | _ => false end.
Definition waiting (s : state) (i : nat) : bool := wl (cs s) i.

(* inside disconnect(), before the release of active_requests is complete / before the release of pending is complete *)
Definition ast (d : dpc) : bool := match d with DShutSet | DQDrop | DQSet _ | DMark | DJoinT | DJoinR | DRelA _ => true | _ => false end.
Definition pst (d : dpc) : bool := match d with DFin | DExc => false | _ => true end.
Definition jt (d : dpc) : bool := match d with DMark | DJoinT => true | _ => false end.
Definition holdd (i : nat) (d : dpc) : bool := match d with DQSet e | DRelA e | DRelP e => Nat.eqb i e | _ => false end.
Definition Wa (s : state) : bool := txlive s || rxl s || ex ast s.
Definition Wp (s : state) : bool := txlive s || rxl s || ex pst s.
(* the entry is in the hand of a thread: tx about to park it, rx about to re-queue it or to set its event,
   a disconnect() about to set its event *)
Definition hold (s : state) (i : nat) : bool :=
  match tx s with TPark e => Nat.eqb i e | _ => false end
  || match rx s with RReq e | RTopReq e | RSet e => Nat.eqb i e | _ => false end
  || ex (holdd i) s.
Definition owedb (s : state) (i : nat) : bool :=
  memb_o i (txq s) && Wq s || memb i (pending s) && Wp s || memb i (vals (active s)) && Wa s || hold s i.

Definition dn (l : list cpc) (i : nat) : bool := match nth_error l i with Some (CDone _) => true | _ => false end.

Definition T (s : state) : Prop :=
  forall i, waiting s i = true -> memb i (evset s) = false -> owedb s i = true.
Definition I0 (s : state) : Prop := running s = true -> rxl s = true.
Definition I3 (s : state) : Prop := io_set s = false -> closed_local s = true.
Definition CL (s : state) : Prop := ex past_pd s = true -> closed_local s = true.
Definition K (s : state) : Prop := closed_local s = true -> txl s = true -> ex jt s = true.
Definition TXS (s : state) : Prop := txl s = true -> txset s = true.
Definition I5 (s : state) : Prop := forall e, memb e (cleanup s) = true -> dn (cs s) e = true.
Definition INV (s : state) : Prop := T s /\ I0 s /\ I3 s /\ CL s /\ K s /\ TXS s /\ I5 s.

Ltac brk := repeat match goal with
  | |- context[match ?x with _ => _ end] =>
      lazymatch x with
      | context[match _ with _ => _ end] => fail
      | _ => destruct x eqn:?; simpl
      end
  end.

Ltac unf := unfold cstep, caller_step, finish, tx_step, rx_step, user_step, tx_loop_top, tx_exit, rx_loop_top,
  rx_finally, do_cleanup, dstep, post_drain, after_tx, rel_begin, rel_loop_in, d_enabled, tx_fin, rx_fin, set_ev.

Lemma memb_o_app_some : forall i l e, memb_o i (l ++ [Some e]) = memb_o i l || Nat.eqb i e.
Proof. induction l as [|[x|] l IH]; simpl; intros; rewrite ?IH, ?orb_false_r, ?orb_assoc; auto. Qed.
Lemma memb_o_app_none : forall i l, memb_o i (l ++ [None]) = memb_o i l.
Proof. induction l as [|[x|] l IH]; simpl; intros; rewrite ?IH; auto. Qed.
Definition is_wait (c : cpc) : bool := match c with CWait => true | _ => false end.
Lemma wl_set_nth : forall l j c0 c i, nth_error l j = Some c0 ->
  wl (set_nth j c l) i = if Nat.eqb i j then is_wait c else wl l i.
Proof.
  unfold wl. induction l as [|x l IH]; intros j c0 c i H; destruct j; simpl in *; try discriminate.
  - destruct i; simpl; auto; destruct c; auto.
  - destruct i; simpl; auto. eapply IH; eauto.
Qed.

Lemma dn_set_nth : forall l j c0 c i, nth_error l j = Some c0 ->
  dn (set_nth j c l) i = if Nat.eqb i j then cdone_b c else dn l i.
Proof.
  unfold dn. induction l as [|x l IH]; intros j c0 c i H; destruct j; simpl in *; try discriminate.
  - destruct i; simpl; auto; destruct c; auto.
  - destruct i; simpl; auto. eapply IH; eauto.
Qed.
Lemma dn_wl : forall l i, dn l i = true -> wl l i = false.
Proof. unfold dn, wl. intros l i. destruct (nth_error l i) as [[]|]; auto; discriminate. Qed.
Lemma memb_app_one : forall i l e, memb i (l ++ [e]) = memb i l || Nat.eqb i e.
Proof. induction l; simpl; intros; [destruct (Nat.eqb i e); auto|]. destruct (Nat.eqb i a); simpl; auto. Qed.
Lemma vals_app_one : forall i l k e, memb i (vals (l ++ [(k, e)])) = memb i (vals l) || Nat.eqb i e.
Proof. intros. unfold vals. rewrite map_app. simpl. apply memb_app_one. Qed.
Lemma dpop_memb : forall i k l, memb i (vals l) =
  memb i (vals (snd (dpop k l))) || match fst (dpop k l) with Some e => Nat.eqb i e | None => false end.
Proof.
  induction l as [|[k' e] r IH]; simpl; auto.
  destruct (key_eqb k k'); simpl.
  - rewrite orb_comm. reflexivity.
  - destruct (dpop k r) as [x r']; simpl in *. rewrite IH. destruct (Nat.eqb i e); reflexivity.
Qed.
Lemma dremove_val_memb : forall i e l, Nat.eqb i e = false -> memb i (vals (dremove_val e l)) = memb i (vals l).
Proof.
  induction l as [|[k' e'] r IH]; simpl; intros H; auto.
  destruct (Nat.eqb e e') eqn:E; simpl.
  - apply Nat.eqb_eq in E. subst. rewrite H. reflexivity.
  - rewrite IH by assumption. reflexivity.
Qed.
Lemma fold_remove_memb : forall i es l, memb i es = false ->
  memb i (vals (fold_left (fun a e => dremove_val e a) es l)) = memb i (vals l).
Proof.
  induction es as [|e es IH]; simpl; intros l H; auto.
  destruct (Nat.eqb i e) eqn:E; try discriminate. rewrite IH by assumption. apply dremove_val_memb; assumption.
Qed.
Lemma memb_rev : forall i l, memb i (rev l) = memb i l.
Proof.
  induction l; simpl; auto. rewrite memb_app_one, IHl. destruct (Nat.eqb i a); simpl; rewrite ?orb_true_r, ?orb_false_r; auto.
Qed.
Lemma popitem_memb : forall l e l', popitem l = Some (e, l') ->
  forall i, memb i (vals l) = memb i (vals l') || Nat.eqb i e.
Proof.
  induction l as [|[k y] r IH]; simpl; intros e l' H i; try discriminate.
  destruct (popitem r) as [[z r']|] eqn:E; inversion H; subst; simpl.
  - rewrite (IH _ _ eq_refl). destruct (Nat.eqb i y); reflexivity.
  - apply popitem_none in E. subst. simpl. destruct (Nat.eqb i _); reflexivity.
Qed.

Lemma ob_facts : forall o, (ob qst o = true -> ob ast o = true) /\ (ob ast o = true -> ob pst o = true) /\
  (ob jt o = true -> ob ast o = true).
Proof. destruct o as [[]|]; simpl; auto. Qed.


Lemma step_I0 : forall R2R ERR reqs s a, I0 s -> I0 (cstep R2R ERR reqs s a).
Proof.
  intros R2R ERR reqs s [t a] H. unfold I0, rxl in *. unfold cstep; simpl. destruct t.
  - (unf; brk; auto).
  - (unf; brk; auto; try discriminate).
  - (unf; brk; auto; try discriminate).
  - (unf; brk; auto; try discriminate).
Qed.
Ltac rw := repeat match goal with
  | E : ?x = _, H : context[?x] |- _ =>
      lazymatch x with
      | tx _ => idtac | rx _ => idtac | us _ => idtac | txq _ => idtac | pending _ => idtac | active _ => idtac
      | io_set _ => idtac | closed_local _ => idtac | running _ => idtac | txset _ => idtac | rxset _ => idtac
      | nth_error _ _ => idtac
      end; rewrite E in H
  | E : ?x = _ |- context[?x] =>
      lazymatch x with
      | tx _ => idtac | rx _ => idtac | us _ => idtac | txq _ => idtac | pending _ => idtac | active _ => idtac
      | io_set _ => idtac | closed_local _ => idtac | running _ => idtac | txset _ => idtac | rxset _ => idtac
      | nth_error _ _ => idtac
      end; rewrite E
  end.
Ltac fin := intros; simpl in *; unfold ex, dT, dR, dU, ob, txlive, txl, rxl in *; simpl in *; rw; simpl in *;
  rewrite ?orb_true_iff, ?andb_true_iff, ?negb_true_iff, ?orb_false_iff, ?andb_false_iff, ?negb_false_iff in *;
  try solve [intuition (try congruence; try discriminate)].

Lemma step_I3 : forall R2R ERR reqs s a, I3 s -> I3 (cstep R2R ERR reqs s a).
Proof.
  intros R2R ERR reqs s [t a] H. unfold I3 in *. unfold cstep; simpl. destruct t.
  - (unf; brk; fin).
  - (unf; brk; fin).
  - (unf; brk; fin).
  - (unf; brk; fin).
Qed.

Lemma step_CL : forall R2R ERR reqs s a, I3 s -> CL s -> CL (cstep R2R ERR reqs s a).
Proof.
  intros R2R ERR reqs s [t a] H3 H. unfold I3, CL in *. unfold cstep; simpl. destruct t.
  - (unf; brk; fin).
  - (unf; brk; fin).
  - (unf; brk; fin).
  - (unf; brk; fin).
Qed.
Lemma rx_match_memb : forall R2R ERR i a m, memb i (vals a) =
  memb i (vals (snd (rx_match R2R ERR a m))) ||
  match fst (rx_match R2R ERR a m) with Some e => Nat.eqb i e | None => false end.
Proof.
  intros. unfold rx_match. pose proof (dpop_memb i (Some (m_action m, m_ident m)) a) as D.
  destruct (dpop (Some (m_action m, m_ident m)) a) as [[e|] a'] eqn:E1; simpl in *; auto.
  apply dpop_memb.
Qed.

Lemma rx_match_memb' : forall R2R ERR a m i, memb i (vals a) =
  memb i (vals (snd (rx_match R2R ERR a m))) ||
  match fst (rx_match R2R ERR a m) with Some e => Nat.eqb i e | None => false end.
Proof. intros. apply rx_match_memb. Qed.

Ltac wsn := repeat match goal with
  | E : nth_error ?l ?j = Some _, H : context[wl (set_nth ?j ?c ?l) ?i] |- _ => rewrite (wl_set_nth l j _ c i E) in H
  | E : nth_error ?l ?j = Some _ |- context[wl (set_nth ?j ?c ?l) ?i] => rewrite (wl_set_nth l j _ c i E)
  | E : nth_error ?l ?j = Some _, H : context[dn (set_nth ?j ?c ?l) ?i] |- _ => rewrite (dn_set_nth l j _ c i E) in H
  | E : nth_error ?l ?j = Some _ |- context[dn (set_nth ?j ?c ?l) ?i] => rewrite (dn_set_nth l j _ c i E)
  end.
Ltac lst := repeat match goal with
  | E : popitem ?l = Some (?e, ?l') |- _ => progress (rewrite (popitem_memb l e l' E) in * )
  | E : popitem ?l = None |- _ => apply popitem_none in E
  | E : rx_match ?R ?E0 ?a ?m = _ |- _ => progress (rewrite (rx_match_memb' R E0 a m) in * ); rewrite E in *
  end.
Ltac eqs := repeat match goal with
  | H : context[Nat.eqb ?a ?b] |- _ =>
      lazymatch type of H with
      | Nat.eqb a b = _ => fail
      | _ => destruct (Nat.eqb a b) eqn:?; simpl in *
      end
  | |- context[Nat.eqb ?a ?b] => destruct (Nat.eqb a b) eqn:?; simpl in *
  end.
Ltac props := rewrite ?orb_true_iff, ?andb_true_iff, ?negb_true_iff, ?orb_false_iff, ?andb_false_iff, ?negb_false_iff in *.
Ltac finM := intros; simpl in *;
  unfold waiting, owedb, hold, Wq, Wa, Wp, ex, dT, dR, dU, ob, txlive, txl, rxl in *; simpl in *;
  rewrite ?memb_o_app_some, ?memb_o_app_none, ?memb_app_one, ?vals_app_one in *; wsn; lst; rw; simpl in *;
  eqs; repeat match goal with H : Nat.eqb ?a ?b = true |- _ => apply Nat.eqb_eq in H; subst end;
  unfold dn, wl in *; rw; simpl in *;
  repeat match goal with H : ?x = ?x -> _ |- _ => specialize (H eq_refl) end;
  repeat progress props; try solve [intuition (try congruence; try discriminate)].

Lemma step_TXS : forall R2R ERR reqs s a, TXS s -> TXS (cstep R2R ERR reqs s a).
Proof.
  intros R2R ERR reqs s [t a] H. unfold TXS in *. unfold cstep; simpl. destruct t.
  - (unf; brk; fin).
  - (unf; brk; fin).
  - (unf; brk; fin).
  - (unf; brk; fin).
Qed.

Lemma step_K : forall R2R ERR reqs s a, I3 s -> CL s -> TXS s -> K s -> K (cstep R2R ERR reqs s a).
Proof.
  intros R2R ERR reqs s [t a] H3 HC HT H. unfold I3, CL, TXS, K in *. unfold cstep; simpl. destruct t.
  - (unf; brk; fin).
  - (unf; brk; fin).
  - (unf; brk; fin).
  - (unf; brk; fin).
Qed.

Lemma step_I5 : forall R2R ERR reqs s a, I5 s -> I5 (cstep R2R ERR reqs s a).
Proof.
  intros R2R ERR reqs s [t a] H. unfold I5 in *. unfold cstep; simpl. destruct t.
  - (unf; brk; intros q Hq; specialize (H q); finM).
  - (unf; brk; intros q Hq; specialize (H q); finM).
  - (unf; brk; intros q Hq; specialize (H q); finM).
  - (unf; brk; intros q Hq; specialize (H q); finM).
Qed.

