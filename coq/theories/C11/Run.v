(* C11 - correspondence driver.  A case carries the requests, the executed step sequence of the real threads
   (thread, label of the synchronisation point, what the environment did: time-out fired / peer directive) and
   what the implementation returned to every caller; check_case re-runs the model along the same schedule and
   requires: every step is enabled in the model and parked at the same label, and all outcomes are equal. *)
From Coq Require Import List Arith NArith Bool.
Import ListNotations.
Require Import FV.Base.Util FV.Gen.C11 FV.C11.Model.

Definition label_eqb (a b : label) : bool :=
  match a, b with
  | LStart, LStart | LPutTxq, LPutTxq | LGetTxq, LGetTxq | LEmptyTxq, LEmptyTxq | LPutPending, LPutPending
  | LGetPending, LGetPending | LEmptyPending, LEmptyPending | LSetShutdown, LSetShutdown | LJoinTx, LJoinTx
  | LJoinRx, LJoinRx | LSend, LSend | LRecv, LRecv | LNone, LNone => true
  | LSetEv x, LSetEv y | LWaitEv x, LWaitEv y => Nat.eqb x y
  | _, _ => false
  end.

Record case := {
  c_reqs : list (str * str);
  c_trace : list (tid * label * arg);
  c_out : list (nat * nat * str);     (* per caller: kind (0 reply, 1 error reply, 2 time-out, 3 connection error), token, reply action *)
  c_user : nat;                       (* 0 absent or not returned, 1 returned, 2 raised *)
  c_tx : nat;                         (* 0 alive, 1 finished, 2 died with an exception *)
  c_rx : nat;
}.

Definition out_code (c : cpc) : option (nat * nat * str) :=
  match c with
  | CDone (OReply m) => Some (0, m_tok m, m_action m)
  | CDone (OError m) => Some (1, m_tok m, [])
  | CDone OTimeout => Some (2, 0, [])
  | CDone OConnErr => Some (3, 0, [])
  | _ => None
  end.

Definition d_code (d : dpc) : nat := match d with DFin => 1 | DExc => 2 | _ => 0 end.
Definition tx_code (s : state) : nat := match tx s with TDead => 2 | TDisc d => d_code d | _ => 0 end.
Definition rx_code (s : state) : nat := match rx s with RDisc d => d_code d | _ => 0 end.
Definition us_code (s : state) : nat := match us s with UDisc d => d_code d | _ => 0 end.

Definition triple_eqb (a b : nat * nat * str) : bool :=
  Nat.eqb (fst (fst a)) (fst (fst b)) && Nat.eqb (snd (fst a)) (snd (fst b)) && str_eqb (snd a) (snd b).

(* number of the first step that the model cannot follow (None: all followed) *)
Fixpoint follow (reqs : list (str * str)) (s : state) (tr : list (tid * label * arg)) (n : nat) : state * option nat :=
  match tr with
  | [] => (s, None)
  | (t, l, a) :: r =>
      if label_eqb (label_of s t) l && enabled s t a
      then follow reqs (cstep R2R ERR reqs s (t, a)) r (S n)
      else (s, Some n)
  end.

Definition final (c : case) : state * option nat := follow (c_reqs c) (init (c_reqs c)) (c_trace c) 0.

Definition check_case (c : case) : bool :=
  let '(s, bad) := final c in
  match bad with Some _ => false | None =>
    list_eqb (opt_eqb triple_eqb) (map out_code (cs s)) (map Some (c_out c))
    && Nat.eqb (us_code s) (c_user c) && Nat.eqb (tx_code s) (c_tx c) && Nat.eqb (rx_code s) (c_rx c)
  end.

(* diagnosis: first step not followed, label the model is parked at there, outcomes and thread codes of the model *)
Definition model_result (c : case) :=
  let '(s, bad) := final c in
  (bad, match bad with Some n => match nth_error (c_trace c) n with Some (t, _, _) => Some (label_of s t) | None => None end | None => None end,
   map out_code (cs s), (us_code s, tx_code s, rx_code s)).
