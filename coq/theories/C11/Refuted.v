(* C11 - refutations: schedules (taken from real executions of the pinned implementation under the
   deterministic scheduler, see corpus/C11) on which the faithful model violates the property. *)
From Coq Require Import List Arith NArith Bool.
Import ListNotations.
Require Import FV.Gen.C11 FV.C11.Model.

(* parked: requests [['bar', 'm:p'], ['bar', 'm:p']], peer [['R', 0, 1, 0.0], ['R', 0, 1, 1.0], ['U', 0.0], ['I']], user False;
   steps: c0:put:txq c1:put:txq tx:start tx:get:txq tx:send tx:get:txq rx:start rx:recv rx:set:ev_c0 rx:empty:pending tx:put:pending c0:wait:ev_c0 rx:recv rx:recv rx:recv rx:recv rx:recv rx:recv rx:recv rx:recv rx:recv rx:recv rx:recv c1:wait:ev_c1 *)
Definition parked_reqs : list (str * str) := [([98%N; 97%N; 114%N], [109%N; 58%N; 112%N]); ([98%N; 97%N; 114%N], [109%N; 58%N; 112%N])].
Definition parked_sched : list (tid * arg) := [((TC 0%nat), ANone); ((TC 1%nat), ANone); (TTx, ANone); (TTx, ANone); (TTx, ANone); (TTx, ANone); (TRx, ANone); (TRx, (APeer (PReply 0%nat true))); (TRx, ANone); (TRx, ANone); (TTx, ANone); ((TC 0%nat), ANone); (TRx, (APeer PUpdate)); (TRx, (APeer PUpdate)); (TRx, (APeer PIdle)); (TRx, (APeer PUpdate)); (TRx, (APeer PUpdate)); (TRx, (APeer PUpdate)); (TRx, (APeer PUpdate)); (TRx, (APeer PUpdate)); (TRx, (APeer PUpdate)); (TRx, (APeer PUpdate)); (TRx, (APeer PUpdate)); ((TC 1%nat), ATimeout)].
(* txq_lost: requests [['read', 'm:p'], ['change', 'm:q']], peer [['U', 0.5]], user True;
   steps: c0:put:txq tx:start rx:start user:start user:set:shutdown user:empty:txq user:get:txq user:empty:txq user:put:txq c1:put:txq tx:get:txq tx:empty:txq tx:get:txq tx:empty:txq rx:recv rx:empty:txq rx:get:pending tx:join:rx tx:get:pending user:join:tx user:get:pending c0:wait:ev_c0 c1:wait:ev_c1 *)
Definition txq_lost_reqs : list (str * str) := [([114%N; 101%N; 97%N; 100%N], [109%N; 58%N; 112%N]); ([99%N; 104%N; 97%N; 110%N; 103%N; 101%N], [109%N; 58%N; 113%N])].
Definition txq_lost_sched : list (tid * arg) := [((TC 0%nat), ANone); (TTx, ANone); (TRx, ANone); (TUser, ANone); (TUser, ANone); (TUser, ANone); (TUser, ANone); (TUser, ANone); (TUser, ANone); ((TC 1%nat), ANone); (TTx, ANone); (TTx, ANone); (TTx, ANone); (TTx, ANone); (TRx, (APeer PClose)); (TRx, ANone); (TRx, ANone); (TTx, ANone); (TTx, ANone); (TUser, ANone); (TUser, ANone); ((TC 0%nat), ATimeout); ((TC 1%nat), ATimeout)].
(* join_race: requests [['foo', 'm:p'], ['bar', 'm:q']], peer [['R', 2, 1, 0.0], ['R', 0, 1, 0.25]], user True;
   steps: c1:put:txq tx:start user:start user:set:shutdown c0:put:txq user:empty:txq tx:get:txq rx:start user:get:txq user:empty:txq tx:send rx:empty:txq rx:put:txq rx:join:tx user:put:txq rx:set:ev_c1 rx:get:pending c1:wait:ev_c1 c0:wait:ev_c0 *)
Definition join_race_reqs : list (str * str) := [([102%N; 111%N; 111%N], [109%N; 58%N; 112%N]); ([98%N; 97%N; 114%N], [109%N; 58%N; 113%N])].
Definition join_race_sched : list (tid * arg) := [((TC 1%nat), ANone); (TTx, ANone); (TUser, ANone); (TUser, ANone); ((TC 0%nat), ANone); (TUser, ANone); (TTx, ANone); (TRx, ANone); (TUser, ANone); (TUser, ANone); (TTx, ANone); (TRx, ANone); (TRx, ANone); (TRx, ANone); (TUser, ANone); (TRx, ANone); (TRx, ANone); ((TC 1%nat), ANone); ((TC 0%nat), ATimeout)].

Definition all_enabled (reqs : list (str * str)) (sched : list (tid * arg)) : bool :=
  snd (fold_left (fun (p : state * bool) x =>
                    (cstep R2R ERR reqs (fst p) x, snd p && enabled (fst p) (fst x) (snd x)))
                 sched (init reqs, true)).

(* the window of __txthread line 421-423 against __rxthread line 505-509: caller 1 ends with a time-out while its
   request sits in `pending`, the connection is up, nothing is registered or outstanding, caller 0 was answered *)
Theorem C11_refuted_parked : exists reqs sched,
  all_enabled reqs sched = true /\
  let s := run R2R ERR reqs sched in
  nth_error (cs s) 1 = Some (CDone OTimeout) /\ pending s = [1] /\ active s = [] /\ out s = [] /\
  running s = true /\ closed_local s = false /\ memb 0 (map fst (replies s)) = true.
Proof. exists parked_reqs, parked_sched. vm_compute. repeat split; reflexivity. Qed.

(* requests dropped from txq by disconnect() (or queued after the drain): the user's disconnect() has returned,
   both callers end with a time-out, their events were never set *)
Theorem C11_refuted_txq_entry_lost : exists reqs sched,
  all_enabled reqs sched = true /\
  let s := run R2R ERR reqs sched in
  us s = UDisc DFin /\ cs s = [CDone OTimeout; CDone OTimeout] /\ evset s = [].
Proof. exists txq_lost_reqs, txq_lost_sched. vm_compute. repeat split; reflexivity. Qed.

(* `self._txthread` cleared by a concurrent disconnect between the test and the join: disconnect() of the user raises *)
Theorem C11_refuted_txthread_join_race : exists reqs sched,
  all_enabled reqs sched = true /\ us (run R2R ERR reqs sched) = UDisc DExc.
Proof. exists join_race_reqs, join_race_sched. vm_compute. repeat split; reflexivity. Qed.
