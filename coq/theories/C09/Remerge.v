(* C09 -- re-merging an inherited accessible in place (HasAccessibles.__init_subclass__, `aobj.merge(merged_properties[aname])`)
   is idempotent on the CONTENT of the object: when the object already has the content that the merged properties M
   prescribe, the merge writes the same description again (the datatype copy is a new object with the same content).
   This gives a frame theorem for class definitions whose premise is on the INPUT side only:
     - merge_log s d   (ghost, computed by the model like the footprint): the in-place merges (object, M) the definition does;
     - stable_remerge s i M : the content object i has in s (before the definition) is a fixed point of merging with M.
   No premise mentions the state after the definition. *)
From Coq Require Import List Arith ZArith Bool Lia.
Import ListNotations.
Require Import FV.Gen.C09 FV.C09.Model FV.C09.Lemmas.

(* ---------- ghost: the in-place merges of a definition, in the order they happen *)
Definition merge_entry (cs : list cls) (mro : list nat) (r : dres) (k : name) : list (id * mprops) :=
  let w := walk (fst (r_heap r)) cs mro k in
  match w_acc w, w_ov w with
  | Some wid, None => [(wid, w_M w)]
  | _, _ => []
  end.

Fixpoint merge_log_from (cs : list cls) (mro : list nat) (l : list name) (r : dres) : list (id * mprops) :=
  match l with
  | [] => []
  | k :: t => merge_entry cs mro r k ++ merge_log_from cs mro t (resolve_name cs mro r k)
  end.

Definition merge_log (s : state) (d : cdef) : list (id * mprops) :=
  let '(h1, dict1) := fold_left new_entry (d_dict d) ((params s, dts s), []) in
  let r0 := {| r_heap := h1; r_acc := []; r_dict := dict1; r_wp := []; r_wd := [] |} in
  if d_module d then
    let cs := classes s ++ [{| c_module := true; c_mro := d_mro d; c_dict := dict1; c_acc := [] |}] in
    merge_log_from cs (d_mro d) all_names r0
  else [].

(* the log lists exactly the objects of the Parameter half of the footprint *)
Lemma wp_step : forall cs mro r k,
  r_wp (resolve_name cs mro r k) = rev (map fst (merge_entry cs mro r k)) ++ r_wp r.
Proof.
  intros. unfold resolve_name, merge_entry.
  destruct (w_acc (walk (fst (r_heap r)) cs mro k)) as [wid|]; auto.
  destruct (w_ov (walk (fst (r_heap r)) cs mro k)) as [[z|]|]; auto.
  destruct (clone_cell (r_heap r) wid _ z) as [h' n]. reflexivity.
Qed.

Lemma wp_steps : forall cs mro l r,
  r_wp (fold_left (resolve_name cs mro) l r) = rev (map fst (merge_log_from cs mro l r)) ++ r_wp r.
Proof.
  induction l as [|k l IH]; simpl; intros r; auto.
  rewrite IH, wp_step, map_app, rev_app_distr, app_assoc. reflexivity.
Qed.

Lemma footprint_is_log : forall s d, fst (footprint s d) = rev (map fst (merge_log s d)).
Proof.
  intros. unfold footprint, define_core, merge_log. cbn [fst].
  destruct (fold_left new_entry (d_dict d) (params s, dts s, [])) as [h1 dict1].
  destruct (d_module d); [|reflexivity].
  rewrite wp_steps. simpl. rewrite app_nil_r. reflexivity.
Qed.

Lemma log_in_footprint : forall s d i, In i (fst (footprint s d)) <-> exists M, In (i, M) (merge_log s d).
Proof.
  intros. rewrite footprint_is_log, <- in_rev, in_map_iff. split.
  - intros [[j M] [E H]]. simpl in E. subst j. exists M. assumption.
  - intros [M H]. exists (i, M). auto.
Qed.

(* ---------- what a merge does to the description of the object, as a function of contents *)
Definition merge_read (a : acc_desc) (M : mprops) (src : dt) : acc_desc :=
  let nd := apply_dtprops src M in
  {| a_desc := ov (a_desc a) (m_desc M); a_group := ov (a_group a) (m_group M);
     a_value := revalidate (match m_value M with Some x => x | None => a_value a end) nd; a_dt := nd |}.

(* the datatype content the merge starts from: the datatype named by the merged properties, else the current one *)
Definition merge_src (ds : list dt) (M : mprops) (a : acc_desc) : dt :=
  match m_dt M with Some d => getd ds d | None => a_dt a end.

(* INPUT-SIDE condition: in state s the object i has the content that merging with M prescribes *)
Definition stable_remerge (s : state) (i : id) (M : mprops) : Prop :=
  (forall dd, m_dt M = Some dd -> dd < length (dts s)) /\
  merge_read (read (params s) (dts s) i) M (merge_src (dts s) M (read (params s) (dts s) i)) = read (params s) (dts s) i.

(* ---------- pure idempotence: an object that has just been merged with M is stable under M *)
Lemma dt_set_idem : forall d k v, dt_set (dt_set d k v) k v = dt_set d k v.
Proof.
  intros [kind mn mx u mem] k v. unfold dt_set. simpl.
  destruct kind as [|[|kind]]; simpl; auto.
  do 6 (destruct k as [|k]; simpl; auto).
Qed.

Lemma apply_dtprops_idem : forall d M, apply_dtprops (apply_dtprops d M) M = apply_dtprops d M.
Proof.
  intros [kind mn mx u mem] M. unfold apply_dtprops.
  destruct kind as [|[|kind]]; destruct (m_min M), (m_max M), (m_unit M); reflexivity.
Qed.

Lemma apply_dtprops_none : forall d M, has_dtprops M = false -> apply_dtprops d M = d.
Proof.
  intros d M H. unfold has_dtprops in H. unfold apply_dtprops.
  destruct (m_min M), (m_max M), (m_unit M); try discriminate. reflexivity.
Qed.

Lemma apply_dtprops_dt0 : forall M, apply_dtprops dt0 M = dt0.
Proof. intros. unfold apply_dtprops. destruct (m_min M), (m_max M), (m_unit M); reflexivity. Qed.

Lemma revalidate_idem : forall v d, revalidate (revalidate v d) d = revalidate v d.
Proof.
  intros [z|] d; simpl; auto. destruct (accepts d z) eqn:E; simpl; auto. rewrite E. reflexivity.
Qed.

Lemma ov_idem : forall A (a b : option A), ov (ov a b) b = ov a b.
Proof. intros A a [x|]; reflexivity. Qed.

(* src = content of the datatype object named by M (unchanged in between), when M names one *)
Lemma merge_read_idem : forall a M src,
  let a' := merge_read a M (match m_dt M with Some _ => src | None => a_dt a end) in
  merge_read a' M (match m_dt M with Some _ => src | None => a_dt a' end) = a'.
Proof.
  intros a M src a'. unfold a', merge_read. cbn [a_desc a_group a_value a_dt].
  rewrite !ov_idem.
  destruct (m_dt M) as [dd|].
  - destruct (m_value M) as [x|]; [reflexivity|]. rewrite revalidate_idem. reflexivity.
  - rewrite apply_dtprops_idem.
    destruct (m_value M) as [x|]; [reflexivity|]. rewrite revalidate_idem. reflexivity.
Qed.

(* ---------- the heap level merge computes merge_read *)
Definition K (h : heap) (i : id) (a : acc_desc) : Prop :=
  i < length (fst h) /\ read (fst h) (snd h) i = a /\
  (forall j, v_dt (pv (getp (fst h) i)) = Some j -> j < length (snd h)).

Lemma K_ext : forall h h' i a e1 e2, K h i a -> fst h' = fst h ++ e1 -> snd h' = snd h ++ e2 -> K h' i a.
Proof.
  intros h h' i a e1 e2 (Li & R & D) E1 E2. unfold K, read, getp in *. rewrite E1, E2.
  rewrite app_nth1 by assumption. repeat split.
  - rewrite app_length. lia.
  - rewrite <- R. f_equal. destruct (v_dt (pv (nth i (fst h) pcell0))) as [j|] eqn:E; simpl; auto.
    unfold getd. apply app_nth1. apply D. reflexivity.
  - intros j E. rewrite app_length. specialize (D j E). lia.
Qed.

Lemma getp_set_same : forall ps i c, i < length ps -> getp (set_nth ps i c) i = c.
Proof. intros. unfold getp. apply nth_set_nth_same. assumption. Qed.

Lemma K_merge_self : forall h i a M, K h i a ->
  K (merge_cell h i M) i (merge_read a M (merge_src (snd h) M a)).
Proof.
  intros [ps ds] i a M (Li & R & D). simpl in Li, D. unfold merge_cell, merge_src. cbn [fst snd] in *.
  destruct (m_dt M) as [dd|] eqn:EM.
  - unfold alloc_dt, set_pv, K, read. cbn [fst snd].
    rewrite !getp_set_same by assumption. cbn [pv v_desc v_group v_value v_dt merged_pv].
    rewrite length_set_nth, app_length. simpl. repeat split; try lia.
    + unfold merge_read, rd_dt, getd. rewrite app_nth2 by lia. rewrite Nat.sub_diag. simpl.
      rewrite <- R. unfold read. cbn [a_desc a_group a_value a_dt]. reflexivity.
    + intros j E. injection E as E. lia.
  - destruct (v_dt (pv (getp ps i))) as [d0|] eqn:E0.
    + specialize (D d0 eq_refl).
      assert (RD : a_dt a = getd ds d0) by (rewrite <- R; unfold read; cbn [a_dt]; rewrite E0; reflexivity).
      unfold write_dtprops. cbn [fst snd].
      destruct (has_dtprops M) eqn:HP.
      * unfold set_dt, set_pv, K, read. cbn [fst snd].
        rewrite !getp_set_same by assumption. cbn [pv v_desc v_group v_value v_dt merged_pv].
        rewrite !length_set_nth. repeat split; try lia.
        -- unfold merge_read, rd_dt, getd. rewrite nth_set_nth_same by assumption.
           rewrite RD. rewrite <- R. unfold read. cbn [a_desc a_group a_value a_dt]. reflexivity.
        -- intros j E. injection E as E. lia.
      * unfold set_pv, K, read. cbn [fst snd].
        rewrite !getp_set_same by assumption. cbn [pv v_desc v_group v_value v_dt merged_pv].
        rewrite !length_set_nth. repeat split; try lia.
        -- unfold merge_read, rd_dt. rewrite RD. rewrite (apply_dtprops_none _ _ HP).
           rewrite <- R. unfold read. cbn [a_desc a_group a_value a_dt]. reflexivity.
        -- intros j E. injection E as E. lia.
    + assert (RD : a_dt a = dt0) by (rewrite <- R; unfold read; cbn [a_dt]; rewrite E0; reflexivity).
      unfold set_pv, K, read. cbn [fst snd].
      rewrite !getp_set_same by assumption. cbn [pv v_desc v_group v_value v_dt merged_pv].
      rewrite !length_set_nth. repeat split; try lia.
      * unfold merge_read, rd_dt. rewrite RD, apply_dtprops_dt0.
        rewrite <- R. unfold read. cbn [a_desc a_group a_value a_dt]. reflexivity.
      * intros j E. discriminate E.
Qed.

(* a merge of ANOTHER object that writes to no datatype object in place leaves object i and its datatype alone *)
Lemma K_merge_other : forall h w i a M, K h i a -> w <> i -> merge_wd h w M [] = [] ->
  K (merge_cell h w M) i a /\ exists e, snd (merge_cell h w M) = snd h ++ e.
Proof.
  intros [ps ds] w i a M HK Hw Hwd. unfold merge_cell, merge_wd in *. cbn [fst snd] in *.
  assert (G : forall c e, K (set_nth ps w c, ds ++ e) i a).
  { intros c e. destruct HK as (Li & R & D). cbn [fst snd] in *. unfold K, read, getp in *. cbn [fst snd].
    rewrite nth_set_nth_other by congruence. rewrite length_set_nth. repeat split; auto.
    - rewrite <- R. f_equal. destruct (v_dt (pv (nth i ps pcell0))) as [j|] eqn:E; simpl; auto.
      unfold getd. apply app_nth1. apply D. reflexivity.
    - intros j E. rewrite app_length. specialize (D j E). lia. }
  destruct (m_dt M) as [dd|].
  - unfold alloc_dt, set_pv. cbn [fst snd]. split; [apply G | eexists; reflexivity].
  - destruct (v_dt (pv (getp ps w))) as [d0|].
    + unfold write_dtprops. destruct (has_dtprops M); [discriminate|].
      unfold set_pv. cbn [fst snd]. split; [|exists []; rewrite app_nil_r; reflexivity].
      specialize (G {| pv := merged_pv (pv (getp ps w)) M (Some d0) (apply_dtprops (getd ds d0) M); own := own (getp ps w) |} []).
      rewrite app_nil_r in G. exact G.
    + unfold set_pv. cbn [fst snd]. split; [|exists []; rewrite app_nil_r; reflexivity].
      specialize (G {| pv := merged_pv (pv (getp ps w)) M None dt0; own := own (getp ps w) |} []).
      rewrite app_nil_r in G. exact G.
Qed.

Lemma merge_self_ext : forall h i M, merge_wd h i M [] = [] -> exists e, snd (merge_cell h i M) = snd h ++ e.
Proof.
  intros [ps ds] i M Hwd. unfold merge_cell, merge_wd in *. cbn [fst snd] in *.
  destruct (m_dt M) as [dd|].
  - unfold alloc_dt, set_pv. cbn [fst snd]. eexists; reflexivity.
  - destruct (v_dt (pv (getp ps i))) as [d0|].
    + unfold write_dtprops. destruct (has_dtprops M); [discriminate|].
      unfold set_pv. cbn [fst snd]. exists []. rewrite app_nil_r. reflexivity.
    + unfold set_pv. cbn [fst snd]. exists []. rewrite app_nil_r. reflexivity.
Qed.

(* a bare-value override that writes to no datatype object in place only appends objects *)
Lemma clone_ext : forall h w M z, clone_wd M [] = [] ->
  exists e1 e2, fst (fst (clone_cell h w M z)) = fst h ++ e1 /\ snd (fst (clone_cell h w M z)) = snd h ++ e2.
Proof.
  intros [ps ds] w M z Hwd. unfold clone_cell, clone_wd in *. cbn [fst snd] in *.
  assert (H1 : match m_dt M with Some d => write_dtprops (ps, ds) d M | None => (ps, ds) end = (ps, ds)).
  { destruct (m_dt M) as [dd|]; auto. unfold write_dtprops. destruct (has_dtprops M); [discriminate | reflexivity]. }
  rewrite H1. cbn [fst snd].
  destruct (v_dt (pv (getp ps w))).
  - unfold alloc_dt, alloc_p. cbn [fst snd]. eexists; eexists; split; reflexivity.
  - unfold alloc_p. cbn [fst snd]. eexists; exists []; split; [reflexivity | rewrite app_nil_r; reflexivity].
Qed.

(* ---------- one name of the second loop *)
Lemma wd_step : forall cs mro r k, r_wd (resolve_name cs mro r k) = [] -> r_wd r = [].
Proof.
  intros cs mro r k. unfold resolve_name.
  destruct (w_acc (walk (fst (r_heap r)) cs mro k)) as [wid|]; auto.
  destruct (w_ov (walk (fst (r_heap r)) cs mro k)) as [[z|]|]; auto.
  - destruct (clone_cell (r_heap r) wid _ z) as [h' n]. cbn [r_wd].
    destruct (m_dt _); auto. destruct (has_dtprops _); auto. discriminate.
  - cbn [r_wd]. destruct (m_dt _); auto. destruct (v_dt _); auto. destruct (has_dtprops _); auto. discriminate.
Qed.

Lemma wd_steps : forall cs mro l r, r_wd (fold_left (resolve_name cs mro) l r) = [] -> r_wd r = [].
Proof. induction l as [|k l IH]; simpl; intros r H; auto. apply (wd_step cs mro r k). apply IH. assumption. Qed.

Definition stable_at (ds0 : list dt) (a : acc_desc) (M : mprops) : Prop :=
  (forall dd, m_dt M = Some dd -> dd < length ds0) /\ merge_read a M (merge_src ds0 M a) = a.

Lemma merge_src_ext : forall ds0 e M a, (forall dd, m_dt M = Some dd -> dd < length ds0) ->
  merge_src (ds0 ++ e) M a = merge_src ds0 M a.
Proof.
  intros. unfold merge_src. destruct (m_dt M) as [dd|]; auto. unfold getd. apply app_nth1. auto.
Qed.

(* the heap level merge ESTABLISHES stability: right after `aobj.merge(M)` the object is a fixed point of merging with M
   (so a class whose accessible has just been merged satisfies the re-merge premise for the same chain, until the
   datatype object M names or the object itself is written to by somebody else - the two findings) *)
Lemma merge_establishes_stable : forall h i a M, K h i a ->
  (forall dd, m_dt M = Some dd -> dd < length (snd h)) ->
  stable_at (snd (merge_cell h i M)) (read (fst (merge_cell h i M)) (snd (merge_cell h i M)) i) M.
Proof.
  intros h i a M HK Hd. destruct (K_merge_self h i a M HK) as (_ & R & _). rewrite R. clear R.
  destruct h as [ps ds]. cbn [fst snd] in *. unfold stable_at, merge_src.
  destruct (m_dt M) as [dd|] eqn:EM.
  - assert (E : snd (merge_cell (ps, ds) i M) = ds ++ [apply_dtprops (getd ds dd) M]).
    { unfold merge_cell. rewrite EM. unfold alloc_dt, set_pv. cbn [fst snd]. reflexivity. }
    rewrite E. split.
    + intros d' E'. injection E' as E'. subst d'. rewrite app_length. specialize (Hd dd eq_refl). lia.
    + assert (G : getd (ds ++ [apply_dtprops (getd ds dd) M]) dd = getd ds dd) by (unfold getd; apply app_nth1; apply Hd; reflexivity).
      rewrite G.
      pose proof (merge_read_idem a M (getd ds dd)) as I. cbv zeta in I. rewrite EM in I. exact I.
  - split; [intros d' E'; discriminate E'|].
    pose proof (merge_read_idem a M dt0) as I. cbv zeta in I. rewrite EM in I. exact I.
Qed.

Lemma resolve_name_keeps : forall cs mro r k i a ds0,
  r_wd (resolve_name cs mro r k) = [] ->
  (exists e, snd (r_heap r) = ds0 ++ e) -> K (r_heap r) i a ->
  (forall M, In (i, M) (merge_entry cs mro r k) -> stable_at ds0 a M) ->
  K (r_heap (resolve_name cs mro r k)) i a /\ exists e, snd (r_heap (resolve_name cs mro r k)) = ds0 ++ e.
Proof.
  intros cs mro r k i a ds0 Hwd [e He] HK Hst.
  pose proof (wd_step cs mro r k Hwd) as Hwd0.
  unfold resolve_name, merge_entry in *.
  destruct (w_acc (walk (fst (r_heap r)) cs mro k)) as [wid|]; [|split; [assumption | exists e; assumption]].
  destruct (w_ov (walk (fst (r_heap r)) cs mro k)) as [[z|]|]; [| split; [assumption | exists e; assumption] |].
  - set (M := w_M (walk (fst (r_heap r)) cs mro k)) in *.
    assert (C : clone_wd M [] = []).
    { destruct (clone_cell (r_heap r) wid M z) as [h' n]. cbn [r_wd] in Hwd. unfold clone_wd.
      destruct (m_dt M); auto. destruct (has_dtprops M); auto. discriminate. }
    destruct (clone_ext (r_heap r) wid M z C) as (e1 & e2 & E1 & E2).
    destruct (clone_cell (r_heap r) wid M z) as [h' n]. cbn [r_heap fst snd] in *.
    split; [apply (K_ext (r_heap r) h' i a e1 e2); assumption|].
    exists (e ++ e2). rewrite E2, He, app_assoc. reflexivity.
  - set (M := w_M (walk (fst (r_heap r)) cs mro k)) in *. cbn [r_heap r_wd] in *.
    assert (C : merge_wd (r_heap r) wid M [] = []).
    { unfold merge_wd. destruct (m_dt M); auto. destruct (v_dt _); auto. destruct (has_dtprops M); auto. discriminate. }
    destruct (Nat.eq_dec wid i) as [E|N].
    + subst wid. destruct (Hst M (or_introl eq_refl)) as [Sr Se].
      pose proof (K_merge_self (r_heap r) i a M HK) as HK'.
      rewrite He, (merge_src_ext ds0 e M a Sr), Se in HK'. split; [exact HK'|].
      destruct (merge_self_ext (r_heap r) i M C) as [e' E']. exists (e ++ e'). rewrite E', He, app_assoc. reflexivity.
    + destruct (K_merge_other (r_heap r) wid i a M HK N C) as [HK' [e' E']]. split; [exact HK'|].
      exists (e ++ e'). rewrite E', He, app_assoc. reflexivity.
Qed.

Lemma resolve_names_keep : forall cs mro l r i a ds0,
  r_wd (fold_left (resolve_name cs mro) l r) = [] ->
  (exists e, snd (r_heap r) = ds0 ++ e) -> K (r_heap r) i a ->
  (forall M, In (i, M) (merge_log_from cs mro l r) -> stable_at ds0 a M) ->
  K (r_heap (fold_left (resolve_name cs mro) l r)) i a.
Proof.
  induction l as [|k l IH]; simpl; intros r i a ds0 Hwd He HK Hst; auto.
  pose proof (wd_steps cs mro l _ Hwd) as Hwd1.
  destruct (resolve_name_keeps cs mro r k i a ds0 Hwd1 He HK) as [HK' He'].
  { intros M H. apply Hst. apply in_or_app. left. assumption. }
  apply (IH _ i a ds0 Hwd He' HK'). intros M H. apply Hst. apply in_or_app. right. assumption.
Qed.

(* ---------- the objects of the class body are appended *)
Lemma new_param_ext : forall h s, exists e1 e2,
  fst (fst (new_param h s)) = fst h ++ e1 /\ snd (fst (new_param h s)) = snd h ++ e2.
Proof.
  intros [ps ds] s. unfold new_param, alloc_dt, alloc_p. cbn [fst snd].
  destruct (s_dt s); destruct (s_inherit s); cbn [fst snd];
  try (eexists; eexists; split; reflexivity);
  try (eexists; exists []; split; [reflexivity | rewrite app_nil_r; reflexivity]).
Qed.

Lemma new_entry_ext : forall hd ne, exists e1 e2,
  fst (fst (new_entry hd ne)) = fst (fst hd) ++ e1 /\ snd (fst (new_entry hd ne)) = snd (fst hd) ++ e2.
Proof.
  intros [h dd] [n e]. unfold new_entry. cbn [fst snd].
  destruct e as [s|z|]; cbn [fst snd]; try (exists [], []; rewrite !app_nil_r; split; reflexivity).
  destruct (new_param_ext h s) as (e1 & e2 & E1 & E2). destruct (new_param h s) as [h' i]. cbn [fst snd] in *.
  exists e1, e2. split; assumption.
Qed.

Lemma new_entries_ext : forall l hd, exists e1 e2,
  fst (fst (fold_left new_entry l hd)) = fst (fst hd) ++ e1 /\ snd (fst (fold_left new_entry l hd)) = snd (fst hd) ++ e2.
Proof.
  induction l as [|x l IH]; simpl; intros hd.
  - exists [], []. rewrite !app_nil_r. split; reflexivity.
  - destruct (IH (new_entry hd x)) as (e1 & e2 & E1 & E2). destruct (new_entry_ext hd x) as (f1 & f2 & F1 & F2).
    exists (f1 ++ e1), (f2 ++ e2). rewrite E1, E2, F1, F2, !app_assoc. split; reflexivity.
Qed.

(* ---------- frame of a class definition for an object it re-merges to the content the object has *)
Lemma read_remerged : forall s d i, acc_ok s i ->
  snd (footprint s d) = [] ->
  (forall M, In (i, M) (merge_log s d) -> stable_remerge s i M) ->
  read (params (define s d)) (dts (define s d)) i = read (params s) (dts s) i.
Proof.
  intros s d i [Li Ld] Hwd Hst. unfold footprint, merge_log, define in *. cbn [snd params dts] in *.
  unfold define_core in *.
  destruct (new_entries_ext (d_dict d) ((params s, dts s), [])) as (e1 & e2 & E1 & E2).
  destruct (fold_left new_entry (d_dict d) (params s, dts s, [])) as [h1 dict1]. cbn [fst snd] in E1, E2.
  assert (K0 : K (params s, dts s) i (read (params s) (dts s) i)) by (repeat split; assumption).
  pose proof (K_ext (params s, dts s) h1 i _ e1 e2 K0 E1 E2) as K1.
  destruct (d_module d).
  - match goal with |- context [fold_left (resolve_name ?cs ?mro) ?l ?r0] =>
      pose proof (resolve_names_keep cs mro l r0 i (read (params s) (dts s) i) (dts s) Hwd) as H end.
    cbn [r_heap] in H. destruct H as (_ & R & _); auto.
    exists e2. assumption.
  - cbn [r_heap]. destruct K1 as (_ & R & _). exact R.
Qed.

(* every accessible object of c is untouched, or re-merged to the content it has while the definition writes to no
   datatype object in place: the description of c does not change *)
Lemma class_unchanged_by_remerge : forall s d c,
  (forall k i, In (k, i) (c_acc c) ->
     acc_ok s i /\
     (untouched s d i \/
      (snd (footprint s d) = [] /\ forall M, In (i, M) (merge_log s d) -> stable_remerge s i M))) ->
  describe_class (define s d) c = describe_class s c.
Proof.
  intros s d c H. unfold describe_class. apply map_ext_in. intros [k i] Hin. cbn [fst snd].
  destruct (H k i Hin) as [Ok [U|[W S]]].
  - rewrite read_unchanged; auto.
  - rewrite read_remerged; auto.
Qed.

Lemma all_classes_unchanged_by_remerge : forall s d,
  snd (footprint s d) = [] ->
  (forall i M, In (i, M) (merge_log s d) -> i < length (params s) -> stable_remerge s i M) ->
  forall c, (forall k i, In (k, i) (c_acc c) -> acc_ok s i) -> describe_class (define s d) c = describe_class s c.
Proof.
  intros s d W S c Hok. apply class_unchanged_by_remerge. intros k i Hin. split; [apply (Hok k i Hin)|].
  right. split; [assumption|]. intros M HM. apply S; auto. destruct (Hok k i Hin). assumption.
Qed.
