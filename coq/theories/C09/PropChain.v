(* C09 -- the property part of a class description is a function of the class's own chain: what a class definition
   produces (class __dict__ and propertyDict, with every Property object replaced by its CONTENT) is computed by vdefine
   from the class body and the content views of the __dict__s along its MRO alone -- no heap, no object identities, no
   other class, no instance. *)
From Coq Require Import List Arith ZArith Bool Lia.
Import ListNotations.
Require Import FV.Base.Util FV.C09.Model FV.C09.PropModel FV.C09.PropLemmas.

Inductive ventry := VProp (p : pobj) | VBare (v : Z).
Definition vdict := list (name * ventry).
Definition resolve (h : list pobj) (e : pentry) : ventry :=
  match e with PEProp i => VProp (getpo h i) | PEBare v => VBare v end.
Definition mapv {A B} (f : A -> B) (l : list (name * A)) : list (name * B) := map (fun kv => (fst kv, f (snd kv))) l.
Definition view (h : list pobj) (d : pdict) : vdict := mapv (resolve h) d.

(* ---- the definition of a class on contents *)
Definition vbody (b : list (name * pbody)) : vdict :=
  mapv (fun e => match e with PBNew lo hi d v => VProp (mkpo lo hi d v) | PBBare v => VBare v end) b.
Definition vwentry (acc : list (name * pobj)) (ke : name * ventry) : list (name * pobj) :=
  match snd ke with VProp p => put_assoc (fst ke) p acc | VBare _ => acc end.
Definition vwprops (acc : list (name * pobj)) (d : vdict) : list (name * pobj) := fold_left vwentry d acc.
Definition vcollect (dicts : list vdict) : list (name * pobj) := fold_left vwprops dicts [].
Fixpoint vlookup (k : name) (dicts : list vdict) : option ventry :=
  match dicts with
  | [] => None
  | d :: r => match assoc_nat k d with Some e => Some e | None => vlookup k r end
  end.
Record vovr := mkvovr { vo_dict : vdict; vo_pd : list (name * pobj) }.
Definition vostep (bases : list vdict) (r : vovr) (kp : name * pobj) : vovr :=
  match vlookup (fst kp) (vo_dict r :: bases) with
  | Some (VBare v) =>
      mkvovr (put_assoc (fst kp) (VProp (set_value (snd kp) v)) (vo_dict r))
             (put_assoc (fst kp) (set_value (snd kp) v) (vo_pd r))
  | _ => r
  end.
Definition vdefine (module : bool) (body : list (name * pbody)) (bases : list vdict) : vdict * list (name * pobj) :=
  let d := vbody body in
  if module then
    let props := vcollect (rev (d :: bases)) in
    let r := fold_left (vostep bases) props (mkvovr d props) in (vo_dict r, vo_pd r)
  else (d, []).

(* ---- simulation *)
Lemma mapv_put : forall A B (f : A -> B) k v l, mapv f (put_assoc k v l) = put_assoc k (f v) (mapv f l).
Proof.
  induction l as [|[k' x] r IH]; simpl. reflexivity.
  destruct (Nat.eqb k k'); simpl. reflexivity. rewrite <- IH. reflexivity.
Qed.

Lemma assoc_mapv : forall A B (f : A -> B) k l, assoc_nat k (mapv f l) = option_map f (assoc_nat k l).
Proof.
  induction l as [|[k' x] r IH]; simpl. reflexivity. destruct (Nat.eqb k k'); simpl; auto.
Qed.

Lemma view_ext : forall h ext d, dict_ok (length h) d -> view (h ++ ext) d = view h d.
Proof.
  intros h ext d H. unfold view, mapv. apply map_ext_in. intros [k e] Hin. simpl. f_equal.
  destruct e as [i|v]; simpl; [|reflexivity]. f_equal. apply getpo_ext. eapply H; eauto.
Qed.

Lemma views_ext : forall h ext ds, (forall d, In d ds -> dict_ok (length h) d) ->
  map (view (h ++ ext)) ds = map (view h) ds.
Proof. intros. apply map_ext_in. intros d Hd. apply view_ext. auto. Qed.

Lemma pd_ext : forall h ext pd, ids_ok (length h) pd -> mapv (getpo (h ++ ext)) pd = mapv (getpo h) pd.
Proof.
  intros h ext pd H. unfold mapv. apply map_ext_in. intros [k i] Hin. simpl. f_equal. apply getpo_ext. eapply H; eauto.
Qed.

Lemma alloc_body_view : forall b h, view (fst (alloc_body h b)) (snd (alloc_body h b)) = vbody b.
Proof.
  induction b as [|[k e] r IH]; intros h; simpl. reflexivity.
  destruct e as [lo hi d v|v]; simpl.
  - unfold view, vbody, mapv in *. simpl. rewrite IH. f_equal. f_equal. f_equal.
    destruct (alloc_body_spec r (h ++ [mkpo lo hi d v])) as [[ext E] _]. rewrite E. unfold getpo.
    rewrite <- app_assoc. simpl. rewrite app_nth2 by lia. rewrite Nat.sub_diag. reflexivity.
  - unfold view, vbody, mapv in *. simpl. rewrite IH. reflexivity.
Qed.

Lemma wprops_sim : forall h d acc, mapv (getpo h) (wprops acc d) = vwprops (mapv (getpo h) acc) (view h d).
Proof.
  unfold wprops, vwprops. induction d as [|[k e] r IH]; simpl; intros acc. reflexivity.
  rewrite IH. f_equal. unfold wentry, vwentry. simpl. destruct e; simpl. apply mapv_put. reflexivity.
Qed.

Lemma collect_sim : forall h dicts, mapv (getpo h) (collect dicts) = vcollect (map (view h) dicts).
Proof.
  unfold collect, vcollect. intros h dicts.
  assert (G : forall acc, mapv (getpo h) (fold_left wprops dicts acc) =
                          fold_left vwprops (map (view h) dicts) (mapv (getpo h) acc)).
  { induction dicts as [|d r IH]; simpl; intros acc. reflexivity. rewrite IH, wprops_sim. reflexivity. }
  apply G.
Qed.

Lemma lookup_sim : forall h k dicts, vlookup k (map (view h) dicts) = option_map (resolve h) (mro_lookup k dicts).
Proof.
  induction dicts as [|d r IH]; simpl. reflexivity.
  unfold view at 1. rewrite assoc_mapv. destruct (assoc_nat k d); simpl. reflexivity. exact IH.
Qed.

(* the state of the second loop and its content level image *)
Definition osim (bases : list pdict) (r : ovr) (vr : vovr) : Prop :=
  ovr_ok r /\ (forall d, In d bases -> dict_ok (length (o_heap r)) d) /\
  view (o_heap r) (o_dict r) = vo_dict vr /\ mapv (getpo (o_heap r)) (o_pd r) = vo_pd vr.

Lemma ostep_sim : forall bases r vr k i, osim bases r vr -> i < length (o_heap r) ->
  osim bases (ostep bases r (k, i)) (vostep (map (view (o_heap r)) bases) vr (k, getpo (o_heap r) i)) /\
  exists ext, o_heap (ostep bases r (k, i)) = o_heap r ++ ext.
Proof.
  intros bases r vr k i (O & B & D & P) Hi. unfold ostep, vostep. simpl fst. simpl snd.
  rewrite <- D. change (view (o_heap r) (o_dict r) :: map (view (o_heap r)) bases)
    with (map (view (o_heap r)) (o_dict r :: bases)).
  rewrite lookup_sim. destruct (mro_lookup k (o_dict r :: bases)) as [[j|v]|]; simpl.
  - split. repeat split; try apply O; auto. exists []. rewrite app_nil_r. reflexivity.
  - destruct O as [OA OD]. split; [|eexists; reflexivity].
    assert (L : length (o_heap r ++ [set_value (getpo (o_heap r) i) v]) = S (length (o_heap r)))
      by (rewrite app_length; simpl; lia).
    split; [|split; [|split]]; simpl.
    + split; simpl; rewrite L.
      * apply ids_ok_put. eapply ids_ok_mono; eauto. lia.
      * apply dict_ok_put. eapply dict_ok_mono; eauto. lia.
    + intros d Hd. rewrite L. eapply dict_ok_mono. apply B; exact Hd. lia.
    + unfold view. rewrite mapv_put. simpl. unfold getpo at 1. rewrite app_nth2 by lia. rewrite Nat.sub_diag. simpl.
      fold (view (o_heap r ++ [set_value (getpo (o_heap r) i) v]) (o_dict r)). rewrite view_ext by exact OD.
      reflexivity.
    + rewrite mapv_put. unfold getpo at 1. rewrite app_nth2 by lia. rewrite Nat.sub_diag. simpl.
      rewrite pd_ext by exact OA. rewrite P. reflexivity.
  - split. repeat split; try apply O; auto. exists []. rewrite app_nil_r. reflexivity.
Qed.

Lemma osteps_sim : forall bases vbases h0 props r vr,
  osim bases r vr -> (exists ext, o_heap r = h0 ++ ext) -> ids_ok (length h0) props ->
  (forall d, In d bases -> dict_ok (length h0) d) -> map (view h0) bases = vbases ->
  osim bases (fold_left (ostep bases) props r) (fold_left (vostep vbases) (mapv (getpo h0) props) vr).
Proof.
  induction props as [|[k i] props IH]; simpl; intros r vr S [ext E] Hp Hb Hv. exact S.
  assert (Hi : i < length h0) by (eapply Hp; left; reflexivity).
  assert (Hi' : i < length (o_heap r)) by (rewrite E, app_length; lia).
  destruct (ostep_sim bases r vr k i S Hi') as [S' [e' E']].
  assert (V : map (view (o_heap r)) bases = vbases) by (rewrite E, views_ext; auto).
  assert (G : getpo (o_heap r) i = getpo h0 i) by (rewrite E; apply getpo_ext; exact Hi).
  rewrite V, G in S'. apply IH; auto.
  - exists (ext ++ e'). etransitivity; [exact E'|]. rewrite E, app_assoc. reflexivity.
  - intros k' i' H. eapply Hp. right. exact H.
Qed.

Theorem define_is_function_of_chain : forall s d, pinv s ->
  let c := last (p_classes (pdefine s d)) pcls0 in
  let h' := p_heap (pdefine s d) in
  (view h' (pc_dict c), pdescribe h' c)
  = vdefine (pd_module d) (pd_body d) (map (view (p_heap s)) (base_dicts (p_classes s) (pd_mro d))).
Proof.
  intros s d I. unfold pdefine, vdefine.
  destruct (alloc_body_spec (pd_body d) (p_heap s)) as [[e1 E1] D1].
  pose proof (alloc_body_view (pd_body d) (p_heap s)) as V1.
  set (hl := alloc_body (p_heap s) (pd_body d)) in *.
  set (bases := base_dicts (p_classes s) (pd_mro d)).
  assert (B0 : forall x, In x bases -> dict_ok (length (p_heap s)) x) by (intros; eapply base_dicts_ok; eauto).
  assert (L1 : length (p_heap s) <= length (fst hl)) by (rewrite E1, app_length; lia).
  assert (B : forall x, In x bases -> dict_ok (length (fst hl)) x) by (intros; eapply dict_ok_mono; eauto).
  assert (VB : map (view (fst hl)) bases = map (view (p_heap s)) bases) by (rewrite E1; apply views_ext; exact B0).
  set (props := collect (rev (snd hl :: bases))).
  destruct (pd_module d); simpl; rewrite last_last; simpl.
  - 
    assert (P : ids_ok (length (fst hl)) props).
    { apply collect_ok. intros x Hx. apply in_rev in Hx. destruct Hx as [<-|Hx]; auto. }
    assert (PS : mapv (getpo (fst hl)) props = vcollect (rev (vbody (pd_body d) :: map (view (p_heap s)) bases))).
    { unfold props. rewrite collect_sim, map_rev. simpl. rewrite V1, VB. reflexivity. }
    assert (S0 : osim bases (mkovr (fst hl) (snd hl) props) (mkvovr (vbody (pd_body d)) (mapv (getpo (fst hl)) props))).
    { split; [split; simpl; assumption|]. split; [exact B|]. split; simpl; [exact V1 | reflexivity]. }
    pose proof (osteps_sim bases _ (fst hl) props _ _ S0 (ex_intro _ [] (eq_sym (app_nil_r _))) P B VB) as (_ & _ & DV & PV).
    rewrite PS in DV, PV. apply f_equal2; [exact DV | exact PV].
  - rewrite V1. reflexivity.
Qed.
