(* C09 -- witnesses: the faithful model (and the pinned code, see corpus/C09) violates the property in two ways *)
From Coq Require Import List Arith ZArith Bool.
Import ListNotations.
Require Import FV.Gen.C09 FV.C09.Model.

Definition fl (lo hi : Z) : dt := mkdt 1 (Some lo) (Some hi) 0 [].
Definition par (desc : option Z) (d : option dt) (value mx unit : option Z) : entry :=
  EParam {| s_desc := desc; s_dt := d; s_inherit := true; s_group := None; s_value := value;
            s_min := None; s_max := mx; s_unit := unit |}.
Definition modcls (mro : list nat) (body : list (name * entry)) : op :=
  ODefine {| d_module := true; d_mro := mro; d_dict := body |}.
Definition body_of (o : op) : cdef :=
  match o with ODefine d => d | _ => {| d_module := false; d_mro := []; d_dict := [] |} end.

(* class A: p = Parameter('d1', FloatRange(0, 10), value=1) *)
Definition cA := modcls [0] [(1, par (Some 1%Z) (Some (fl 0 10)) (Some 1%Z) None None)].

(* diamond: Y1(A): p = Parameter(unit='u1');  Y2(A): p = Parameter(description='d4');  Z(Y1, Y2): pass *)
Definition diamond_before : list op :=
  [cA; modcls [1; 0] [(1, par None None None None (Some 1%Z))]; modcls [2; 0] [(1, par (Some 4%Z) None None None None)]].
Definition diamond_Z : cdef := body_of (modcls [3; 1; 2; 0] []).

(* defining Z changes the description of the existing class Y1 (its description becomes that of Y2) *)
Theorem C09_refuted_inplace_merge :
  exists ops d i, let s := run ops in
    i < length (classes s) /\
    describe_class (define s d) (nth i (classes s) cls0) <> describe_class s (nth i (classes s) cls0).
Proof.
  exists diamond_before, diamond_Z, 1. split; [vm_compute; auto|].
  intro H. vm_compute in H. discriminate H.
Qed.

(* B(A): p = Parameter(max=5);  C(B): p = 3;  then D(A): pass.  Defining D changes the limits of the base class A,
   and the description of D depends on whether B and C were defined before *)
Definition leak_before : list op :=
  [cA; modcls [1; 0] [(1, par None None None (Some 5%Z) None)]; modcls [2; 1; 0] [(1, EValue 3%Z)]].
Definition leak_D : cdef := body_of (modcls [3; 0] []).

Theorem C09_refuted_own_datatype :
  exists ops d i, let s := run ops in
    i < length (classes s) /\
    describe_class (define s d) (nth i (classes s) cls0) <> describe_class s (nth i (classes s) cls0).
Proof.
  exists leak_before, leak_D, 0. split; [vm_compute; auto|].
  intro H. vm_compute in H. discriminate H.
Qed.

(* the same class body on the same base gets a different description depending on the classes defined before *)
Theorem C09_refuted_order_dependent :
  exists ops1 ops2 d1 d2,
    describe_class (define (run ops1) d1) (last (classes (define (run ops1) d1)) cls0) <>
    describe_class (define (run ops2) d2) (last (classes (define (run ops2) d2)) cls0)
    /\ d_dict d1 = d_dict d2 /\ ops1 = [cA] /\ d_mro d1 = [1; 0] /\ d_mro d2 = [3; 0].
Proof.
  exists [cA], leak_before, (body_of (modcls [1; 0] [])), leak_D. repeat split.
  intro H. vm_compute in H. discriminate H.
Qed.

(* ---------- command component (CmdModel.v) *)
Require Import FV.C09.CmdModel.

(* class A(Module): calc = Command(StructOf(a=.., b=..))(f) with f(self, a, b);
   class B(A): def calc(self, a, b=1) -- a plain method: B gets a clone whose argument copy has optional = [b];
   class C(B): pass -- the re-merge at the definition of C puts the argument object of A back into the Command of B *)
Definition st_ab : cdt := mkcdt 2 None None [(1%Z, (None, None)); (2%Z, (None, None))] [1%Z; 2%Z].
Definition xA : xop :=
  XDefine {| xd_module := true; xd_mro := [0];
             xd_dict := [(2, XECmd {| x_desc := Some 1%Z; x_sig := Some (Some st_ab, None); x_doc := None; x_defaults := [] |})] |}.
Definition xB : xop := XDefine {| xd_module := true; xd_mro := [1; 0]; xd_dict := [(2, XEFunc None [2%Z])] |}.
Definition xC : xcdef := {| xd_module := true; xd_mro := [2; 1; 0]; xd_dict := [] |}.

Theorem C09_refuted_method_override_reset_by_subclass :
  exists ops d i, let s := xrun ops in
    i < length (xclasses s) /\
    xdescribe_class (xdefine s d) (nth i (xclasses s) xcls0) <> xdescribe_class s (nth i (xclasses s) xcls0).
Proof.
  exists [xA; xB], xC, 1. split; [vm_compute; auto|].
  intro H. vm_compute in H. discriminate H.
Qed.
