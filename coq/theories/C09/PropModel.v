(* C09 -- third component: module level PROPERTIES (frappy/properties.py).
   Heap of class level Property objects (identity = heap index; the fields the code reads or writes: the range of the
   datatype, default, value / UNSET); class table (the property part of the class __dict__: Property object or bare value;
   MRO supplied by CPython as data; propertyDict); instances by value (propertyValues is a new dict per object, it holds
   plain validated values, the descriptors stay on the class).
   Class 0 of the table is frappy.modulebase.Module itself with its own Property objects visibility and slowinterval
   (heap cells 0 and 1); the generated classes follow, a generated class i is entry i + 1.

   frappy                                                             model
   Property.__init__ in a class body (value= optional)                alloc_body (PBNew)
   HasProperties.__init_subclass__, first loop (reversed MRO,         collect, wprops
     every Property found in a __dict__ is remembered under its name)
   second loop: value = getattr(cls, pn, po); a bare value ->         mro_lookup, ostep: ALWAYS a new object
     po = po.copy(); po.value = validate(value); setattr(cls, pn, po);  (set_value on a copy appended to the heap),
     cls.propertyDict[pn] = po                                          put_assoc on the class dict and on propertyDict
   a class that does not inherit HasProperties (plain mixin):         pdefine with pd_module = false (no propertyDict,
     nothing runs, its __dict__ keeps bare values                       the dict stays as written)
   HasProperties.__init__: propertyValues = {}, preset values         preset
   Module.__init__ step 2: configured properties -> setProperty       pconfig (values of the generated configurations
                                                                        are valid for the datatype)
   getattr(instance, pn) = propertyValues.get(pn, po.default)         peff
   HasProperties.setProperty at run time (validate; BadValueError     psetprop
     leaves the dict alone)
   Not modelled: mandatory properties, extname / export, the min.. <= max.. rule of checkProperties, a Parameter
   hiding a Property of the same name, datatypes other than integral ranges. *)
From Coq Require Import List Arith ZArith Bool.
Import ListNotations.
Require Import FV.Base.Util FV.C09.Model.

Record pobj := mkpo { po_lo : Z; po_hi : Z; po_default : Z; po_value : option Z }.
Definition pobj0 := mkpo 0 0 0 None.
Definition getpo (h : list pobj) (i : id) : pobj := nth i h pobj0.
Definition set_value (p : pobj) (v : Z) : pobj := mkpo (po_lo p) (po_hi p) (po_default p) (Some v).
Definition in_range (p : pobj) (v : Z) : bool := Z.leb (po_lo p) v && Z.leb v (po_hi p).

(* an entry of a class __dict__, as far as properties are concerned *)
Inductive pentry := PEProp (i : id) | PEBare (v : Z).
(* what a class body writes *)
Inductive pbody := PBNew (lo hi dflt : Z) (v : option Z) | PBBare (v : Z).

Definition pdict := list (name * pentry).
Record pcls := mkpcls { pc_module : bool; pc_mro : list nat; pc_dict : pdict; pc_pd : list (name * id) }.
Definition pcls0 := mkpcls false [] [] [].
Record pinst := mkpinst { pi_alive : bool; pi_cls : nat; pi_vals : list (name * Z) }.
Definition pdead := mkpinst false 0 [].
Record pstate := mkpstate { p_heap : list pobj; p_classes : list pcls; p_insts : list pinst }.

(* names: 0 gain, 1 level (written by the generated classes), 2 visibility, 3 slowinterval (of Module) *)
Definition module_cls : pcls := mkpcls true [0] [(2, PEProp 0); (3, PEProp 1)] [(2, 0); (3, 1)].
Definition pstate0 : pstate := mkpstate [mkpo 1 3 1 None; mkpo 1 120 15 None] [module_cls] [].

Record pcdef := mkpcdef { pd_module : bool; pd_mro : list nat; pd_body : list (name * pbody) }.

(* the class body is executed: Property(...) creates an object *)
Fixpoint alloc_body (h : list pobj) (b : list (name * pbody)) : list pobj * pdict :=
  match b with
  | [] => (h, [])
  | (k, PBNew lo hi d v) :: r =>
      let hl := alloc_body (h ++ [mkpo lo hi d v]) r in (fst hl, (k, PEProp (length h)) :: snd hl)
  | (k, PBBare v) :: r => let hl := alloc_body h r in (fst hl, (k, PEBare v) :: snd hl)
  end.

(* for key, value in base.__dict__.items(): if isinstance(value, Property): properties[key] = value *)
Definition wentry (acc : list (name * id)) (ke : name * pentry) : list (name * id) :=
  match snd ke with PEProp i => put_assoc (fst ke) i acc | PEBare _ => acc end.
Definition wprops (acc : list (name * id)) (d : pdict) : list (name * id) := fold_left wentry d acc.
(* dicts: base first (reversed MRO) *)
Definition collect (dicts : list pdict) : list (name * id) := fold_left wprops dicts [].

(* getattr(cls, pn): the first __dict__ along the MRO (most derived first) that has the name *)
Fixpoint mro_lookup (k : name) (dicts : list pdict) : option pentry :=
  match dicts with
  | [] => None
  | d :: r => match assoc_nat k d with Some e => Some e | None => mro_lookup k r end
  end.

Record ovr := mkovr { o_heap : list pobj; o_dict : pdict; o_pd : list (name * id) }.

(* one round of the second loop.  The copy is made whatever the inherited Property holds *)
Definition ostep (bases : list pdict) (r : ovr) (kp : name * id) : ovr :=
  match mro_lookup (fst kp) (o_dict r :: bases) with
  | Some (PEBare v) =>
      let n := length (o_heap r) in
      mkovr (o_heap r ++ [set_value (getpo (o_heap r) (snd kp)) v])
            (put_assoc (fst kp) (PEProp n) (o_dict r)) (put_assoc (fst kp) n (o_pd r))
  | _ => r
  end.

Definition base_dicts (cs : list pcls) (mro : list nat) : list pdict :=
  map (fun k => pc_dict (nth k cs pcls0)) (tl mro).

Definition pdefine (s : pstate) (d : pcdef) : pstate :=
  let hl := alloc_body (p_heap s) (pd_body d) in
  let bases := base_dicts (p_classes s) (pd_mro d) in
  if pd_module d then
    let props := collect (rev (snd hl :: bases)) in
    let r := fold_left (ostep bases) props (mkovr (fst hl) (snd hl) props) in
    mkpstate (o_heap r) (p_classes s ++ [mkpcls true (pd_mro d) (o_dict r) (o_pd r)]) (p_insts s)
  else
    mkpstate (fst hl) (p_classes s ++ [mkpcls false (pd_mro d) (snd hl) []]) (p_insts s).

(* ---- instances *)
Definition preset (h : list pobj) (pd : list (name * id)) : list (name * Z) :=
  flat_map (fun kp => match po_value (getpo h (snd kp)) with Some v => [(fst kp, v)] | None => [] end) pd.

(* for key in self.propertyDict: value = cfgdict.pop(key, None); if value is not None: self.setProperty(key, value) *)
Definition pconfig (keys : list name) (vals : list (name * Z)) (cfg : list (name * Z)) : list (name * Z) :=
  fold_left (fun acc kv => if existsb (Nat.eqb (fst kv)) keys then put_assoc (fst kv) (snd kv) acc else acc) cfg vals.

(* what a new instance of a class with this propertyDict content holds: no heap, no other instance *)
Definition pinst_spec (ci : nat) (ok : bool) (desc : list (name * pobj)) (cfg : list (name * Z)) : pinst :=
  if ok then
    mkpinst true ci
      (pconfig (map fst desc)
               (flat_map (fun kp => match po_value (snd kp) with Some v => [(fst kp, v)] | None => [] end) desc) cfg)
  else pdead.

Definition pdescribe (h : list pobj) (c : pcls) : list (name * pobj) :=
  map (fun kp => (fst kp, getpo h (snd kp))) (pc_pd c).
Definition pclass_at (s : pstate) (ci : nat) : pcls := nth ci (p_classes s) pcls0.

Definition pnew_inst (s : pstate) (ci : nat) (ok : bool) (cfg : list (name * Z)) : pinst :=
  if ok then mkpinst true ci (pconfig (map fst (pc_pd (pclass_at s ci))) (preset (p_heap s) (pc_pd (pclass_at s ci))) cfg)
  else pdead.

Definition pinstantiate (s : pstate) (ci : nat) (ok : bool) (cfg : list (name * Z)) : pstate :=
  mkpstate (p_heap s) (p_classes s) (p_insts s ++ [pnew_inst s ci ok cfg]).

Fixpoint set_nth_inst (l : list pinst) (j : nat) (x : pinst) : list pinst :=
  match l, j with
  | [], _ => []
  | _ :: r, O => x :: r
  | y :: r, S j' => y :: set_nth_inst r j' x
  end.

(* inst.setProperty(key, value): propertyValues[key] = propertyDict[key].datatype.validate(value) *)
Definition psetprop (s : pstate) (j : nat) (k : name) (v : Z) : pstate :=
  let x := nth j (p_insts s) pdead in
  if pi_alive x then
    match assoc_nat k (pc_pd (pclass_at s (pi_cls x))) with
    | Some i =>
        if in_range (getpo (p_heap s) i) v
        then mkpstate (p_heap s) (p_classes s) (set_nth_inst (p_insts s) j (mkpinst true (pi_cls x) (put_assoc k v (pi_vals x))))
        else s
    | None => s
    end
  else s.

Inductive pop :=
| PDefine (d : pcdef)
| PInst (ci : nat) (ok : bool) (cfg : list (name * Z))
| PSetProp (j : nat) (k : name) (v : Z)
| PNop.

Definition pstep (s : pstate) (o : pop) : pstate :=
  match o with
  | PDefine d => pdefine s d
  | PInst ci ok cfg => pinstantiate s ci ok cfg
  | PSetProp j k v => psetprop s j k v
  | PNop => s
  end.

Definition prun (ops : list pop) : pstate := fold_left pstep ops pstate0.

Definition paddresses (o : pop) (j : nat) : bool :=
  match o with PSetProp i _ _ => Nat.eqb i j | _ => false end.

(* ---- what is observed *)
(* class: (name, (value or UNSET, default)) in the order of propertyDict *)
Definition pclass_obs (h : list pobj) (c : pcls) : list (name * (option Z * Z)) :=
  map (fun kp => (fst kp, (po_value (getpo h (snd kp)), po_default (getpo h (snd kp))))) (pc_pd c).
(* instance: the effective value getattr(inst, pn) of every property of its class *)
Definition peff (h : list pobj) (x : pinst) (kp : name * id) : name * Z :=
  (fst kp, match assoc_nat (fst kp) (pi_vals x) with Some v => v | None => po_default (getpo h (snd kp)) end).
Definition pinst_obs (s : pstate) (x : pinst) : list (name * Z) :=
  map (peff (p_heap s) x) (pc_pd (pclass_at s (pi_cls x))).
