(* C09 -- vacuity audit: for every theorem of Properties.v that has premises (top level or inside its conjuncts) a
   concrete, non-degenerate instance at which the premises hold, shown by APPLYING the theorem; plus contrast facts
   (something else really changed in the same run), so that the conclusion is not an identity between untouched things.
   No theorem of C09 has a Section hypothesis, an oracle or an environment: the quantified objects are op lists,
   states, class definitions and indices only.  Tests, not theorems. *)
From Coq Require Import List Arith ZArith Bool Lia.
Import ListNotations.
Require Import FV.Gen.C09 FV.C09.Model FV.C09.Lemmas FV.C09.Remerge FV.C09.Refuted.
Require Import FV.C09.CmdModel FV.C09.CmdLemmas FV.C09.CmdFrame.
Require Import FV.C09.PropModel FV.C09.PropLemmas FV.C09.PropChain FV.C09.Properties.

Ltac notin := vm_compute; intuition (try discriminate; try lia).
Ltac lt_c := vm_compute; lia.

(* ================= parameter component ================= *)

(* class E: p = Parameter('d1', FloatRange(0, 10), value=1); mode = Parameter('d2', EnumType(m7=1), value=1) *)
Definition en1 : dt := mkdt 2 None None 0 [(7%Z, 1%Z)].
Definition cE : op :=
  modcls [0] [(1, par (Some 1%Z) (Some (fl 0 10)) (Some 1%Z) None None);
              (3, par (Some 2%Z) (Some en1) (Some 1%Z) None None)].
(* class F(E): p = Parameter(max=5) *)
Definition cF : op := modcls [1; 0] [(1, par None None None (Some 5%Z) None)].

(* two instances of E (the second configured), one rejected instantiation *)
Definition h0 : list op := [cE; OInst 0 []; OInst 0 [(1, [(4, 8%Z)])]; OInst 0 [(2, [(0, 1%Z)])]].
Definition s0 : state := run h0.
(* what happens next: a subclass, an instance of it, property change and enum growth on instance 1, a rejected config *)
Definition later : list op :=
  [cF; OInst 1 []; OSetProp 1 1 4 3%Z; OGrow 1 55%Z; OInst 0 [(2, [(0, 1%Z)])]; OSetProp 4 1 3 1%Z].

Example C09_nv_h0_shape :
  map i_alive (insts s0) = [true; true; false] /\ length (i_acc (nth 0 (insts s0) dead)) = 2 /\
  map i_alive (insts (fold_left step later s0)) = [true; true; false; true; false] /\
  length (classes (fold_left step later s0)) = 2.
Proof. vm_compute. repeat split. Qed.

(* (1) premises: j < length (insts s), no op of the continuation addresses j *)
Example C09_instances_isolated_applies :
  nth 0 (insts (fold_left step later s0)) dead = nth 0 (insts s0) dead.
Proof. apply C09_instances_isolated; [lt_c | vm_compute; reflexivity]. Qed.

(* contrast: the addressed instance 1 did change (limit and enum members), so the run is not the identity *)
Example C09_instances_isolated_contrast :
  nth 1 (insts (fold_left step later s0)) dead <> nth 1 (insts s0) dead.
Proof. intro H. vm_compute in H. discriminate H. Qed.

(* (2), (3) premise: the continuation consists of instance ops *)
Definition inst_ops : list op :=
  [OInst 0 []; OSetProp 1 1 4 3%Z; OGrow 1 55%Z; OInst 0 [(2, [(0, 1%Z)])]; OSetProp 0 3 0 9%Z].

Example C09_classes_unaffected_applies :
  describe_class (fold_left step inst_ops s0) (nth 0 (classes s0) cls0) = describe_class s0 (nth 0 (classes s0) cls0)
  /\ length (describe_class s0 (nth 0 (classes s0) cls0)) = 2
  /\ insts (fold_left step inst_ops s0) <> insts s0.
Proof.
  split; [apply C09_classes_unaffected_by_instances; vm_compute; reflexivity|].
  split; [vm_compute; reflexivity|]. intro H. vm_compute in H. discriminate H.
Qed.

Example C09_later_instances_applies :
  new_inst (fold_left step inst_ops s0) 0 [(1, [(4, 8%Z)])] = new_inst s0 0 [(1, [(4, 8%Z)])]
  /\ i_alive (new_inst s0 0 [(1, [(4, 8%Z)])]) = true.
Proof. split; [apply C09_later_instances_unaffected; vm_compute; reflexivity | vm_compute; reflexivity]. Qed.

(* (4) premise: ci < length (classes s) *)
Example C09_instance_function_applies :
  new_inst s0 0 [(1, [(4, 8%Z)])] =
  inst_spec (c_module (nth 0 (classes s0) cls0)) (describe_full s0 (nth 0 (classes s0) cls0)) [(1, [(4, 8%Z)])].
Proof. apply C09_instance_function_of_class_and_config. lt_c. Qed.

(* (5) inner premises: i < length (params s), i outside the footprint (and the same for datatype objects).
   Diamond of Refuted.v: three Parameter objects, four datatype objects, the definition of Z re-merges object 1 only *)
Definition sD : state := run diamond_before.

Example C09_define_footprint_applies :
  footprint sD diamond_Z = ([1], []) /\ length (params sD) = 3 /\ length (dts sD) = 4 /\
  getp (params (define sD diamond_Z)) 0 = getp (params sD) 0 /\
  getp (params (define sD diamond_Z)) 2 = getp (params sD) 2 /\
  getd (dts (define sD diamond_Z)) 2 = getd (dts sD) 2 /\
  getp (params (define sD diamond_Z)) 1 <> getp (params sD) 1.
Proof.
  destruct (C09_define_footprint sD diamond_Z) as (A & B & _ & _).
  split; [vm_compute; reflexivity|]. split; [vm_compute; reflexivity|]. split; [vm_compute; reflexivity|].
  split; [apply A; [lt_c | notin]|]. split; [apply A; [lt_c | notin]|]. split; [apply B; [lt_c | notin]|].
  intro H. vm_compute in H. discriminate H.
Qed.

Ltac nv_cases H :=
  vm_compute in H;
  repeat match type of H with
         | _ \/ _ => destruct H as [H|H]
         | False => contradiction
         end.
Ltac nv_acc_ok := split; [lt_c | intros j E; vm_compute in E; injection E as E; subst j; lt_c].
Ltac nv_stable := split; [intros dd E; vm_compute in E; injection E as E; subst dd; lt_c | vm_compute; reflexivity].

(* (6) premise (input side only): every accessible of c is in range and either untouched, or the definition writes to
   no datatype object in place and every merge of the object in the ghost log is a re-merge (stable_remerge in s).
   (a) left disjunct, with a non-empty footprint: Y2 and A are untouched by the definition of Z *)
Example C09_define_frame_applies_untouched :
  describe_class (define sD diamond_Z) (nth 2 (classes sD) cls0) = describe_class sD (nth 2 (classes sD) cls0) /\
  describe_class sD (nth 2 (classes sD) cls0) <> [].
Proof.
  split.
  - apply C09_define_frame_except_inplace_writes. intros k i H. nv_cases H.
    injection H as Hk Hi. subst k i. split; [nv_acc_ok|].
    left. split; [notin|]. intros j E. vm_compute in E. injection E as E. subst j. notin.
  - intro H. vm_compute in H. discriminate H.
Qed.

(* (b) right disjunct: `class D(A): pass` re-merges the object of A (footprint [0], log [(0, own properties of A.p)])
   and the content of A.p in the state BEFORE the definition is a fixed point of that merge *)
Definition sA : state := run [cA].
Definition dPass : cdef := body_of (modcls [1; 0] []).

Example C09_define_frame_applies_remerged :
  describe_class (define sA dPass) (nth 0 (classes sA) cls0) = describe_class sA (nth 0 (classes sA) cls0) /\
  fst (footprint sA dPass) = [0] /\ c_acc (nth 0 (classes sA) cls0) = [(1, 0)] /\ map fst (merge_log sA dPass) = [0].
Proof.
  split; [|vm_compute; repeat split; reflexivity].
  apply C09_define_frame_except_inplace_writes. intros k i H. nv_cases H.
  injection H as Hk Hi. subst k i. split; [nv_acc_ok|].
  right. split; [vm_compute; reflexivity|]. intros M H. nv_cases H. injection H as HM. subst M. nv_stable.
Qed.

(* (c) both disjuncts in one application: F(E): p = Parameter(max=5) overrides p by an own object and inherits mode
   without overriding it.  c = E: its object 0 (p) is untouched, its object 1 (mode) is re-merged (footprint [1; 2]) *)
Definition sE : state := run [cE].
Definition cG : op := modcls [1; 0] [(1, par None None None (Some 5%Z) None); (3, EValue 1%Z)].

Example C09_define_frame_applies_inherited :
  describe_class (define sE (body_of cF)) (nth 0 (classes sE) cls0) = describe_class sE (nth 0 (classes sE) cls0) /\
  fst (footprint sE (body_of cF)) = [1; 2] /\ length (params sE) = 2 /\ c_acc (nth 0 (classes sE) cls0) = [(1, 0); (3, 1)].
Proof.
  split; [|vm_compute; repeat split; reflexivity].
  apply C09_define_frame_except_inplace_writes. intros k i H. nv_cases H; injection H as Hk Hi; subst k i.
  - split; [nv_acc_ok|]. left. split; [notin|]. intros j E. vm_compute in E. injection E as E. subst j. notin.
  - split; [nv_acc_ok|]. right. split; [vm_compute; reflexivity|].
    intros M H. nv_cases H; [exfalso; injection H; intros; lia | injection H as HM; subst M; nv_stable].
Qed.

(* (d) the premise is a real restriction: for the class changed by each of the two findings it fails (and only its
   stable_remerge part fails: C09_guard_exact_diamond, C09_guard_exact_leak in Properties.v) *)
Example C09_nv_premise_fails_on_findings :
  (exists M, In (1, M) (merge_log sD diamond_Z) /\ ~ stable_remerge sD 1 M) /\
  (exists M, In (0, M) (merge_log (run leak_before) leak_D) /\ ~ stable_remerge (run leak_before) 0 M).
Proof.
  split; eexists; (split; [vm_compute; left; reflexivity|]); intros [_ H]; vm_compute in H; discriminate H.
Qed.

(* (7) premises: no datatype object written in place; every merge of an EXISTING object in the log is a re-merge; the
   accessibles of c are in range.  Not narrow any more: F(E) above (inherits mode without overriding it) satisfies them,
   and so does G(E): p = Parameter(max=5); mode = 1, which merges its own new object only (second premise empty).
   The conclusion is for every class, here c = E with its two accessibles; the new class differs from E *)
Example C09_define_frame_self_contained_applies :
  describe_class (define sE (body_of cF)) (nth 0 (classes sE) cls0) = describe_class sE (nth 0 (classes sE) cls0) /\
  describe_class (define sE (body_of cG)) (nth 0 (classes sE) cls0) = describe_class sE (nth 0 (classes sE) cls0) /\
  fst (footprint sE (body_of cF)) = [1; 2] /\ fst (footprint sE (body_of cG)) = [2] /\
  length (c_acc (nth 0 (classes sE) cls0)) = 2 /\
  describe_class (define sE (body_of cF)) (last (classes (define sE (body_of cF))) cls0) <>
  describe_class sE (nth 0 (classes sE) cls0).
Proof.
  assert (OK : forall k i, In (k, i) (c_acc (nth 0 (classes sE) cls0)) -> acc_ok sE i).
  { intros k i H. nv_cases H; injection H as Hk Hi; subst k i; nv_acc_ok. }
  split; [|split; [|split; [|split; [|split]]]]; [ | | vm_compute; reflexivity | vm_compute; reflexivity | vm_compute; reflexivity | ].
  - apply C09_define_frame_self_contained; [vm_compute; reflexivity | | exact OK].
    intros i M H L. nv_cases H; injection H as Hi HM; subst i M; first [vm_compute in L; lia | nv_stable].
  - apply C09_define_frame_self_contained; [vm_compute; reflexivity | | exact OK].
    intros i M H L. nv_cases H; injection H as Hi HM; subst i M. vm_compute in L. lia.
  - intro H. vm_compute in H. discriminate H.
Qed.

(* a definition with a non-empty datatype footprint: C(B): p = 3 on B(A): p = Parameter(max=5) *)
Definition sL2 : state := run [cA; modcls [1; 0] [(1, par None None None (Some 5%Z) None)]].
Definition dC : cdef := body_of (modcls [2; 1; 0] [(1, EValue 3%Z)]).

(* the datatype half of the footprint can be non-empty (so the first premise of (7) is a real restriction) *)
Example C09_nv_datatype_footprint : snd (footprint sL2 dC) <> [].
Proof. intro H. vm_compute in H. discriminate H. Qed.

(* (5) once more, at this definition: footprint ([], [0]); datatype objects 1 and 2 keep their content, object 0 (the
   datatype of the base class A) is written *)
Example C09_define_footprint_applies_datatypes :
  footprint sL2 dC = ([], [0]) /\ length (dts sL2) = 3 /\
  getd (dts (define sL2 dC)) 1 = getd (dts sL2) 1 /\ getd (dts (define sL2 dC)) 2 = getd (dts sL2) 2 /\
  getp (params (define sL2 dC)) 1 = getp (params sL2) 1 /\
  getd (dts (define sL2 dC)) 0 <> getd (dts sL2) 0.
Proof.
  destruct (C09_define_footprint sL2 dC) as (A & B & _ & _).
  split; [vm_compute; reflexivity|]. split; [vm_compute; reflexivity|].
  split; [apply B; [lt_c | notin]|]. split; [apply B; [lt_c | notin]|]. split; [apply A; [lt_c | notin]|].
  intro H. vm_compute in H. discriminate H.
Qed.

(* ================= command / mixin component ================= *)

(* A with a struct argument, B(A) overriding by a plain method, two instances of A and one of B, inputs registered *)
Definition xh0 : list xop :=
  [xA; xB; XInst 0 true []; XInst 0 true [(2, 9%Z)]; XInst 1 true []; XInst 0 false []; XRegister 1 1002%Z].
Definition xs0 : xstate := xrun xh0.
Definition xlater : list xop :=
  [XSetArg 0 2 false (Some 2%Z) 4 5%Z; XRegister 0 1001%Z; XDefine xC; XInst 2 true []; XRegister 2 1003%Z; XNop;
   XSetArg 2 2 false (Some 1%Z) 3 1%Z].

Example C09_nv_xh0_shape :
  map xi_alive (xinsts xs0) = [true; true; true; false] /\
  map xowned (xinsts xs0) = [[2]; [3]; [4]; []] /\ class_refs (xcells xs0) = [0; 0; 1] /\
  map xi_cb (xinsts xs0) = [None; Some 0; None; None].
Proof. vm_compute. repeat split. Qed.

(* (8) inner premises: x owned by instance i; i <> j; j < length (xdts s) *)
Example C09_command_datatypes_isolated_applies :
  (3 < length (xdts xs0) /\ ~ In 3 (class_refs (xcells xs0))) /\
  ~ In 3 (xowned (inst_at xs0 2)) /\
  getcd (xdts (xdefine xs0 xC)) 1 = getcd (xdts xs0) 1.
Proof.
  pose proof (C09_command_datatypes_isolated xh0) as H. cbv zeta in H. destruct H as (A & B & C).
  split; [apply (A 1 3); vm_compute; auto|]. split; [apply (B 1 2 3); [discriminate | vm_compute; auto]|].
  apply C. lt_c.
Qed.

(* (9) premises: j < length (xinsts s), no op of the continuation addresses j *)
Example C09_command_instances_isolated_applies :
  inst_at (fold_left xstep xlater xs0) 1 = inst_at xs0 1 /\
  xdescribe_inst (fold_left xstep xlater xs0) (inst_at xs0 1) = xdescribe_inst xs0 (inst_at xs0 1).
Proof.
  apply (C09_command_instances_isolated xh0 xlater 1); [lt_c | vm_compute; reflexivity].
Qed.

Example C09_command_instances_isolated_contrast :
  xdescribe_inst xs0 (inst_at xs0 1) <> ([], []) /\ fst (xdescribe_inst xs0 (inst_at xs0 1)) <> [] /\
  xdescribe_inst (fold_left xstep xlater xs0) (inst_at xs0 0) <> xdescribe_inst xs0 (inst_at xs0 0) /\
  xdescribe_inst (fold_left xstep xlater xs0) (inst_at xs0 2) <> xdescribe_inst xs0 (inst_at xs0 2).
Proof. repeat split; intro H; vm_compute in H; discriminate H. Qed.

(* (10), (11) premise: the continuation consists of instance ops *)
Definition xinst_ops : list xop :=
  [XSetArg 0 2 false (Some 2%Z) 4 5%Z; XRegister 0 1001%Z; XInst 1 true []; XRegister 2 1003%Z; XNop; XInst 0 false []].

Example C09_command_classes_unaffected_applies :
  (xdescribe_class (fold_left xstep xinst_ops xs0) (nth 1 (xclasses xs0) xcls0) =
   xdescribe_class xs0 (nth 1 (xclasses xs0) xcls0) /\
   xcls_inputs (fold_left xstep xinst_ops xs0) = xcls_inputs xs0) /\
  xdescribe_class xs0 (nth 1 (xclasses xs0) xcls0) <> [] /\
  xdts (fold_left xstep xinst_ops xs0) <> xdts xs0.
Proof.
  split; [apply (C09_command_classes_unaffected_by_instances xh0 xinst_ops); vm_compute; reflexivity|].
  split; intro H; vm_compute in H; discriminate H.
Qed.

Example C09_command_later_instances_applies :
  let t := fold_left xstep xinst_ops xs0 in
  xdescribe_inst (xinstantiate t 1 true [(2, 9%Z)]) (inst_at (xinstantiate t 1 true [(2, 9%Z)]) (length (xinsts t))) =
  xdescribe_inst (xinstantiate xs0 1 true [(2, 9%Z)]) (inst_at (xinstantiate xs0 1 true [(2, 9%Z)]) (length (xinsts xs0))).
Proof.
  apply (C09_command_later_instances_unaffected xh0 xinst_ops 1 [(2, 9%Z)]). vm_compute. reflexivity.
Qed.

Example C09_command_later_instances_contrast :
  fst (xdescribe_inst (xinstantiate xs0 1 true [(2, 9%Z)])
         (inst_at (xinstantiate xs0 1 true [(2, 9%Z)]) (length (xinsts xs0)))) <> [].
Proof. intro H. vm_compute in H. discriminate H. Qed.

(* (12) premise: no Command object of c is re-merged in place.  `class C2(A): pass` re-merges the object of A
   (footprint [0]); c = B has its own clone *)
Definition xC2 : xcdef := {| xd_module := true; xd_mro := [2; 0]; xd_dict := [] |}.
Definition xs2 : xstate := xrun [xA; xB].

Example C09_command_define_frame_applies :
  xdescribe_class (xdefine xs2 xC2) (nth 1 (xclasses xs2) xcls0) = xdescribe_class xs2 (nth 1 (xclasses xs2) xcls0) /\
  xfootprint xs2 xC2 = [0] /\ xc_acc (nth 1 (xclasses xs2) xcls0) = [(2, 1)].
Proof.
  split; [|vm_compute; split; reflexivity].
  apply (C09_command_define_frame_except_inplace_merge [xA; xB] xC2).
  intros k i H. vm_compute in H. destruct H as [H|[]]. injection H as Hk Hi. subst k i. split; [lt_c | notin].
Qed.

(* the definition of B in the state with A only: nothing is merged in place, c = A *)
Example C09_command_define_frame_applies_override :
  xdescribe_class (xdefine (xrun [xA]) (match xB with XDefine d => d | _ => xC end)) (nth 0 (xclasses (xrun [xA])) xcls0) =
  xdescribe_class (xrun [xA]) (nth 0 (xclasses (xrun [xA])) xcls0).
Proof.
  apply (C09_command_define_frame_except_inplace_merge [xA]).
  intros k i H. vm_compute in H. destruct H as [H|[]]. injection H as Hk Hi. subst k i. split; [lt_c | notin].
Qed.

(* (13) inner premises: the instance has a dict of its own; i <> j; j < length (xinsts s), continuation not addressed to j *)
Example C09_mixin_state_isolated_applies :
  let s := fold_left xstep xlater xs0 in
  (0 < length (xcbs xs0) /\ xclscb xs0 <> Some 0) /\
  xi_cb (inst_at xs0 0) <> Some 0 /\
  xinputs s (inst_at s 1) = xinputs xs0 (inst_at xs0 1) /\
  xinputs xs0 (inst_at xs0 1) = [1002%Z] /\
  map (fun i => xinputs s (inst_at s i)) [0; 1; 2; 3; 4] = [[1001%Z]; [1002%Z]; [1003%Z]; []; []].
Proof.
  pose proof (C09_mixin_state_isolated xh0) as H. cbv zeta in H. destruct H as (A & B & _ & _ & E).
  cbv zeta. split; [apply (A 1 0); vm_compute; reflexivity|].
  split; [apply (B 1 0 0); [discriminate | vm_compute; reflexivity]|].
  split; [apply (E xlater 1); [lt_c | vm_compute; reflexivity]|].
  split; vm_compute; reflexivity.
Qed.

(* ================= module property component ================= *)

Definition ph1 : list pop :=
  [PDefine (mkpcdef true [1; 0] [(0, PBNew 1 1000 1 None)]);
   PDefine (mkpcdef true [2; 1; 0] [(0, PBBare 10)]);
   PInst 2 true []; PInst 2 true [(0, 7%Z)]].
Definition ph2 : list pop :=
  [PDefine (mkpcdef true [3; 2; 1; 0] [(0, PBBare 100)]);
   PDefine (mkpcdef false [4] [(0, PBBare 999)]);
   PDefine (mkpcdef true [5; 4; 2; 1; 0] []);
   PInst 3 true []; PInst 5 true [(0, 7%Z)]; PSetProp 1 0 8%Z; PInst 2 false []; PNop].

(* inner premises: c a class of s2 and (k, i) in its propertyDict / __dict__; ci < length (p_classes s1);
   j < length (p_insts s1), ops2 not addressed to j *)
Example C09_properties_isolated_applies :
  let s1 := prun ph1 in
  let s2 := prun (ph1 ++ ph2) in
  5 < length (p_heap s2) /\
  (pclass_at s2 2 = pclass_at s1 2 /\ pdescribe (p_heap s2) (pclass_at s2 2) = pdescribe (p_heap s1) (pclass_at s1 2)) /\
  (pnew_inst s2 2 true [(0, 7%Z)] = pnew_inst s1 2 true [(0, 7%Z)] /\
   pnew_inst s2 2 true [(0, 7%Z)] = pinst_spec 2 true (pdescribe (p_heap s1) (pclass_at s1 2)) [(0, 7%Z)]) /\
  nth 0 (p_insts s2) pdead = nth 0 (p_insts s1) pdead.
Proof.
  pose proof (C09_properties_isolated ph1 ph2) as H. cbv zeta in H. destruct H as (A & B & C & D). cbv zeta.
  split.
  - apply (A (pclass_at (prun (ph1 ++ ph2)) 5) 0 5); [vm_compute; auto 10 | left; vm_compute; auto 10].
  - split; [apply B; lt_c|]. split; [apply C; lt_c|]. apply D; [lt_c | vm_compute; reflexivity].
Qed.

Example C09_properties_isolated_contrast :
  let s1 := prun ph1 in
  let s2 := prun (ph1 ++ ph2) in
  length (p_heap s1) = 4 /\ length (p_heap s2) = 6 /\ length (p_classes s1) = 3 /\ length (p_classes s2) = 6 /\
  pdescribe (p_heap s1) (pclass_at s1 2) = [(2, mkpo 1 3 1 None); (3, mkpo 1 120 15 None); (0, mkpo 1 1000 1 (Some 10%Z))] /\
  pi_alive (nth 0 (p_insts s1) pdead) = true /\
  nth 1 (p_insts s2) pdead <> nth 1 (p_insts s1) pdead.
Proof.
  cbv zeta. repeat split; try (vm_compute; reflexivity). intro H. vm_compute in H. discriminate H.
Qed.

(* chain theorem; premises: same kind of class, same body, same views of the __dict__s along the MRO -- in two worlds
   that differ in a sibling with bare values and an instance, with different MRO indices *)
Definition pbase : pop := PDefine (mkpcdef true [1; 0] [(0, PBNew 1 1000 1 None)]).
Definition pw : list pop := [pbase].
Definition pw' : list pop :=
  [pbase; PDefine (mkpcdef true [2; 1; 0] [(0, PBBare 100); (3, PBBare 60)]); PInst 2 true [(0, 7%Z)]].
Definition pdA : pcdef := mkpcdef true [2; 1; 0] [(0, PBBare 10); (3, PBBare 30)].
Definition pdA' : pcdef := mkpcdef true [3; 1; 0] [(0, PBBare 10); (3, PBBare 30)].

Example C09_property_chain_applies :
  pdescribe (p_heap (pdefine (prun pw) pdA)) (last (p_classes (pdefine (prun pw) pdA)) pcls0) =
  pdescribe (p_heap (pdefine (prun pw') pdA')) (last (p_classes (pdefine (prun pw') pdA')) pcls0) /\
  pdescribe (p_heap (pdefine (prun pw') pdA')) (last (p_classes (pdefine (prun pw') pdA')) pcls0) =
    [(2, mkpo 1 3 1 None); (3, mkpo 1 120 15 (Some 30%Z)); (0, mkpo 1 1000 1 (Some 10%Z))] /\
  pc_pd (last (p_classes (pdefine (prun pw) pdA)) pcls0) <> pc_pd (last (p_classes (pdefine (prun pw') pdA')) pcls0).
Proof.
  pose proof (C09_property_description_function_of_chain pw pw' pdA pdA') as H. cbv zeta in H.
  assert (V : map (view (p_heap (prun pw))) (base_dicts (p_classes (prun pw)) (pd_mro pdA)) =
              map (view (p_heap (prun pw'))) (base_dicts (p_classes (prun pw')) (pd_mro pdA'))) by (vm_compute; reflexivity).
  destruct (H eq_refl eq_refl V) as (_ & P & _).
  split; [exact P|]. split; [vm_compute; reflexivity|]. intro E. vm_compute in E. discriminate E.
Qed.

(* ---------- observation on (13): in the model NO op writes the field xclscb (the class attribute
   HasControlledBy.inputCallbacks), so it is None in every reachable state.  The conjuncts `xclscb s <> Some d` and
   `xcls_inputs s = []` of C09_mixin_state_isolated therefore hold by construction of the model (their content is the
   source facts mixins_no_mutable_class_attribute / register_input_creates_instance_dict_first and the correspondence
   run), not by the induction over histories *)
Lemma C09_nv_xclscb_step : forall s o, xclscb (xstep s o) = xclscb s.
Proof.
  intros s [d|ci ok cfg|i k res path key v|i m|]; simpl; auto.
  - unfold xinstantiate. destruct ok; [destruct (fold_left _ _ _)|]; reflexivity.
  - unfold xsetarg. destruct (lookup k _) as [c|]; auto. destruct (if res then ic_res c else ic_arg c); reflexivity.
  - unfold xregister. destruct (Nat.ltb i _); auto. destruct (match cb_of s _ with Some _ => _ | None => _ end). reflexivity.
Qed.

Lemma C09_nv_class_attribute_never_set : forall ops, xclscb (xrun ops) = None.
Proof.
  intros ops. unfold xrun. change None with (xclscb xstate0). generalize xstate0.
  induction ops as [|o ops IH]; simpl; intros s; auto. rewrite IH. apply C09_nv_xclscb_step.
Qed.
