(* C09 -- executable model, second component: Command objects with their argument / result datatype objects, and the
   mixin state of frappy/mixins.py (HasControlledBy.inputCallbacks).
     Command.__init__ / __call__ (optional struct members, description from the doc string), updateProperties,
     create_from_value / clone (argument and result are copied), merge (in place, NO copy of argument / result),
     Accessible.copy in Module.__init__ (per instance copies), a run-time change of a datatype property of the
     argument / result of ONE instance, HasControlledBy.register_input (the per instance dict is created before the
     first write).
   Everything that can be written in place is a heap cell (identity = index): class level Command objects, argument /
   result datatype objects of classes AND of instances, callback dicts.  Instances hold ids into the same heap of
   datatype objects as the classes, so sharing between an instance and a class or another instance is expressible;
   that it never arises is the theorem (CmdLemmas.v).  The parameter component is Model.v; a program is run through
   both components in lockstep (Run.v).  No proofs in this file. *)
From Coq Require Import List Arith ZArith Bool.
Import ListNotations.
Require Import FV.C09.Model.

(* ---------- argument / result datatypes: kind 1 = FloatRange(lo, hi), 2 = StructOf(members (name, lo, hi), optional) *)
Record cdt := mkcdt { ck : nat; clo : option Z; chi : option Z; cmem : list (Z * (option Z * option Z)); copt : list Z }.
Definition cdt0 : cdt := mkcdt 0 None None [] [].

(* property keys as in Model.v: 3 = min, 4 = max *)
Definition lim_set (l : option Z * option Z) (key : nat) (v : Z) : option Z * option Z :=
  match key with 3 => (Some v, snd l) | 4 => (fst l, Some v) | _ => l end.

(* setProperty on the datatype itself (path None, FloatRange) or on one member of a struct (path Some m) *)
Definition cdt_set (d : cdt) (path : option Z) (key : nat) (v : Z) : cdt :=
  match path, ck d with
  | None, 1 => let l := lim_set (clo d, chi d) key v in mkcdt 1 (fst l) (snd l) (cmem d) (copt d)
  | Some m, 2 => mkcdt 2 (clo d) (chi d)
                   (map (fun e => if Z.eqb (fst e) m then (fst e, lim_set (snd e) key v) else e) (cmem d)) (copt d)
  | _, _ => d
  end.

(* Command.__call__: argument.optional = [parameters with a default] when the argument is a StructOf *)
Definition with_opt (d : cdt) (defs : list Z) : cdt :=
  match ck d with 2 => mkcdt 2 (clo d) (chi d) (cmem d) defs | _ => d end.

(* ---------- property dicts of a Command object: a key is absent (None) or present; argument / result may be None *)
Record cprops := { q_desc : option Z; q_arg : option (option id); q_res : option (option id) }.
Definition q_empty : cprops := {| q_desc := None; q_arg := None; q_res := None |}.
(* dict.update / init(properties): the keys of o win *)
Definition q_update (m o : cprops) : cprops :=
  {| q_desc := ov (q_desc m) (q_desc o); q_arg := ov (q_arg m) (q_arg o); q_res := ov (q_res m) (q_res o) |}.
Definition q_set_desc (p : cprops) (z : option Z) : cprops := {| q_desc := z; q_arg := q_arg p; q_res := q_res p |}.

Record ccell := { cv : cprops; cown : cprops }.       (* propertyValues, ownProperties *)
Definition ccell0 : ccell := {| cv := q_empty; cown := q_empty |}.

Definition xheap := (list ccell * list cdt)%type.
Definition getc (cs : list ccell) (i : id) : ccell := nth i cs ccell0.
Definition getcd (ds : list cdt) (i : id) : cdt := nth i ds cdt0.

Definition xalloc_dt (h : xheap) (d : cdt) : xheap * id := ((fst h, snd h ++ [d]), length (snd h)).
Definition xset_dt (h : xheap) (i : id) (d : cdt) : xheap := (fst h, set_nth (snd h) i d).
Definition xalloc_cell (h : xheap) (c : ccell) : xheap * id := ((fst h ++ [c], snd h), length (fst h)).
Definition xset_cell (h : xheap) (i : id) (c : ccell) : xheap := (set_nth (fst h) i c, snd h).

(* a datatype written in the class body *)
Definition xalloc_opt (h : xheap) (o : option cdt) : xheap * option id :=
  match o with Some d => let '(h', i) := xalloc_dt h d in (h', Some i) | None => (h, None) end.

(* datatype.copy(): a new object with the same content; None / absent stays *)
Definition xcopy_opt (h : xheap) (o : option (option id)) : xheap * option (option id) :=
  match o with
  | Some (Some a) => let '(h', i) := xalloc_dt h (getcd (snd h) a) in (h', Some (Some i))
  | _ => (h, o)
  end.

(* ---------- class bodies *)
(* Command(argument, result=..., description=...)(func): x_sig = None when neither argument nor result is given *)
Record cspec := { x_desc : option Z; x_sig : option (option cdt * option cdt); x_doc : option Z; x_defaults : list Z }.
Inductive xentry := XECmd (s : cspec) | XEFunc (doc : option Z) (defs : list Z) | XENone.
Inductive xdentry := XDCmd (i : id) | XDFunc (doc : option Z) (defs : list Z) | XDNone.

Record xcdef := { xd_module : bool; xd_mro : list nat; xd_dict : list (name * xentry) }.
Record xcls := { xc_module : bool; xc_mro : list nat; xc_dict : list (name * xdentry); xc_acc : list (name * id) }.
Definition xcls0 : xcls := {| xc_module := false; xc_mro := []; xc_dict := []; xc_acc := [] |}.

(* Command.__call__(func) on Command object c: the WRITE to its argument object, then the description from the doc *)
Definition call_write (h : xheap) (c : id) (defs : list Z) : xheap :=
  match q_arg (cv (getc (fst h) c)) with
  | Some (Some a) => xset_dt h a (with_opt (getcd (snd h) a) defs)
  | _ => h
  end.
Definition call_desc (h : xheap) (c : id) (doc : option Z) : xheap :=
  let cell := getc (fst h) c in
  match q_desc (cown cell), doc with
  | None, Some z => xset_cell h c {| cv := q_set_desc (cv cell) (Some z); cown := q_set_desc (cown cell) (Some z) |}
  | _, _ => h
  end.

(* one Command(...)(func) in a class body: new datatype objects, one new Command object, then __call__ *)
Definition new_cmd (h : xheap) (s : cspec) : xheap * id :=
  let '(h2, a, r) :=
    match x_sig s with
    | Some (a, r) => let '(h1, ai) := xalloc_opt h a in let '(h2, ri) := xalloc_opt h1 r in (h2, Some ai, Some ri)
    | None => (h, None, None)
    end in
  let p := {| q_desc := x_desc s; q_arg := a; q_res := r |} in
  let '(h3, c) := xalloc_cell h2 {| cv := p; cown := p |} in
  (call_desc (call_write h3 c (x_defaults s)) c (x_doc s), c).

Definition xnew_entry (hd : xheap * list (name * xdentry)) (ne : name * xentry) : xheap * list (name * xdentry) :=
  let '(h, d) := hd in
  match snd ne with
  | XECmd s => let '(h', i) := new_cmd h s in (h', d ++ [(fst ne, XDCmd i)])
  | XEFunc doc defs => (h, d ++ [(fst ne, XDFunc doc defs)])
  | XENone => (h, d ++ [(fst ne, XDNone)])
  end.

(* ---------- first loop of __init_subclass__ for one name *)
Record xwstate := { xw_acc : option id; xw_M : cprops; xw_ov : option (option (option Z * list Z)) }.
Definition xw0 : xwstate := {| xw_acc := None; xw_M := q_empty; xw_ov := None |}.

Definition xwstep (cs : list ccell) (w : xwstate) (e : xdentry) : xwstate :=
  match e with
  | XDCmd i => {| xw_acc := Some i; xw_M := q_update (xw_M w) (cown (getc cs i)); xw_ov := None |}
  | XDFunc doc defs => match xw_acc w with
                       | Some _ => {| xw_acc := xw_acc w; xw_M := xw_M w; xw_ov := Some (Some (doc, defs)) |}
                       | None => w end
  | XDNone => match xw_acc w with
              | Some _ => {| xw_acc := xw_acc w; xw_M := xw_M w; xw_ov := Some None |}
              | None => w end
  end.

Definition xchain (cs : list xcls) (mro : list nat) (k : name) : list xdentry :=
  flat_map (fun b => match lookup k (xc_dict (nth b cs xcls0)) with Some e => [e] | None => [] end) (rev mro).

Definition xwalk (cells : list ccell) (cs : list xcls) (mro : list nat) (k : name) : xwstate :=
  fold_left (xwstep cells) (xchain cs mro k) xw0.

(* Command.clone(properties): a new Command object, argument and result COPIED (fresh objects) *)
Definition clone_cmd (h : xheap) (M : cprops) : xheap * id :=
  let '(h1, a) := xcopy_opt h (q_arg M) in
  let '(h2, r) := xcopy_opt h1 (q_res M) in
  xalloc_cell h2 {| cv := {| q_desc := q_desc M; q_arg := a; q_res := r |}; cown := q_empty |}.

(* Command.create_from_value: clone(properties)(func) *)
Definition create_from_func (h : xheap) (M : cprops) (doc : option Z) (defs : list Z) : xheap * id :=
  let '(h1, c) := clone_cmd h M in
  (call_desc (call_write h1 c defs) c doc, c).

(* Command.merge: init(merged_properties) on the object itself -- argument / result are NOT copied *)
Definition merge_cmd (h : xheap) (w : id) (M : cprops) : xheap :=
  let cell := getc (fst h) w in
  xset_cell h w {| cv := q_update (cv cell) M; cown := cown cell |}.

Record xdres := { xr_heap : xheap; xr_acc : list (name * id); xr_dict : list (name * xdentry);
                  xr_wc : list id }.      (* ghost: existing Command objects merged in place *)

Definition xresolve_name (cs : list xcls) (mro : list nat) (r : xdres) (k : name) : xdres :=
  let w := xwalk (fst (xr_heap r)) cs mro k in
  match xw_acc w with
  | None => r
  | Some wid =>
      match xw_ov w with
      | Some None => r
      | Some (Some (doc, defs)) =>
          let '(h', n) := create_from_func (xr_heap r) (xw_M w) doc defs in
          {| xr_heap := h'; xr_acc := xr_acc r ++ [(k, n)]; xr_dict := put_assoc k (XDCmd n) (xr_dict r);
             xr_wc := xr_wc r |}
      | None =>
          {| xr_heap := merge_cmd (xr_heap r) wid (xw_M w); xr_acc := xr_acc r ++ [(k, wid)]; xr_dict := xr_dict r;
             xr_wc := wid :: xr_wc r |}
      end
  end.

Definition cmd_names : list name := [0; 1; 2].

(* ---------- instances: their Command objects are private values, their datatype objects are heap cells *)
Record icmd := { ic_desc : option Z; ic_arg : option id; ic_res : option id }.
Record xinst := { xi_alive : bool; xi_cmds : list (name * icmd); xi_cb : option id }.
Definition xdead : xinst := {| xi_alive := false; xi_cmds := []; xi_cb := None |}.

(* callback dicts (keys only) are heap cells; xclscb is the class attribute HasControlledBy.inputCallbacks:
   None = the immutable empty tuple of the pinned code *)
Record xstate := { xcells : list ccell; xdts : list cdt; xclasses : list xcls; xinsts : list xinst;
                   xcbs : list (list Z); xclscb : option id }.
Definition xstate0 : xstate :=
  {| xcells := []; xdts := []; xclasses := []; xinsts := []; xcbs := []; xclscb := None |}.

Definition xdefine_core (s : xstate) (d : xcdef) : xdres :=
  let '(h1, dict1) := fold_left xnew_entry (xd_dict d) ((xcells s, xdts s), []) in
  let r0 := {| xr_heap := h1; xr_acc := []; xr_dict := dict1; xr_wc := [] |} in
  if xd_module d then
    let cs := xclasses s ++ [{| xc_module := true; xc_mro := xd_mro d; xc_dict := dict1; xc_acc := [] |}] in
    fold_left (xresolve_name cs (xd_mro d)) cmd_names r0
  else r0.

Definition xdefine (s : xstate) (d : xcdef) : xstate :=
  let r := xdefine_core s d in
  {| xcells := fst (xr_heap r); xdts := snd (xr_heap r);
     xclasses := xclasses s ++ [{| xc_module := xd_module d; xc_mro := xd_mro d; xc_dict := xr_dict r; xc_acc := xr_acc r |}];
     xinsts := xinsts s; xcbs := xcbs s; xclscb := xclscb s |}.

Definition xfootprint (s : xstate) (d : xcdef) : list id := xr_wc (xdefine_core s d).

(* Module.__init__: aobj.copy() = clone(propertyValues) for every accessible, then the configured description *)
Definition opt_join {A} (o : option (option A)) : option A := match o with Some x => x | None => None end.

Definition inst_cmd (cells : list ccell) (cfg : list (name * Z)) (acc : list cdt * list (name * icmd)) (ki : name * id)
  : list cdt * list (name * icmd) :=
  let '(ds, out) := acc in
  let p := cv (getc cells (snd ki)) in
  let '(h1, a) := xcopy_opt (cells, ds) (q_arg p) in
  let '(h2, r) := xcopy_opt h1 (q_res p) in
  (snd h2, out ++ [(fst ki, {| ic_desc := match lookup (fst ki) cfg with Some z => Some z | None => q_desc p end;
                               ic_arg := opt_join a; ic_res := opt_join r |})]).

(* whether the configuration is accepted is decided by the parameter component and handed over (ok) *)
Definition xinstantiate (s : xstate) (ci : nat) (ok : bool) (cfg : list (name * Z)) : xstate :=
  if ok then
    let '(ds, cmds) := fold_left (inst_cmd (xcells s) cfg) (xc_acc (nth ci (xclasses s) xcls0)) (xdts s, []) in
    {| xcells := xcells s; xdts := ds; xclasses := xclasses s;
       xinsts := xinsts s ++ [{| xi_alive := true; xi_cmds := cmds; xi_cb := None |}];
       xcbs := xcbs s; xclscb := xclscb s |}
  else
    {| xcells := xcells s; xdts := xdts s; xclasses := xclasses s; xinsts := xinsts s ++ [xdead];
       xcbs := xcbs s; xclscb := xclscb s |}.

(* what the command component itself requires of an acceptable instance: every command has a description *)
Definition xacceptable (s : xstate) (ci : nat) (cfg : list (name * Z)) : bool :=
  forallb (fun ki => match lookup (fst ki) cfg, q_desc (cv (getc (xcells s) (snd ki))) with
                     | None, None => false | _, _ => true end)
          (xc_acc (nth ci (xclasses s) xcls0)).

(* ---------- run-time mutations of one instance *)
(* inst.commands[k].argument.setProperty(key, v)  (res = true: the result; path: a member of a struct) *)
Definition xsetarg (s : xstate) (i : nat) (k : name) (res : bool) (path : option Z) (key : nat) (v : Z) : xstate :=
  match lookup k (xi_cmds (nth i (xinsts s) xdead)) with
  | Some c =>
      match (if res then ic_res c else ic_arg c) with
      | Some a => {| xcells := xcells s; xdts := set_nth (xdts s) a (cdt_set (getcd (xdts s) a) path key v);
                     xclasses := xclasses s; xinsts := xinsts s; xcbs := xcbs s; xclscb := xclscb s |}
      | None => s
      end
  | None => s
  end.

(* what `self.inputCallbacks` evaluates to: the instance attribute, else the class attribute *)
Definition cb_of (s : xstate) (x : xinst) : option id := match xi_cb x with Some d => Some d | None => xclscb s end.
Definition cb_read (s : xstate) (o : option id) : list Z := match o with Some d => nth d (xcbs s) [] | None => [] end.
Definition is_nil {A} (l : list A) : bool := match l with [] => true | _ => false end.

(* HasControlledBy.register_input: `if not self.inputCallbacks: self.inputCallbacks = {}` (a new dict bound to the
   instance), then `self.inputCallbacks[name] = ...` (a WRITE to the dict the instance sees) *)
Definition xregister (s : xstate) (i : nat) (m : Z) : xstate :=
  if Nat.ltb i (length (xinsts s)) then
    let x := nth i (xinsts s) xdead in
    let '(cbs1, d) := match cb_of s x with
                      | Some d => if is_nil (cb_read s (Some d)) then (xcbs s ++ [[]], length (xcbs s)) else (xcbs s, d)
                      | None => (xcbs s ++ [[]], length (xcbs s))
                      end in
    {| xcells := xcells s; xdts := xdts s; xclasses := xclasses s;
       xinsts := set_nth (xinsts s) i {| xi_alive := xi_alive x; xi_cmds := xi_cmds x; xi_cb := Some d |};
       xcbs := set_nth cbs1 d (nth d cbs1 [] ++ [m]); xclscb := xclscb s |}
  else s.

Inductive xop :=
| XDefine (d : xcdef)
| XInst (ci : nat) (ok : bool) (cfg : list (name * Z))
| XSetArg (i : nat) (k : name) (res : bool) (path : option Z) (key : nat) (v : Z)
| XRegister (i : nat) (m : Z)
| XNop.                           (* an op of the parameter component only *)

Definition xstep (s : xstate) (o : xop) : xstate :=
  match o with
  | XDefine d => xdefine s d
  | XInst ci ok cfg => xinstantiate s ci ok cfg
  | XSetArg i k res path key v => xsetarg s i k res path key v
  | XRegister i m => xregister s i m
  | XNop => s
  end.

Definition xrun (ops : list xop) : xstate := fold_left xstep ops xstate0.

(* ---------- descriptions (what the harness observes) *)
Record cmd_desc := { cd_desc : option Z; cd_arg : option cdt; cd_res : option cdt }.
Definition rd_cdt (ds : list cdt) (o : option id) : option cdt := option_map (getcd ds) o.

Definition read_cmd (cells : list ccell) (ds : list cdt) (i : id) : cmd_desc :=
  let p := cv (getc cells i) in
  {| cd_desc := q_desc p; cd_arg := rd_cdt ds (opt_join (q_arg p)); cd_res := rd_cdt ds (opt_join (q_res p)) |}.

Definition xdescribe_class (s : xstate) (c : xcls) : list (name * cmd_desc) :=
  map (fun ki => (fst ki, read_cmd (xcells s) (xdts s) (snd ki))) (xc_acc c).

Definition read_icmd (ds : list cdt) (c : icmd) : cmd_desc :=
  {| cd_desc := ic_desc c; cd_arg := rd_cdt ds (ic_arg c); cd_res := rd_cdt ds (ic_res c) |}.

Definition xdescribe_cmds (s : xstate) (x : xinst) : list (name * cmd_desc) :=
  map (fun kc => (fst kc, read_icmd (xdts s) (snd kc))) (xi_cmds x).

(* the registered inputs an instance sees *)
Definition xinputs (s : xstate) (x : xinst) : list Z := cb_read s (cb_of s x).
(* ... and what the class attribute holds *)
Definition xcls_inputs (s : xstate) : list Z := cb_read s (xclscb s).

Definition xdescribe_inst (s : xstate) (x : xinst) : list (name * cmd_desc) * list Z :=
  (xdescribe_cmds s x, xinputs s x).
