(* C09 -- frame properties of the command / mixin component that follow from the invariant xinv (CmdLemmas.v):
   an op changes neither the description nor the registered inputs of an instance it does not address; instance ops
   change no class; an instance created later is a function of its class and its own configuration. *)
From Coq Require Import List Arith ZArith Bool Lia.
Import ListNotations.
Require Import FV.C09.Model FV.C09.Lemmas FV.C09.CmdModel FV.C09.CmdLemmas.

Definition xaddresses (o : xop) (j : nat) : bool :=
  match o with XSetArg i _ _ _ _ _ | XRegister i _ => Nat.eqb i j | _ => false end.
Definition xinst_op (o : xop) : bool := match o with XDefine _ => false | _ => true end.

(* ---------- reading through two heaps that agree on the relevant objects *)
Lemma describe_cmds_ext : forall s s' X,
  (forall x, In x (xowned X) -> getcd (xdts s') x = getcd (xdts s) x) -> xdescribe_cmds s' X = xdescribe_cmds s X.
Proof.
  intros s s' X H. unfold xdescribe_cmds. apply map_ext_in. intros [k c] Hin. simpl.
  assert (Hc : forall x, In x (irefs c) -> getcd (xdts s') x = getcd (xdts s) x).
  { intros x Hx. apply H. unfold xowned. apply in_flat_map. exists (k, c). auto. }
  unfold read_icmd, rd_cdt, irefs in *. f_equal. f_equal.
  - destruct (ic_arg c) as [a|]; simpl; auto. rewrite Hc; auto. simpl. auto.
  - destruct (ic_res c) as [a|]; simpl; auto. rewrite Hc; auto. apply in_or_app. right. simpl. auto.
Qed.

Lemma read_cmd_ext : forall cells ds ds' i,
  (forall x, In x (class_refs cells) -> getcd ds' x = getcd ds x) -> read_cmd cells ds' i = read_cmd cells ds i.
Proof.
  intros cells ds ds' i H. unfold read_cmd.
  assert (Hc : forall x, In x (qrefs (cv (getc cells i))) -> getcd ds' x = getcd ds x).
  { intros x Hx. apply H. apply getc_refs_in with (i := i). unfold crefs. apply in_or_app. auto. }
  unfold qrefs, rd_cdt in *. f_equal.
  - destruct (q_arg (cv (getc cells i))) as [[a|]|]; simpl; auto. rewrite Hc; simpl; auto.
  - destruct (q_res (cv (getc cells i))) as [[a|]|]; simpl; auto. rewrite Hc; auto. apply in_or_app. right. simpl. auto.
Qed.

Lemma describe_class_ext : forall s s' c, xcells s' = xcells s ->
  (forall x, In x (class_refs (xcells s)) -> getcd (xdts s') x = getcd (xdts s) x) ->
  xdescribe_class s' c = xdescribe_class s c.
Proof.
  intros s s' c E H. unfold xdescribe_class. rewrite E. apply map_ext. intros [k i]. simpl.
  rewrite read_cmd_ext with (ds := xdts s); auto.
Qed.

Lemma getcd_app_old : forall ds ext x, x < length ds -> getcd (ds ++ ext) x = getcd ds x.
Proof. intros. unfold getcd. apply app_nth1. assumption. Qed.

(* ---------- the state after register_input, spelled out *)
Lemma xregister_spec : forall s i m, xinv s -> i < length (xinsts s) ->
  exists cbs1 d,
    xregister s i m =
      {| xcells := xcells s; xdts := xdts s; xclasses := xclasses s;
         xinsts := set_nth (xinsts s) i {| xi_alive := xi_alive (inst_at s i); xi_cmds := xi_cmds (inst_at s i); xi_cb := Some d |};
         xcbs := set_nth cbs1 d (nth d cbs1 [] ++ [m]); xclscb := xclscb s |} /\
    ((cbs1 = xcbs s ++ [[]] /\ d = length (xcbs s)) \/ (cbs1 = xcbs s /\ xi_cb (inst_at s i) = Some d)).
Proof.
  intros s i m V Li. unfold xregister. apply Nat.ltb_lt in Li. rewrite Li.
  pose proof (register_target s i V) as T. unfold inst_at in *. cbv zeta in T.
  destruct (match cb_of s (nth i (xinsts s) xdead) with
            | Some d => if is_nil (cb_read s (Some d)) then (xcbs s ++ [[]], length (xcbs s)) else (xcbs s, d)
            | None => (xcbs s ++ [[]], length (xcbs s)) end) as [cbs1 d].
  exists cbs1, d. split; [reflexivity | assumption].
Qed.

(* a dict other than the one written keeps its content *)
Lemma register_other_dict : forall s cbs1 d t (l : list Z),
  ((cbs1 = xcbs s ++ [[]] /\ d = length (xcbs s)) \/ cbs1 = xcbs s) -> t < length (xcbs s) -> t <> d ->
  nth t (set_nth cbs1 d l) [] = nth t (xcbs s) [].
Proof.
  intros s cbs1 d t l T Lt Nd. rewrite nth_set_nth_other by assumption.
  destruct T as [[-> _]| ->]; auto. apply app_nth1. assumption.
Qed.

(* ---------- (F1) an op leaves alone every instance it does not address *)
Lemma other_inst_unchanged : forall s o j, xinv s -> j < length (xinsts s) -> xaddresses o j = false ->
  inst_at (xstep s o) j = inst_at s j /\
  xdescribe_inst (xstep s o) (inst_at s j) = xdescribe_inst s (inst_at s j).
Proof.
  intros s o j V Lj Ha. destruct o as [d|ci ok cfg|i k res path key v|i m|]; simpl in *.
  - (* class definition *)
    split; [reflexivity|]. unfold xdescribe_inst. f_equal.
    apply describe_cmds_ext. intros x Hx. destruct (xdefine_heap s d V) as (_ & B & _). apply B.
    apply (I2 s V j x Hx).
  - (* another instance is created *)
    unfold xinstantiate. destruct ok.
    + destruct (fold_left (inst_cmd (xcells s) cfg) (xc_acc (nth ci (xclasses s) xcls0)) (xdts s, [])) as [ds cmds] eqn:E.
      destruct (inst_cmd_spec _ _ _ _ _ _ _ E) as [[ext Eext] _].
      split; [unfold inst_at; simpl; apply app_nth1; assumption|].
      unfold xdescribe_inst. f_equal. apply describe_cmds_ext. intros x Hx. simpl. rewrite Eext.
      apply getcd_app_old. apply (I2 s V j x Hx).
    + split; [unfold inst_at; simpl; apply app_nth1; assumption | reflexivity].
  - (* a datatype property of a command of another instance *)
    apply Nat.eqb_neq in Ha. unfold xsetarg.
    destruct (lookup k (xi_cmds (nth i (xinsts s) xdead))) as [c|] eqn:El; auto.
    destruct (if res then ic_res c else ic_arg c) as [a|] eqn:Ea; auto.
    split; [reflexivity|]. unfold xdescribe_inst. f_equal.
    apply describe_cmds_ext. intros x Hx. simpl. unfold getcd.
    assert (Own : In a (xowned (inst_at s i))).
    { unfold xowned, inst_at. apply in_flat_map. exists (k, c). split.
      - clear - El. induction (xi_cmds (nth i (xinsts s) xdead)) as [|[k' c'] l IH]; simpl in *; [discriminate|].
        destruct (Nat.eqb k k') eqn:Ek; auto. apply Nat.eqb_eq in Ek. inversion El; subst. auto.
      - unfold irefs. simpl. destruct res; rewrite Ea; apply in_or_app; simpl; auto. }
    rewrite nth_set_nth_other; auto. intro; subst x. apply (I3 s V i j a Ha Own Hx).
  - (* an input is registered on another instance *)
    apply Nat.eqb_neq in Ha.
    destruct (Nat.lt_ge_cases i (length (xinsts s))) as [Li|Li].
    + destruct (xregister_spec s i m V Li) as (cbs1 & d & E & T). rewrite E.
      split; [unfold inst_at; simpl; apply nth_set_nth_other; auto|].
      unfold xdescribe_inst. f_equal. unfold xinputs, cb_of, cb_read. simpl.
      destruct (xi_cb (inst_at s j)) as [dj|] eqn:Ej.
      * destruct (M1 s V j dj Ej) as [Lt _]. apply register_other_dict; auto.
        { destruct T as [T|[T _]]; auto. }
        destruct T as [[_ ->]|[_ Ei]]; [lia|]. intro; subst dj. apply (M2 s V i j d Ha Ei Ej).
      * destruct (xclscb s) as [c|] eqn:Ec; auto.
        apply register_other_dict; auto.
        { destruct T as [T|[T _]]; auto. }
        { apply (M3 s V c Ec). }
        destruct T as [[_ ->]|[_ Ei]]; [pose proof (M3 s V c Ec); lia|].
        intro; subst c. destruct (M1 s V i d Ei) as [_ N]. apply N. assumption.
    + unfold xregister. apply Nat.ltb_ge in Li. rewrite Li. auto.
  - auto.
Qed.

Lemma xinsts_length_mono : forall s o, length (xinsts s) <= length (xinsts (xstep s o)).
Proof.
  intros s [d|ci ok cfg|i k res path key v|i m|]; simpl; auto.
  - unfold xinstantiate. destruct ok.
    + destruct (fold_left _ _ _) as [ds cmds]. simpl. rewrite app_length. lia.
    + simpl. rewrite app_length. lia.
  - unfold xsetarg. destruct (lookup _ _); auto. destruct (if res then _ else _); auto.
  - unfold xregister. destruct (Nat.ltb i (length (xinsts s))); auto.
    destruct (match cb_of s _ with Some _ => _ | None => _ end). simpl. rewrite length_set_nth. lia.
Qed.

Lemma other_inst_unchanged_hist : forall ops s j, xinv s -> j < length (xinsts s) ->
  forallb (fun o => negb (xaddresses o j)) ops = true ->
  inst_at (fold_left xstep ops s) j = inst_at s j /\
  xdescribe_inst (fold_left xstep ops s) (inst_at s j) = xdescribe_inst s (inst_at s j).
Proof.
  induction ops as [|o ops IH]; simpl; intros s j V Lj H; auto.
  apply andb_true_iff in H. destruct H as [Ho Hr]. apply negb_true_iff in Ho.
  destruct (other_inst_unchanged s o j V Lj Ho) as [E1 E2].
  assert (Lj' : j < length (xinsts (xstep s o))) by (pose proof (xinsts_length_mono s o); lia).
  destruct (IH (xstep s o) j (xinv_step s o V) Lj' Hr) as [E3 E4].
  rewrite E1 in E3, E4. split; congruence.
Qed.

(* ---------- (F2) instance ops change no class *)
Lemma class_unchanged_by_inst_op : forall s o c, xinv s -> xinst_op o = true ->
  xdescribe_class (xstep s o) c = xdescribe_class s c /\ xcls_inputs (xstep s o) = xcls_inputs s /\
  xcells (xstep s o) = xcells s /\ xclasses (xstep s o) = xclasses s.
Proof.
  intros s o c V Ho. split; [|split].
  2: { rewrite (M4 _ (xinv_step s o V)), (M4 s V). reflexivity. }
  - destruct o as [d|ci ok cfg|i k res path key v|i m|]; simpl in *; try discriminate; auto.
    + unfold xinstantiate. destruct ok; auto.
      destruct (fold_left (inst_cmd (xcells s) cfg) (xc_acc (nth ci (xclasses s) xcls0)) (xdts s, [])) as [ds cmds] eqn:E.
      destruct (inst_cmd_spec _ _ _ _ _ _ _ E) as [[ext Eext] _].
      apply describe_class_ext; auto. simpl. intros x Hx. rewrite Eext. apply getcd_app_old. apply (I1 s V x Hx).
    + unfold xsetarg.
      destruct (lookup k (xi_cmds (nth i (xinsts s) xdead))) as [cc|] eqn:El; auto.
      destruct (if res then ic_res cc else ic_arg cc) as [a|] eqn:Ea; auto.
      apply describe_class_ext; auto. simpl. intros x Hx. unfold getcd.
      assert (Own : In a (xowned (inst_at s i))).
      { unfold xowned, inst_at. apply in_flat_map. exists (k, cc). split.
        - clear - El. induction (xi_cmds (nth i (xinsts s) xdead)) as [|[k' c'] l IH]; simpl in *; [discriminate|].
          destruct (Nat.eqb k k') eqn:Ek; auto. apply Nat.eqb_eq in Ek. inversion El; subst. auto.
        - unfold irefs. simpl. destruct res; rewrite Ea; apply in_or_app; simpl; auto. }
      rewrite nth_set_nth_other; auto. intro; subst x. destruct (I2 s V i a Own) as [_ N]. auto.
    + unfold xregister. destruct (Nat.ltb i (length (xinsts s))); auto.
      destruct (match cb_of s _ with Some _ => _ | None => _ end). reflexivity.
  - destruct o as [d|ci ok cfg|i k res path key v|i m|]; simpl in *; try discriminate; auto.
    + unfold xinstantiate. destruct ok; [destruct (fold_left _ _ _)|]; auto.
    + unfold xsetarg. destruct (lookup _ _); auto. destruct (if res then _ else _); auto.
    + unfold xregister. destruct (Nat.ltb i (length (xinsts s))); auto.
      destruct (match cb_of s _ with Some _ => _ | None => _ end). auto.
Qed.

Lemma class_unchanged_by_inst_ops : forall ops s c, xinv s -> forallb xinst_op ops = true ->
  xdescribe_class (fold_left xstep ops s) c = xdescribe_class s c /\
  xcls_inputs (fold_left xstep ops s) = xcls_inputs s /\
  xcells (fold_left xstep ops s) = xcells s /\ xclasses (fold_left xstep ops s) = xclasses s.
Proof.
  induction ops as [|o ops IH]; simpl; intros s c V H; auto.
  apply andb_true_iff in H. destruct H as [Ho Hr].
  destruct (class_unchanged_by_inst_op s o c V Ho) as (A1 & A2 & A3 & A4).
  destruct (IH (xstep s o) c (xinv_step s o V) Hr) as (B1 & B2 & B3 & B4).
  repeat split; congruence.
Qed.

(* ---------- (F3) a new instance: a function of the description of its class and of its own configuration *)
Definition cfg_cmd (cfg : list (name * Z)) (kd : name * cmd_desc) : name * cmd_desc :=
  (fst kd, {| cd_desc := match lookup (fst kd) cfg with Some z => Some z | None => cd_desc (snd kd) end;
              cd_arg := cd_arg (snd kd); cd_res := cd_res (snd kd) |}).

Definition icmds_desc (ds : list cdt) (l : list (name * icmd)) : list (name * cmd_desc) :=
  map (fun kc => (fst kc, read_icmd ds (snd kc))) l.

Lemma icmds_desc_ext : forall ds ds' l,
  (forall x, In x (flat_map (fun kc => irefs (snd kc)) l) -> getcd ds' x = getcd ds x) -> icmds_desc ds' l = icmds_desc ds l.
Proof.
  intros ds ds' l H. unfold icmds_desc. apply map_ext_in. intros [k c] Hin. simpl.
  assert (Hc : forall x, In x (irefs c) -> getcd ds' x = getcd ds x).
  { intros x Hx. apply H. apply in_flat_map. exists (k, c). auto. }
  unfold read_icmd, rd_cdt, irefs in *. f_equal. f_equal.
  - destruct (ic_arg c) as [a|]; simpl; auto. rewrite Hc; auto. simpl. auto.
  - destruct (ic_res c) as [a|]; simpl; auto. rewrite Hc; auto. apply in_or_app. right. simpl. auto.
Qed.

Definition In_opt_lt (o : option (option id)) (n : nat) : Prop := forall x, In x (oref o) -> x < n.

Lemma inst_cmd_describe : forall cells cfg l ds0 out0 ds out,
  (forall x, In x (class_refs cells) -> x < length ds0) ->
  (forall x, In x (flat_map (fun kc => irefs (snd kc)) out0) -> x < length ds0) ->
  fold_left (inst_cmd cells cfg) l (ds0, out0) = (ds, out) ->
  icmds_desc ds out = icmds_desc ds0 out0 ++ map (fun ki => cfg_cmd cfg (fst ki, read_cmd cells ds0 (snd ki))) l.
Proof.
  induction l as [|ki l IH]; simpl; intros ds0 out0 ds out Hc Ho E.
  - inversion E; subst. rewrite app_nil_r. reflexivity.
  - destruct (xcopy_opt (cells, ds0) (q_arg (cv (getc cells (snd ki))))) as [h1 a] eqn:E1.
    destruct (xcopy_opt h1 (q_res (cv (getc cells (snd ki))))) as [h2 r] eqn:E2.
    (* the two copies *)
    assert (Rr : In_opt_lt (q_res (cv (getc cells (snd ki)))) (length ds0)).
    { intros x Hx. apply Hc. apply getc_refs_in with (i := snd ki). unfold crefs, qrefs. apply in_or_app. left. apply in_or_app. auto. }
    assert (P1 : exists e1, snd h1 = ds0 ++ e1 /\
                 rd_cdt (snd h1) (opt_join a) = rd_cdt ds0 (opt_join (q_arg (cv (getc cells (snd ki))))) /\
                 (forall x, In x (iref (opt_join a)) -> x < length (snd h1))).
    { unfold xcopy_opt in E1. destruct (q_arg (cv (getc cells (snd ki)))) as [[a0|]|]; inversion E1; subst; simpl.
      - eexists. split; [reflexivity|]. split.
        + unfold getcd. rewrite nth_snoc. reflexivity.
        + intros x [<-|[]]. rewrite app_length. simpl. lia.
      - exists []. rewrite app_nil_r. repeat split; auto. intros x [].
      - exists []. rewrite app_nil_r. repeat split; auto. intros x []. }
    destruct P1 as (e1 & Ee1 & Da & La).
    assert (P2 : exists e2, snd h2 = snd h1 ++ e2 /\
                 rd_cdt (snd h2) (opt_join r) = rd_cdt ds0 (opt_join (q_res (cv (getc cells (snd ki))))) /\
                 (forall x, In x (iref (opt_join r)) -> x < length (snd h2))).
    { unfold xcopy_opt in E2. destruct (q_res (cv (getc cells (snd ki)))) as [[r0|]|] eqn:Er; inversion E2; subst; simpl.
      - eexists. split; [reflexivity|]. split.
        + unfold getcd. rewrite nth_snoc. f_equal. rewrite Ee1. apply app_nth1. apply Rr. simpl. auto.
        + intros x [<-|[]]. rewrite app_length. simpl. lia.
      - exists []. rewrite app_nil_r. repeat split; auto. intros x [].
      - exists []. rewrite app_nil_r. repeat split; auto. intros x []. }
    destruct P2 as (e2 & Ee2 & Dr & Lr).
    assert (L1 : length ds0 <= length (snd h1)) by (rewrite Ee1, app_length; lia).
    assert (L2 : length (snd h1) <= length (snd h2)) by (rewrite Ee2, app_length; lia).
    assert (Hc' : forall x, In x (class_refs cells) -> x < length (snd h2)) by (intros x Hx; pose proof (Hc x Hx); lia).
    rewrite (IH _ _ _ _ Hc') with (2 := E).
    2: { intros x Hx. rewrite flat_map_app in Hx. apply in_app_or in Hx. destruct Hx as [Hx|Hx].
         - pose proof (Ho x Hx). lia.
         - simpl in Hx. rewrite app_nil_r in Hx. unfold irefs in Hx. simpl in Hx. apply in_app_or in Hx.
           destruct Hx as [Hx|Hx]; [apply La in Hx; lia | apply Lr in Hx; lia]. }
    unfold icmds_desc at 1. rewrite map_app. rewrite <- app_assoc. f_equal.
    + apply (icmds_desc_ext ds0 (snd h2) out0). intros x Hx. rewrite Ee2, Ee1, <- app_assoc. apply getcd_app_old. apply Ho. assumption.
    + simpl. f_equal.
      * unfold cfg_cmd, read_icmd, read_cmd. simpl. f_equal. f_equal; auto.
        rewrite <- Da. destruct (opt_join a) as [a1|]; simpl; auto. f_equal. rewrite Ee2. apply getcd_app_old. apply La. simpl. auto.
      * apply map_ext_in. intros ki' _. f_equal. f_equal. apply read_cmd_ext. intros x Hx.
        rewrite Ee2, Ee1, <- app_assoc. apply getcd_app_old. apply Hc. assumption.
Qed.

Definition xnew_inst_desc (s : xstate) (ci : nat) (cfg : list (name * Z)) : list (name * cmd_desc) * list Z :=
  (map (cfg_cmd cfg) (xdescribe_class s (nth ci (xclasses s) xcls0)), xcls_inputs s).

Lemma new_inst_described : forall s ci cfg, xinv s ->
  xdescribe_inst (xinstantiate s ci true cfg) (inst_at (xinstantiate s ci true cfg) (length (xinsts s))) =
  xnew_inst_desc s ci cfg.
Proof.
  intros s ci cfg V. unfold xinstantiate, xnew_inst_desc.
  destruct (fold_left (inst_cmd (xcells s) cfg) (xc_acc (nth ci (xclasses s) xcls0)) (xdts s, [])) as [ds cmds] eqn:E.
  unfold inst_at. simpl. rewrite nth_snoc. unfold xdescribe_inst. f_equal.
  unfold xdescribe_cmds. simpl.
  change (map (fun kc : name * icmd => (fst kc, read_icmd ds (snd kc))) cmds) with (icmds_desc ds cmds).
  rewrite (inst_cmd_describe _ _ _ _ _ _ _ (I1 s V)) with (2 := E); [|intros x []].
  simpl. unfold xdescribe_class. rewrite map_map. apply map_ext. intros [k i]. reflexivity.
Qed.

Lemma later_instance_unaffected_cmd : forall ops s ci cfg, xinv s -> forallb xinst_op ops = true ->
  xnew_inst_desc (fold_left xstep ops s) ci cfg = xnew_inst_desc s ci cfg.
Proof.
  intros ops s ci cfg V H. unfold xnew_inst_desc.
  destruct (class_unchanged_by_inst_ops ops s (nth ci (xclasses s) xcls0) V H) as (A & B & C & D).
  rewrite D, A, B. reflexivity.
Qed.

(* ---------- class definitions and the Command objects that exist already: only those re-merged in place change *)
Definition CI (nc0 : nat) (cells0 : list ccell) (F : list id) (h : xheap) : Prop :=
  nc0 <= length (fst h) /\ forall i, i < nc0 -> ~ In i F -> getc (fst h) i = getc cells0 i.

Lemma CI_same_cells : forall nc0 cells0 F h h', fst h' = fst h -> CI nc0 cells0 F h -> CI nc0 cells0 F h'.
Proof. unfold CI. intros * E H. rewrite E. assumption. Qed.

Lemma CI_alloc_cell : forall nc0 cells0 F h c, CI nc0 cells0 F h -> CI nc0 cells0 F (fst (xalloc_cell h c)).
Proof.
  intros * (A & B). unfold xalloc_cell, CI. simpl. split.
  - rewrite app_length. lia.
  - intros i Hi Hn. unfold getc. rewrite app_nth1 by lia. apply B; assumption.
Qed.

Lemma CI_set_cell_new : forall nc0 cells0 F h i c, nc0 <= i -> CI nc0 cells0 F h -> CI nc0 cells0 F (xset_cell h i c).
Proof.
  intros * Hi (A & B). unfold xset_cell, CI. simpl. split.
  - rewrite length_set_nth. assumption.
  - intros j Hj Hn. unfold getc. rewrite nth_set_nth_other by lia. apply B; assumption.
Qed.

Lemma CI_set_cell_F : forall nc0 cells0 F h i c, CI nc0 cells0 F h -> CI nc0 cells0 (i :: F) (xset_cell h i c).
Proof.
  intros * (A & B). unfold xset_cell, CI. simpl. split.
  - rewrite length_set_nth. assumption.
  - intros j Hj Hn. unfold getc. rewrite nth_set_nth_other by (intro; subst; apply Hn; left; reflexivity).
    apply B; [assumption | intro; apply Hn; right; assumption].
Qed.

Lemma xalloc_opt_fst : forall h o, fst (fst (xalloc_opt h o)) = fst h.
Proof. intros h [d|]; reflexivity. Qed.
Lemma xcopy_opt_fst : forall h o, fst (fst (xcopy_opt h o)) = fst h.
Proof. intros h [[a|]|]; reflexivity. Qed.

Lemma CI_call : forall nc0 cells0 F h c defs doc, nc0 <= c -> CI nc0 cells0 F h ->
  CI nc0 cells0 F (call_desc (call_write h c defs) c doc).
Proof.
  intros * Hc H. assert (H1 : CI nc0 cells0 F (call_write h c defs)).
  { eapply CI_same_cells; [apply call_write_cells | assumption]. }
  unfold call_desc. destruct (q_desc (cown (getc (fst (call_write h c defs)) c))); auto. destruct doc; auto.
  apply CI_set_cell_new; assumption.
Qed.

Lemma CI_new_cmd : forall nc0 cells0 F h s, CI nc0 cells0 F h -> CI nc0 cells0 F (fst (new_cmd h s)).
Proof.
  intros * H. unfold new_cmd.
  assert (G : forall h2 cell, fst h2 = fst h ->
              CI nc0 cells0 F (fst (let '(h3, c) := xalloc_cell h2 cell in
                                    (call_desc (call_write h3 c (x_defaults s)) c (x_doc s), c)))).
  { intros h2 cell E2. simpl. apply CI_call.
    - rewrite E2. destruct H. assumption.
    - apply CI_alloc_cell. eapply CI_same_cells; eauto. }
  destruct (x_sig s) as [[a r]|].
  - pose proof (xalloc_opt_fst h a) as F1. destruct (xalloc_opt h a) as [h1 ai].
    pose proof (xalloc_opt_fst h1 r) as F2. destruct (xalloc_opt h1 r) as [h2 ri]. simpl in *.
    apply G. congruence.
  - apply G. reflexivity.
Qed.

Lemma CI_new_entries : forall nc0 cells0 F l hd, CI nc0 cells0 F (fst hd) -> CI nc0 cells0 F (fst (fold_left xnew_entry l hd)).
Proof.
  induction l as [|[n e] l IH]; simpl; intros [h d] H; auto. apply IH.
  destruct e as [s|doc defs|]; simpl in *; auto.
  destruct (new_cmd h s) as [h' i] eqn:E. simpl.
  replace h' with (fst (new_cmd h s)) by (rewrite E; reflexivity). apply CI_new_cmd. assumption.
Qed.

Lemma CI_create_from_func : forall nc0 cells0 F h M doc defs, CI nc0 cells0 F h ->
  CI nc0 cells0 F (fst (create_from_func h M doc defs)).
Proof.
  intros * H. unfold create_from_func, clone_cmd.
  pose proof (xcopy_opt_fst h (q_arg M)) as F1. destruct (xcopy_opt h (q_arg M)) as [h1 a].
  pose proof (xcopy_opt_fst h1 (q_res M)) as F2. destruct (xcopy_opt h1 (q_res M)) as [h2 r]. simpl in *.
  apply CI_call.
  - rewrite F2, F1. destruct H. assumption.
  - apply CI_alloc_cell. eapply CI_same_cells; [|eassumption]. congruence.
Qed.

Lemma CI_weaken : forall nc0 cells0 F F' h, CI nc0 cells0 F h -> incl F F' -> CI nc0 cells0 F' h.
Proof. intros * (A & B) I. split; auto. Qed.

Lemma CI_resolve_name : forall nc0 cells0 cs mro r k, CI nc0 cells0 (xr_wc r) (xr_heap r) ->
  CI nc0 cells0 (xr_wc (xresolve_name cs mro r k)) (xr_heap (xresolve_name cs mro r k)).
Proof.
  intros * H. unfold xresolve_name.
  destruct (xw_acc (xwalk (fst (xr_heap r)) cs mro k)) as [wid|]; auto.
  destruct (xw_ov (xwalk (fst (xr_heap r)) cs mro k)) as [[[doc defs]|]|]; auto.
  - destruct (create_from_func (xr_heap r) _ doc defs) as [h' n] eqn:E. simpl.
    replace h' with (fst (create_from_func (xr_heap r) (xw_M (xwalk (fst (xr_heap r)) cs mro k)) doc defs))
      by (rewrite E; reflexivity).
    apply CI_create_from_func. assumption.
  - simpl. unfold merge_cmd. apply CI_set_cell_F. assumption.
Qed.

Lemma CI_resolve_names : forall nc0 cells0 cs mro l r, CI nc0 cells0 (xr_wc r) (xr_heap r) ->
  CI nc0 cells0 (xr_wc (fold_left (xresolve_name cs mro) l r)) (xr_heap (fold_left (xresolve_name cs mro) l r)).
Proof. induction l; simpl; intros; auto. apply IHl. apply CI_resolve_name. assumption. Qed.

Lemma xdefine_cells_frame : forall s d i, i < length (xcells s) -> ~ In i (xfootprint s d) ->
  getc (xcells (xdefine s d)) i = getc (xcells s) i.
Proof.
  intros s d. unfold xfootprint, xdefine. simpl.
  assert (H : CI (length (xcells s)) (xcells s) (xr_wc (xdefine_core s d)) (xr_heap (xdefine_core s d))).
  { unfold xdefine_core.
    pose proof (CI_new_entries (length (xcells s)) (xcells s) [] (xd_dict d) ((xcells s, xdts s), [])) as H0.
    destruct (fold_left xnew_entry (xd_dict d) (xcells s, xdts s, [])) as [h1 dict1]. simpl in H0.
    assert (H1 : CI (length (xcells s)) (xcells s) [] h1) by (apply H0; split; simpl; auto).
    destruct (xd_module d); [|simpl; assumption].
    apply CI_resolve_names. simpl. assumption. }
  destruct H as (A & B). intros i Hi Hn. apply B; assumption.
Qed.

(* a class none of whose Command objects is re-merged in place keeps its command descriptions *)
Lemma class_unchanged_by_define_cmd : forall s d c, xinv s ->
  (forall k i, In (k, i) (xc_acc c) -> i < length (xcells s) /\ ~ In i (xfootprint s d)) ->
  xdescribe_class (xdefine s d) c = xdescribe_class s c.
Proof.
  intros s d c V H. unfold xdescribe_class. apply map_ext_in. intros [k i] Hin. cbn [fst snd].
  destruct (H k i Hin) as [Hi Hn]. destruct (xdefine_heap s d V) as (_ & B & _).
  unfold read_cmd. rewrite (xdefine_cells_frame s d i Hi Hn).
  assert (Hc : forall x, In x (qrefs (cv (getc (xcells s) i))) -> getcd (xdts (xdefine s d)) x = getcd (xdts s) x).
  { intros x Hx. apply B. apply (I1 s V). apply getc_refs_in with (i := i). unfold crefs. apply in_or_app. auto. }
  unfold qrefs, rd_cdt in *. f_equal. f_equal.
  - destruct (q_arg (cv (getc (xcells s) i))) as [[a|]|]; simpl; auto. rewrite Hc; simpl; auto.
  - destruct (q_res (cv (getc (xcells s) i))) as [[a|]|]; simpl; auto. rewrite Hc; auto. apply in_or_app. right. simpl. auto.
Qed.

(* an instance starts without registered inputs, whenever it is created *)
Lemma new_inst_inputs : forall s ci ok cfg, xinv s ->
  xinputs (xinstantiate s ci ok cfg) (inst_at (xinstantiate s ci ok cfg) (length (xinsts s))) = [].
Proof.
  intros s ci ok cfg V. pose proof (M4 _ (xinv_inst s ci ok cfg V)) as H4.
  assert (E : xi_cb (inst_at (xinstantiate s ci ok cfg) (length (xinsts s))) = None).
  { unfold xinstantiate, inst_at. destruct ok; [destruct (fold_left _ _ _)|]; simpl; rewrite nth_snoc; reflexivity. }
  unfold xinputs, cb_of. rewrite E. exact H4.
Qed.
