(* C09 -- lemmas about the module property component (PropModel.v): a class definition only APPENDS Property objects
   to the heap and a class record to the table; every object referenced by a class is in range (pinv); hence whatever
   is defined or created later, every class defined before keeps its record and the content of its Property objects. *)
From Coq Require Import List Arith ZArith Bool Lia.
Import ListNotations.
Require Import FV.Base.Util FV.C09.Model FV.C09.PropModel.

Definition ids_ok (n : nat) (pd : list (name * id)) : Prop := forall k i, In (k, i) pd -> i < n.
Definition dict_ok (n : nat) (d : pdict) : Prop := forall k i, In (k, PEProp i) d -> i < n.
Definition cls_ok (n : nat) (c : pcls) : Prop := ids_ok n (pc_pd c) /\ dict_ok n (pc_dict c).
Definition pinv (s : pstate) : Prop := forall c, In c (p_classes s) -> cls_ok (length (p_heap s)) c.

Lemma In_put_assoc : forall A k0 (v0 : A) l k v,
  In (k, v) (put_assoc k0 v0 l) -> (k = k0 /\ v = v0) \/ In (k, v) l.
Proof.
  induction l as [|[k' x] r IH]; simpl; intros k v H.
  - destruct H as [H|[]]. inversion H. auto.
  - destruct (Nat.eqb k0 k') eqn:E.
    + destruct H as [H|H]; [inversion H; auto | right; right; exact H].
    + destruct H as [H|H]; [right; left; exact H |].
      destruct (IH _ _ H) as [?|?]; auto using in_cons.
Qed.

Lemma ids_ok_mono : forall n m pd, ids_ok n pd -> n <= m -> ids_ok m pd.
Proof. unfold ids_ok; intros. specialize (H _ _ H1). lia. Qed.
Lemma dict_ok_mono : forall n m d, dict_ok n d -> n <= m -> dict_ok m d.
Proof. unfold dict_ok; intros. specialize (H _ _ H1). lia. Qed.
Lemma cls_ok_mono : forall n m c, cls_ok n c -> n <= m -> cls_ok m c.
Proof. intros n m c [A B] L. split; [eapply ids_ok_mono | eapply dict_ok_mono]; eauto. Qed.

Lemma ids_ok_put : forall n pd k i, ids_ok n pd -> i < n -> ids_ok n (put_assoc k i pd).
Proof.
  unfold ids_ok; intros n pd k i H Hi k' i' Hin. destruct (In_put_assoc _ _ _ _ _ _ Hin) as [[_ ->]|?]; eauto.
Qed.
Lemma dict_ok_put : forall n d k i, dict_ok n d -> i < n -> dict_ok n (put_assoc k (PEProp i) d).
Proof.
  unfold dict_ok; intros n d k i H Hi k' i' Hin. destruct (In_put_assoc _ _ _ _ _ _ Hin) as [[_ E]|?]; eauto.
  inversion E. subst. assumption.
Qed.

(* ---- the class body *)
Lemma alloc_body_spec : forall b h,
  (exists ext, fst (alloc_body h b) = h ++ ext) /\
  (dict_ok (length (fst (alloc_body h b))) (snd (alloc_body h b))).
Proof.
  induction b as [|[k e] r IH]; intros h; simpl.
  - split. exists []. rewrite app_nil_r. reflexivity. intros k i [].
  - destruct e as [lo hi d v|v]; simpl.
    + destruct (IH (h ++ [mkpo lo hi d v])) as [[ext E] D]. split.
      * exists (mkpo lo hi d v :: ext). rewrite E, <- app_assoc. reflexivity.
      * intros k' i [H|H]. inversion H. subst. rewrite E. rewrite !app_length. simpl. lia. eapply D; eauto.
    + destruct (IH h) as [[ext E] D]. split. exists ext; exact E.
      intros k' i [H|H]. inversion H. eapply D; eauto.
Qed.

(* ---- first loop *)
Lemma wprops_ok : forall n d acc, ids_ok n acc -> dict_ok n d -> ids_ok n (wprops acc d).
Proof.
  unfold wprops. induction d as [|[k e] r IH]; simpl; intros acc A D. exact A.
  apply IH.
  - unfold wentry; simpl. destruct e; [apply ids_ok_put; [exact A | eapply D; left; reflexivity] | exact A].
  - intros k' i H. eapply D. right. exact H.
Qed.

Lemma collect_ok : forall n dicts, (forall d, In d dicts -> dict_ok n d) -> ids_ok n (collect dicts).
Proof.
  unfold collect. intros n dicts. assert (G : forall acc, ids_ok n acc -> (forall d, In d dicts -> dict_ok n d) ->
    ids_ok n (fold_left wprops dicts acc)).
  { induction dicts as [|d r IH]; simpl; intros acc A H. exact A.
    apply IH. apply wprops_ok; auto. intros; apply H; auto. }
  intros H. apply G; auto. intros k i [].
Qed.

Lemma base_dicts_ok : forall s mro d, pinv s -> In d (base_dicts (p_classes s) mro) -> dict_ok (length (p_heap s)) d.
Proof.
  unfold base_dicts. intros s mro d I H. apply in_map_iff in H. destruct H as (k & <- & _).
  destruct (nth_in_or_default k (p_classes s) pcls0) as [H|H].
  - apply I in H. apply H.
  - rewrite H. intros k' i [].
Qed.

(* ---- second loop *)
Definition ovr_ok (r : ovr) : Prop := ids_ok (length (o_heap r)) (o_pd r) /\ dict_ok (length (o_heap r)) (o_dict r).

Lemma ostep_spec : forall bases r kp, ovr_ok r ->
  (exists ext, o_heap (ostep bases r kp) = o_heap r ++ ext) /\ ovr_ok (ostep bases r kp).
Proof.
  intros bases r kp [A D]. unfold ostep.
  destruct (mro_lookup (fst kp) (o_dict r :: bases)) as [[i|v]|].
  - split. exists []. rewrite app_nil_r. reflexivity. split; assumption.
  - simpl. split. eexists. reflexivity.
    unfold ovr_ok; simpl. rewrite app_length; simpl. split.
    + apply ids_ok_put. eapply ids_ok_mono; eauto. lia. lia.
    + apply dict_ok_put. eapply dict_ok_mono; eauto. lia. lia.
  - split. exists []. rewrite app_nil_r. reflexivity. split; assumption.
Qed.

Lemma osteps_spec : forall bases l r, ovr_ok r ->
  (exists ext, o_heap (fold_left (ostep bases) l r) = o_heap r ++ ext) /\ ovr_ok (fold_left (ostep bases) l r).
Proof.
  induction l as [|kp l IH]; simpl; intros r H.
  - split. exists []. rewrite app_nil_r. reflexivity. exact H.
  - destruct (ostep_spec bases r kp H) as [[e1 E1] H1]. destruct (IH _ H1) as [[e2 E2] H2]. split; [|exact H2].
    exists (e1 ++ e2). rewrite E2, E1, app_assoc. reflexivity.
Qed.

(* ---- a class definition *)
Lemma pdefine_spec : forall s d, pinv s ->
  (exists ext, p_heap (pdefine s d) = p_heap s ++ ext) /\
  (exists c, p_classes (pdefine s d) = p_classes s ++ [c]) /\
  p_insts (pdefine s d) = p_insts s /\ pinv (pdefine s d).
Proof.
  intros s d I. unfold pdefine.
  destruct (alloc_body_spec (pd_body d) (p_heap s)) as [[e1 E1] D1].
  set (hl := alloc_body (p_heap s) (pd_body d)) in *.
  set (bases := base_dicts (p_classes s) (pd_mro d)).
  assert (L1 : length (p_heap s) <= length (fst hl)) by (rewrite E1, app_length; lia).
  assert (B : forall x, In x bases -> dict_ok (length (fst hl)) x).
  { intros x Hx. eapply dict_ok_mono. eapply base_dicts_ok; eauto. exact L1. }
  destruct (pd_module d).
  - set (props := collect (rev (snd hl :: bases))).
    assert (P : ids_ok (length (fst hl)) props).
    { apply collect_ok. intros x Hx. apply in_rev in Hx. destruct Hx as [<-|Hx]; auto. }
    assert (O : ovr_ok (mkovr (fst hl) (snd hl) props)) by (split; assumption).
    destruct (osteps_spec bases props _ O) as [[e2 E2] [A2 D2]].
    set (r := fold_left (ostep bases) props (mkovr (fst hl) (snd hl) props)) in *. simpl in E2.
    simpl. split; [|split; [|split]].
    + exists (e1 ++ e2). rewrite E2, E1, app_assoc. reflexivity.
    + eexists. reflexivity.
    + reflexivity.
    + intros c Hc. simpl in Hc. apply in_app_or in Hc. destruct Hc as [Hc|[<-|[]]].
      * eapply cls_ok_mono. apply I. exact Hc. simpl. rewrite E2, app_length. lia.
      * split; simpl; assumption.
  - simpl. split; [|split; [|split]].
    + exists e1. exact E1.
    + eexists. reflexivity.
    + reflexivity.
    + intros c Hc. simpl in Hc. apply in_app_or in Hc. destruct Hc as [Hc|[<-|[]]].
      * eapply cls_ok_mono. apply I. exact Hc. simpl. exact L1.
      * split; simpl. intros k i []. exact D1.
Qed.

Lemma set_nth_inst_length : forall l j x, length (set_nth_inst l j x) = length l.
Proof. induction l; destruct j; simpl; intros; auto. Qed.

Lemma set_nth_inst_other : forall l i j x, i <> j -> nth j (set_nth_inst l i x) pdead = nth j l pdead.
Proof.
  induction l as [|y r IH]; intros i j x H; simpl. destruct i; reflexivity.
  destruct i, j; simpl; try reflexivity. congruence. apply IH. congruence.
Qed.

Lemma psetprop_spec : forall s j k v,
  p_heap (psetprop s j k v) = p_heap s /\ p_classes (psetprop s j k v) = p_classes s /\
  length (p_insts (psetprop s j k v)) = length (p_insts s) /\
  (forall i, i <> j -> nth i (p_insts (psetprop s j k v)) pdead = nth i (p_insts s) pdead).
Proof.
  intros. unfold psetprop. destruct (pi_alive (nth j (p_insts s) pdead)); [|auto].
  destruct (assoc_nat k _); [|auto]. destruct (in_range _ v); [|auto]. simpl.
  repeat split; auto. apply set_nth_inst_length. intros; apply set_nth_inst_other; auto.
Qed.

(* ---- one op *)
Lemma pstep_spec : forall s o, pinv s ->
  (exists ext, p_heap (pstep s o) = p_heap s ++ ext) /\
  (exists l, p_classes (pstep s o) = p_classes s ++ l) /\
  length (p_insts s) <= length (p_insts (pstep s o)) /\
  (forall j, j < length (p_insts s) -> paddresses o j = false ->
     nth j (p_insts (pstep s o)) pdead = nth j (p_insts s) pdead) /\
  pinv (pstep s o).
Proof.
  intros s o I. destruct o as [d|ci ok cfg|j k v|]; simpl.
  - destruct (pdefine_spec s d I) as (H & [c C] & N & I'). rewrite N.
    split; [exact H|]. split; [exists [c]; exact C|]. split; [lia|]. split; [auto|exact I'].
  - split; [exists []; rewrite app_nil_r; reflexivity|]. split; [exists []; rewrite app_nil_r; reflexivity|].
    split; [rewrite app_length; lia|]. split; [|exact I]. intros j Hj _. apply app_nth1; exact Hj.
  - destruct (psetprop_spec s j k v) as (H & C & L & O). rewrite H, C, L.
    split; [exists []; rewrite app_nil_r; reflexivity|]. split; [exists []; rewrite app_nil_r; reflexivity|].
    split; [lia|]. split.
    + intros i _ Hi. apply O. apply Nat.eqb_neq in Hi. congruence.
    + intros c Hc. rewrite H. apply I. rewrite <- C. exact Hc.
  - split; [exists []; rewrite app_nil_r; reflexivity|]. split; [exists []; rewrite app_nil_r; reflexivity|].
    split; [lia|]. split; [auto|exact I].
Qed.

Lemma pinv0 : pinv pstate0.
Proof.
  intros c [<-|[]]. split; simpl.
  - intros k i [H|[H|[]]]; inversion H; simpl; lia.
  - intros k i [H|[H|[]]]; inversion H; simpl; lia.
Qed.

Lemma pinv_steps : forall ops s, pinv s -> pinv (fold_left pstep ops s).
Proof. induction ops; simpl; intros; auto. apply IHops. apply pstep_spec; assumption. Qed.

Lemma pinv_run : forall ops, pinv (prun ops).
Proof. intros; apply pinv_steps, pinv0. Qed.

(* ---- reading through the heap *)
Lemma getpo_ext : forall h ext i, i < length h -> getpo (h ++ ext) i = getpo h i.
Proof. intros. unfold getpo. apply app_nth1. assumption. Qed.

Lemma pdescribe_ext : forall h ext c, ids_ok (length h) (pc_pd c) -> pdescribe (h ++ ext) c = pdescribe h c.
Proof.
  intros h ext c H. unfold pdescribe. apply map_ext_in. intros [k i] Hin. simpl. f_equal. apply getpo_ext. eapply H; eauto.
Qed.

Lemma class_kept_step : forall s o ci, pinv s -> ci < length (p_classes s) ->
  pclass_at (pstep s o) ci = pclass_at s ci /\
  pdescribe (p_heap (pstep s o)) (pclass_at s ci) = pdescribe (p_heap s) (pclass_at s ci).
Proof.
  intros s o ci I L. destruct (pstep_spec s o I) as ([ext E] & [l C] & _). split.
  - unfold pclass_at. rewrite C. apply app_nth1. exact L.
  - rewrite E. apply pdescribe_ext. apply I. apply nth_In. exact L.
Qed.

Lemma class_kept_steps : forall ops s ci, pinv s -> ci < length (p_classes s) ->
  pclass_at (fold_left pstep ops s) ci = pclass_at s ci /\
  pdescribe (p_heap (fold_left pstep ops s)) (pclass_at s ci) = pdescribe (p_heap s) (pclass_at s ci).
Proof.
  induction ops as [|o ops IH]; simpl; intros s ci I L. auto.
  destruct (class_kept_step s o ci I L) as [A B].
  destruct (pstep_spec s o I) as (_ & [l C] & _ & _ & I').
  assert (L' : ci < length (p_classes (pstep s o))) by (rewrite C, app_length; lia).
  destruct (IH _ ci I' L') as [A' B']. rewrite A in *. split; congruence.
Qed.

Lemma inst_kept_steps : forall ops s j, pinv s -> j < length (p_insts s) ->
  forallb (fun o => negb (paddresses o j)) ops = true ->
  nth j (p_insts (fold_left pstep ops s)) pdead = nth j (p_insts s) pdead.
Proof.
  induction ops as [|o ops IH]; simpl; intros s j I L H. reflexivity.
  apply andb_true_iff in H. destruct H as [H1 H2]. apply negb_true_iff in H1.
  destruct (pstep_spec s o I) as (_ & _ & N & K & I').
  rewrite IH; auto. lia.
Qed.

Lemma flat_map_map : forall A B C (g : A -> B) (f : B -> list C) l, flat_map f (map g l) = flat_map (fun x => f (g x)) l.
Proof. induction l; simpl; intros; auto. rewrite IHl. reflexivity. Qed.

(* a new instance: a function of the content of the Property objects of its class and of its configuration *)
Lemma pnew_inst_is_spec : forall s ci ok cfg,
  pnew_inst s ci ok cfg = pinst_spec ci ok (pdescribe (p_heap s) (pclass_at s ci)) cfg.
Proof.
  intros. unfold pnew_inst, pinst_spec, pdescribe, preset. destruct ok; [|reflexivity].
  rewrite flat_map_map, map_map. simpl. reflexivity.
Qed.

Lemma later_instance_same : forall ops s ci ok cfg, pinv s -> ci < length (p_classes s) ->
  pnew_inst (fold_left pstep ops s) ci ok cfg = pnew_inst s ci ok cfg.
Proof.
  intros. rewrite !pnew_inst_is_spec. destruct (class_kept_steps ops s ci H H0) as [A B]. rewrite A, B. reflexivity.
Qed.

Lemma fold_left_app_step : forall a b s, fold_left pstep (a ++ b) s = fold_left pstep b (fold_left pstep a s).
Proof. intros; apply fold_left_app. Qed.
