(* C09 -- lemmas for the command / mixin component (CmdModel.v): the heap-disjointness invariant xinv (no argument /
   result datatype object of an instance is referenced by a class level Command object or by another instance; the
   callback dict of an instance is neither the class attribute nor the dict of another instance), its preservation by
   every op, and the frame properties that follow from it. *)
From Coq Require Import List Arith ZArith Bool Lia.
Import ListNotations.
Require Import FV.C09.Model FV.C09.Lemmas FV.C09.CmdModel.

(* ---------- references *)
Definition oref (o : option (option id)) : list id := match o with Some (Some a) => [a] | _ => [] end.
Definition qrefs (q : cprops) : list id := oref (q_arg q) ++ oref (q_res q).
Definition crefs (c : ccell) : list id := qrefs (cv c) ++ qrefs (cown c).
Definition class_refs (cells : list ccell) : list id := flat_map crefs cells.
Definition iref (o : option id) : list id := match o with Some a => [a] | None => [] end.
Definition irefs (c : icmd) : list id := iref (ic_arg c) ++ iref (ic_res c).
Definition xowned (x : xinst) : list id := flat_map (fun kc => irefs (snd kc)) (xi_cmds x).
Definition inst_at (s : xstate) (i : nat) : xinst := nth i (xinsts s) xdead.

Record xinv (s : xstate) : Prop := {
  I1 : forall x, In x (class_refs (xcells s)) -> x < length (xdts s);
  I2 : forall i x, In x (xowned (inst_at s i)) -> x < length (xdts s) /\ ~ In x (class_refs (xcells s));
  I3 : forall i j x, i <> j -> In x (xowned (inst_at s i)) -> ~ In x (xowned (inst_at s j));
  M1 : forall i d, xi_cb (inst_at s i) = Some d -> d < length (xcbs s) /\ xclscb s <> Some d;
  M2 : forall i j d, i <> j -> xi_cb (inst_at s i) = Some d -> xi_cb (inst_at s j) <> Some d;
  M3 : forall d, xclscb s = Some d -> d < length (xcbs s);
  M4 : xcls_inputs s = [] }.

(* ---------- lists *)
Lemma In_set_nth : forall A (l : list A) i x y, In y (set_nth l i x) -> y = x \/ In y l.
Proof.
  induction l; destruct i; simpl; intros; auto.
  - destruct H; auto.
  - destruct H; auto. apply IHl in H. tauto.
Qed.

Lemma nth_in_or_default : forall A (l : list A) i d, nth i l d = d \/ In (nth i l d) l.
Proof. intros. destruct (nth_in_or_default i l d); auto. Qed.

Lemma nth_snoc : forall A (l : list A) x d, nth (length l) (l ++ [x]) d = x.
Proof. intros. rewrite app_nth2 by lia. rewrite Nat.sub_diag. reflexivity. Qed.

Lemma nth_beyond : forall A (l : list A) i d, length l <= i -> nth i l d = d.
Proof. intros. apply nth_overflow. assumption. Qed.

Lemma getc_refs_in : forall cells i x, In x (crefs (getc cells i)) -> In x (class_refs cells).
Proof.
  intros cells i x H. unfold getc in H. destruct (nth_in_or_default _ cells i ccell0) as [E|E].
  - rewrite E in H. simpl in H. contradiction.
  - unfold class_refs. apply in_flat_map. eauto.
Qed.

Lemma qrefs_set_desc : forall p z, qrefs (q_set_desc p z) = qrefs p.
Proof. reflexivity. Qed.

Lemma oref_ov : forall a b x, In x (oref (ov a b)) -> In x (oref a) \/ In x (oref b).
Proof. intros a b x. destruct b as [[b|]|]; simpl; auto. Qed.

Lemma qrefs_update : forall m o x, In x (qrefs (q_update m o)) -> In x (qrefs m) \/ In x (qrefs o).
Proof.
  intros m o x H. unfold qrefs, q_update in *. simpl in H. apply in_app_or in H.
  destruct H as [H|H]; apply oref_ov in H; destruct H; auto using in_or_app.
Qed.

(* ---------- a class definition: everything it does to the heap, relative to the heap it started from *)
Definition okref (n0 : nat) (R0 : id -> Prop) (n : nat) (x : id) : Prop := (R0 x \/ n0 <= x) /\ x < n.

(* n0 datatype objects existed (content ds0), referenced by the class level as R0 says: the old ones keep their content,
   and every Command object references only what was referenced before or is new *)
Definition HI (n0 : nat) (R0 : id -> Prop) (ds0 : list cdt) (h : xheap) : Prop :=
  n0 <= length (snd h) /\
  (forall j, j < n0 -> getcd (snd h) j = getcd ds0 j) /\
  (forall c, In c (fst h) -> forall x, In x (crefs c) -> okref n0 R0 (length (snd h)) x).

Section Define.
Variables (n0 : nat) (R0 : id -> Prop) (ds0 : list cdt).
Notation HI' := (HI n0 R0 ds0).
Notation ok := (okref n0 R0).

Lemma ok_mono : forall n n' x, ok n x -> n <= n' -> ok n' x.
Proof. unfold okref. intros. intuition lia. Qed.

Lemma HI_cell : forall h i x, HI' h -> In x (crefs (getc (fst h) i)) -> ok (length (snd h)) x.
Proof.
  intros h i x (A & B & C) H. unfold getc in H. destruct (nth_in_or_default _ (fst h) i ccell0) as [E|E].
  - rewrite E in H. simpl in H. contradiction.
  - eapply C; eauto.
Qed.

Lemma HI_alloc_dt : forall h d, HI' h -> HI' (fst (xalloc_dt h d)).
Proof.
  intros h d (A & B & C). unfold xalloc_dt. simpl. split; [|split]; simpl.
  - rewrite app_length. lia.
  - intros j Hj. unfold getcd. rewrite app_nth1 by lia. apply B. assumption.
  - intros c Hc x Hx. eapply ok_mono; [eapply C; eauto|]. rewrite app_length. lia.
Qed.

Lemma HI_set_dt : forall h i d, HI' h -> n0 <= i -> HI' (xset_dt h i d).
Proof.
  intros h i d (A & B & C) Hi. unfold xset_dt. split; [|split]; simpl.
  - rewrite length_set_nth. assumption.
  - intros j Hj. unfold getcd. rewrite nth_set_nth_other by lia. apply B. assumption.
  - intros c Hc x Hx. rewrite length_set_nth. eapply C; eauto.
Qed.

Lemma HI_alloc_cell : forall h c, HI' h -> (forall x, In x (crefs c) -> ok (length (snd h)) x) ->
  HI' (fst (xalloc_cell h c)).
Proof.
  intros h c (A & B & C) Hc. unfold xalloc_cell. split; [|split]; simpl; auto.
  intros c' Hin x Hx. apply in_app_or in Hin. destruct Hin as [Hin|[<-|[]]]; eauto.
Qed.

Lemma HI_set_cell : forall h i c, HI' h -> (forall x, In x (crefs c) -> ok (length (snd h)) x) ->
  HI' (xset_cell h i c).
Proof.
  intros h i c (A & B & C) Hc. unfold xset_cell. split; [|split]; simpl; auto.
  intros c' Hin x Hx. apply In_set_nth in Hin. destruct Hin as [->|Hin]; eauto.
Qed.

Lemma HI_call_write : forall h c defs, HI' h ->
  (forall a, q_arg (cv (getc (fst h) c)) = Some (Some a) -> n0 <= a) -> HI' (call_write h c defs).
Proof.
  intros h c defs H Ha. unfold call_write. destruct (q_arg (cv (getc (fst h) c))) as [[a|]|]; auto.
  apply HI_set_dt; auto.
Qed.

Lemma call_write_cells : forall h c defs, fst (call_write h c defs) = fst h.
Proof. intros. unfold call_write. destruct (q_arg (cv (getc (fst h) c))) as [[a|]|]; reflexivity. Qed.

Lemma HI_call_desc : forall h c doc, HI' h -> HI' (call_desc h c doc).
Proof.
  intros h c doc H. unfold call_desc. destruct (q_desc (cown (getc (fst h) c))); auto. destruct doc; auto.
  apply HI_set_cell; auto. intros x Hx. eapply HI_cell with (i := c); eauto.
Qed.

Lemma xalloc_opt_spec : forall h o h' i, xalloc_opt h o = (h', i) -> HI' h ->
  HI' h' /\ fst h' = fst h /\ length (snd h) <= length (snd h') /\
  (forall a, i = Some a -> n0 <= a /\ a < length (snd h')).
Proof.
  intros h o h' i E H. unfold xalloc_opt in E. destruct o as [d|].
  - inversion E; subst. split; [apply (HI_alloc_dt h d H)|]. simpl. rewrite app_length. simpl.
    destruct H as (A & _). split; [reflexivity|]. split; [lia|]. intros a Ea. inversion Ea; subst. lia.
  - inversion E; subst. split; [assumption|]. split; [reflexivity|]. split; [lia|]. intros a Ea. discriminate.
Qed.

Lemma xcopy_opt_spec : forall h o h' o', xcopy_opt h o = (h', o') -> HI' h ->
  HI' h' /\ fst h' = fst h /\ length (snd h) <= length (snd h') /\
  (forall a, In a (oref o') -> n0 <= a /\ a < length (snd h')).
Proof.
  intros h o h' o' E H. unfold xcopy_opt in E. destruct o as [[a|]|].
  - inversion E; subst. split; [apply (HI_alloc_dt h _ H)|]. simpl. rewrite app_length. simpl.
    destruct H as (A & _). split; [reflexivity|]. split; [lia|]. intros a0 [<-|[]]. lia.
  - inversion E; subst. split; [assumption|]. split; [reflexivity|]. split; [lia|]. intros a0 [].
  - inversion E; subst. split; [assumption|]. split; [reflexivity|]. split; [lia|]. intros a0 [].
Qed.

Lemma HI_new_cmd : forall h s, HI' h -> HI' (fst (new_cmd h s)).
Proof.
  intros h s H. unfold new_cmd.
  destruct (x_sig s) as [[a r]|].
  - destruct (xalloc_opt h a) as [h1 ai] eqn:E1. destruct (xalloc_opt h1 r) as [h2 ri] eqn:E2.
    destruct (xalloc_opt_spec _ _ _ _ E1 H) as (H1 & C1 & L1 & F1).
    destruct (xalloc_opt_spec _ _ _ _ E2 H1) as (H2 & C2 & L2 & F2).
    set (p := {| q_desc := x_desc s; q_arg := Some ai; q_res := Some ri |}).
    assert (H3 : HI' (fst (xalloc_cell h2 {| cv := p; cown := p |}))).
    { apply HI_alloc_cell; auto. intros x Hx. unfold crefs, qrefs in Hx. simpl in Hx.
      assert (Hx' : In x (oref (Some ai)) \/ In x (oref (Some ri))) by (repeat (apply in_app_or in Hx; destruct Hx as [Hx|Hx]); auto).
      unfold okref. destruct Hx' as [Hx'|Hx'].
      - destruct ai as [a0|]; simpl in Hx'; [destruct Hx' as [<-|[]]|contradiction].
        destruct (F1 a0 eq_refl). split; [right; lia | lia].
      - destruct ri as [r0|]; simpl in Hx'; [destruct Hx' as [<-|[]]|contradiction].
        destruct (F2 r0 eq_refl). split; [right; lia | lia]. }
    simpl. apply HI_call_desc. apply HI_call_write; auto.
    simpl. intros a0 Ea. unfold getc in Ea. rewrite nth_snoc in Ea. simpl in Ea. inversion Ea; subst.
    destruct (F1 a0 eq_refl). lia.
  - set (p := {| q_desc := x_desc s; q_arg := None; q_res := None |}).
    simpl. apply HI_call_desc. apply HI_call_write.
    + apply HI_alloc_cell; auto. intros x Hx. simpl in Hx. contradiction.
    + simpl. intros a0 Ea. unfold getc in Ea. rewrite nth_snoc in Ea. simpl in Ea. discriminate.
Qed.

Lemma HI_new_entry : forall hd ne, HI' (fst hd) -> HI' (fst (xnew_entry hd ne)).
Proof.
  intros [h d] [n e] H. simpl in *. destruct e as [s|doc defs|]; simpl; auto.
  destruct (new_cmd h s) as [h' i] eqn:E. simpl.
  replace h' with (fst (new_cmd h s)) by (rewrite E; reflexivity). apply HI_new_cmd. assumption.
Qed.

Lemma HI_new_entries : forall l hd, HI' (fst hd) -> HI' (fst (fold_left xnew_entry l hd)).
Proof. induction l; simpl; intros; auto. apply IHl. apply HI_new_entry. assumption. Qed.

(* the merged properties collected by the first loop reference only what Command objects reference *)
Definition qok (h : xheap) (q : cprops) : Prop := forall x, In x (qrefs q) -> ok (length (snd h)) x.

Lemma xwstep_ok : forall h w e, HI' h -> qok h (xw_M w) -> qok h (xw_M (xwstep (fst h) w e)).
Proof.
  intros h w e H Hw. destruct e as [i|doc defs|]; simpl.
  - intros x Hx. apply qrefs_update in Hx. destruct Hx as [Hx|Hx]; auto.
    eapply HI_cell with (i := i); eauto. unfold crefs. apply in_or_app. auto.
  - destruct (xw_acc w); auto.
  - destruct (xw_acc w); auto.
Qed.

Lemma xwalk_ok : forall h cs mro k, HI' h -> qok h (xw_M (xwalk (fst h) cs mro k)).
Proof.
  intros h cs mro k H. unfold xwalk.
  assert (G : forall l w, qok h (xw_M w) -> qok h (xw_M (fold_left (xwstep (fst h)) l w))).
  { induction l; simpl; intros; auto. apply IHl. apply xwstep_ok; assumption. }
  apply G. intros x Hx. simpl in Hx. contradiction.
Qed.

Lemma HI_clone_cmd : forall h M, HI' h ->
  HI' (fst (clone_cmd h M)) /\
  (forall a, q_arg (cv (getc (fst (fst (clone_cmd h M))) (snd (clone_cmd h M)))) = Some (Some a) -> n0 <= a).
Proof.
  intros h M H. unfold clone_cmd.
  destruct (xcopy_opt h (q_arg M)) as [h1 a] eqn:E1. destruct (xcopy_opt h1 (q_res M)) as [h2 r] eqn:E2.
  destruct (xcopy_opt_spec _ _ _ _ E1 H) as (H1 & C1 & L1 & F1).
  destruct (xcopy_opt_spec _ _ _ _ E2 H1) as (H2 & C2 & L2 & F2).
  split.
  - apply HI_alloc_cell; auto. intros x Hx. unfold crefs, qrefs in Hx. simpl in Hx. rewrite app_nil_r in Hx.
    apply in_app_or in Hx. unfold okref. destruct Hx as [Hx|Hx].
    + destruct (F1 x Hx). split; [right; lia | lia].
    + destruct (F2 x Hx). split; [right; lia | lia].
  - simpl. intros a0 Ea. unfold getc in Ea. rewrite nth_snoc in Ea. simpl in Ea. subst a.
    destruct (F1 a0); simpl; auto.
Qed.

Lemma HI_create_from_func : forall h M doc defs, HI' h -> HI' (fst (create_from_func h M doc defs)).
Proof.
  intros h M doc defs H. unfold create_from_func.
  destruct (HI_clone_cmd h M H) as [H1 F]. destruct (clone_cmd h M) as [h1 c]. simpl in *.
  apply HI_call_desc. apply HI_call_write; assumption.
Qed.

Lemma HI_merge_cmd : forall h w M, HI' h -> qok h M -> HI' (merge_cmd h w M).
Proof.
  intros h w M H HM. unfold merge_cmd. apply HI_set_cell; auto.
  intros x Hx. unfold crefs in Hx. simpl in Hx. apply in_app_or in Hx. destruct Hx as [Hx|Hx].
  - apply qrefs_update in Hx. destruct Hx as [Hx|Hx]; auto.
    eapply HI_cell with (i := w); eauto. unfold crefs. apply in_or_app. auto.
  - eapply HI_cell with (i := w); eauto. unfold crefs. apply in_or_app. auto.
Qed.

Lemma HI_resolve_name : forall cs mro r k, HI' (xr_heap r) -> HI' (xr_heap (xresolve_name cs mro r k)).
Proof.
  intros cs mro r k H. unfold xresolve_name.
  pose proof (xwalk_ok (xr_heap r) cs mro k H) as W.
  destruct (xw_acc (xwalk (fst (xr_heap r)) cs mro k)) as [wid|]; auto.
  destruct (xw_ov (xwalk (fst (xr_heap r)) cs mro k)) as [[[doc defs]|]|]; auto.
  - destruct (create_from_func (xr_heap r) _ doc defs) as [h' n] eqn:E. simpl.
    replace h' with (fst (create_from_func (xr_heap r) (xw_M (xwalk (fst (xr_heap r)) cs mro k)) doc defs))
      by (rewrite E; reflexivity).
    apply HI_create_from_func. assumption.
  - simpl. apply HI_merge_cmd; assumption.
Qed.

Lemma HI_resolve_names : forall cs mro l r, HI' (xr_heap r) -> HI' (xr_heap (fold_left (xresolve_name cs mro) l r)).
Proof. induction l; simpl; intros; auto. apply IHl. apply HI_resolve_name. assumption. Qed.

End Define.

Lemma HI_define_core : forall s d, xinv s ->
  HI (length (xdts s)) (fun x => In x (class_refs (xcells s))) (xdts s) (xr_heap (xdefine_core s d)).
Proof.
  intros s d V. unfold xdefine_core.
  assert (H0 : HI (length (xdts s)) (fun x => In x (class_refs (xcells s))) (xdts s) (xcells s, xdts s)).
  { repeat split; simpl; auto.
    - left. unfold class_refs. apply in_flat_map. eauto.
    - apply (I1 s V). unfold class_refs. apply in_flat_map. eauto. }
  pose proof (HI_new_entries _ _ _ (xd_dict d) ((xcells s, xdts s), []) H0) as H1.
  destruct (fold_left xnew_entry (xd_dict d) (xcells s, xdts s, [])) as [h1 dict1]. simpl in H1.
  destruct (xd_module d); [|simpl; assumption].
  apply HI_resolve_names. simpl. assumption.
Qed.

(* what a class definition does to the argument / result datatype objects: none that existed is written, and the
   Command objects reference, besides new ones, only what Command objects referenced before *)
Lemma xdefine_heap : forall s d, xinv s ->
  length (xdts s) <= length (xdts (xdefine s d)) /\
  (forall j, j < length (xdts s) -> getcd (xdts (xdefine s d)) j = getcd (xdts s) j) /\
  (forall x, In x (class_refs (xcells (xdefine s d))) ->
     (In x (class_refs (xcells s)) \/ length (xdts s) <= x) /\ x < length (xdts (xdefine s d))).
Proof.
  intros s d V. destruct (HI_define_core s d V) as (A & B & C). unfold xdefine; simpl. repeat split; auto;
  unfold class_refs in H; apply in_flat_map in H; destruct H as (c & Hc & Hx); destruct (C c Hc x Hx); auto.
Qed.

(* ---------- instantiation: only new datatype objects, all owned by the new instance *)
Lemma inst_cmd_spec : forall cells cfg l ds0 out0 ds out,
  fold_left (inst_cmd cells cfg) l (ds0, out0) = (ds, out) ->
  (exists ext, ds = ds0 ++ ext) /\
  (forall x, In x (flat_map (fun kc => irefs (snd kc)) out) ->
     In x (flat_map (fun kc => irefs (snd kc)) out0) \/ (length ds0 <= x /\ x < length ds)).
Proof.
  induction l as [|ki l IH]; simpl; intros ds0 out0 ds out E.
  - inversion E; subst. split; [exists []; rewrite app_nil_r; reflexivity | auto].
  - destruct (xcopy_opt (cells, ds0) (q_arg (cv (getc cells (snd ki))))) as [h1 a] eqn:E1.
    destruct (xcopy_opt h1 (q_res (cv (getc cells (snd ki))))) as [h2 r] eqn:E2.
    apply IH in E. destruct E as [[ext Eext] F].
    assert (P1 : (exists e1, snd h1 = ds0 ++ e1) /\ forall x, In x (oref a) -> length ds0 <= x /\ x < length (snd h1)).
    { unfold xcopy_opt in E1. destruct (q_arg (cv (getc cells (snd ki)))) as [[a0|]|]; inversion E1; subst; simpl.
      - split; [eexists; reflexivity|]. intros x [<-|[]]. rewrite app_length. simpl. lia.
      - split; [exists []; rewrite app_nil_r; reflexivity | intros x []].
      - split; [exists []; rewrite app_nil_r; reflexivity | intros x []]. }
    assert (P2 : (exists e2, snd h2 = snd h1 ++ e2) /\ forall x, In x (oref r) -> length (snd h1) <= x /\ x < length (snd h2)).
    { unfold xcopy_opt in E2. destruct (q_res (cv (getc cells (snd ki)))) as [[a0|]|]; inversion E2; subst; simpl.
      - split; [eexists; reflexivity|]. intros x [<-|[]]. rewrite app_length. simpl. lia.
      - split; [exists []; rewrite app_nil_r; reflexivity | intros x []].
      - split; [exists []; rewrite app_nil_r; reflexivity | intros x []]. }
    destruct P1 as [[e1 Ee1] F1]. destruct P2 as [[e2 Ee2] F2].
    split.
    + exists (e1 ++ e2 ++ ext). rewrite Eext, Ee2, Ee1. repeat rewrite <- app_assoc. reflexivity.
    + intros x Hx. apply F in Hx.
      assert (L1 : length ds0 <= length (snd h1)) by (rewrite Ee1, app_length; lia).
      assert (L2 : length (snd h1) <= length (snd h2)) by (rewrite Ee2, app_length; lia).
      assert (L3 : length (snd h2) <= length ds) by (rewrite Eext, app_length; lia).
      destruct Hx as [Hx|Hx]; [|right; lia].
      rewrite flat_map_app in Hx. apply in_app_or in Hx. destruct Hx as [Hx|Hx]; auto.
      simpl in Hx. rewrite app_nil_r in Hx. unfold irefs in Hx. simpl in Hx.
      right. apply in_app_or in Hx. destruct Hx as [Hx|Hx].
      * assert (Hx' : In x (oref a)) by (destruct a as [[a0|]|]; simpl in *; auto). apply F1 in Hx'. lia.
      * assert (Hx' : In x (oref r)) by (destruct r as [[a0|]|]; simpl in *; auto). apply F2 in Hx'. lia.
Qed.

Lemma inst_at_snoc_old : forall (l : list xinst) x i, i < length l -> nth i (l ++ [x]) xdead = nth i l xdead.
Proof. intros. apply app_nth1. assumption. Qed.

(* the instances of s with one more: the cases of an index *)
Lemma nth_snoc_cases : forall (l : list xinst) x i,
  (i < length l /\ nth i (l ++ [x]) xdead = nth i l xdead) \/ (i = length l /\ nth i (l ++ [x]) xdead = x) \/
  (length l < i /\ nth i (l ++ [x]) xdead = xdead).
Proof.
  intros l x i. destruct (Nat.lt_trichotomy i (length l)) as [H|[H|H]].
  - left. split; auto. apply app_nth1. assumption.
  - right; left. subst. split; auto. apply nth_snoc.
  - right; right. split; auto. apply nth_overflow. rewrite app_length. simpl. lia.
Qed.

Lemma old_inst_beyond : forall s i, length (xinsts s) <= i -> inst_at s i = xdead.
Proof. intros. unfold inst_at. apply nth_overflow. assumption. Qed.

(* ---------- the invariant *)
Lemma xinv0 : xinv xstate0.
Proof.
  split; simpl; try contradiction; try discriminate; auto.
  - intros i x. unfold inst_at. simpl. destruct i; simpl; contradiction.
  - intros i j x _. unfold inst_at. simpl. destruct i; simpl; contradiction.
  - intros i d. unfold inst_at. simpl. destruct i; simpl; discriminate.
  - intros i j d _. unfold inst_at. simpl. destruct i; simpl; discriminate.
Qed.

Lemma xinv_define : forall s d, xinv s -> xinv (xdefine s d).
Proof.
  intros s d V. destruct (xdefine_heap s d V) as (L & B & C).
  split.
  - intros x Hx. apply C. assumption.
  - intros i x Hx. change (inst_at (xdefine s d) i) with (inst_at s i) in Hx.
    destruct (I2 s V i x Hx) as [Hl Hn]. split; [lia|]. intro Hc. destruct (C x Hc) as [[Hc'|Hc'] _]; [auto | lia].
  - intros i j x. apply (I3 s V).
  - intros i dd. apply (M1 s V).
  - intros i j dd. apply (M2 s V).
  - apply (M3 s V).
  - apply (M4 s V).
Qed.

Lemma xinv_inst : forall s ci ok cfg, xinv s -> xinv (xinstantiate s ci ok cfg).
Proof.
  intros s ci ok cfg V. unfold xinstantiate. destruct ok.
  - destruct (fold_left (inst_cmd (xcells s) cfg) (xc_acc (nth ci (xclasses s) xcls0)) (xdts s, [])) as [ds cmds] eqn:E.
    destruct (inst_cmd_spec _ _ _ _ _ _ _ E) as [[ext Eext] F].
    assert (L : length (xdts s) <= length ds) by (rewrite Eext, app_length; lia).
    assert (Fn : forall x, In x (flat_map (fun kc : name * icmd => irefs (snd kc)) cmds) -> length (xdts s) <= x /\ x < length ds).
    { intros x Hx. destruct (F x Hx) as [[]|]; assumption. }
    split; simpl.
    + intros x Hx. pose proof (I1 s V x Hx). lia.
    + intros i x Hx. unfold inst_at in Hx. simpl in Hx.
      destruct (nth_snoc_cases (xinsts s) {| xi_alive := true; xi_cmds := cmds; xi_cb := None |} i) as [[Hi Ei]|[[Hi Ei]|[Hi Ei]]];
      rewrite Ei in Hx.
      * destruct (I2 s V i x Hx). split; [lia | assumption].
      * unfold xowned in Hx. simpl in Hx. destruct (Fn x Hx). split; [assumption|]. intro Hc. pose proof (I1 s V x Hc). lia.
      * simpl in Hx. contradiction.
    + intros i j x Hij Hi Hj. unfold inst_at in *. simpl in *.
      destruct (nth_snoc_cases (xinsts s) {| xi_alive := true; xi_cmds := cmds; xi_cb := None |} i) as [[Li Ei]|[[Li Ei]|[Li Ei]]];
      destruct (nth_snoc_cases (xinsts s) {| xi_alive := true; xi_cmds := cmds; xi_cb := None |} j) as [[Lj Ej]|[[Lj Ej]|[Lj Ej]]];
      rewrite Ei in Hi; rewrite Ej in Hj; try (simpl in Hi; contradiction); try (simpl in Hj; contradiction); try lia.
      * apply (I3 s V i j x Hij Hi Hj).
      * unfold xowned in Hj. simpl in Hj. destruct (Fn x Hj). destruct (I2 s V i x Hi). lia.
      * unfold xowned in Hi. simpl in Hi. destruct (Fn x Hi). destruct (I2 s V j x Hj). lia.
    + intros i dd Hi. unfold inst_at in Hi. simpl in Hi.
      destruct (nth_snoc_cases (xinsts s) {| xi_alive := true; xi_cmds := cmds; xi_cb := None |} i) as [[Li Ei]|[[Li Ei]|[Li Ei]]];
      rewrite Ei in Hi; try discriminate. apply (M1 s V i dd Hi).
    + intros i j dd Hij Hi Hj. unfold inst_at in *. simpl in *.
      destruct (nth_snoc_cases (xinsts s) {| xi_alive := true; xi_cmds := cmds; xi_cb := None |} i) as [[Li Ei]|[[Li Ei]|[Li Ei]]];
      destruct (nth_snoc_cases (xinsts s) {| xi_alive := true; xi_cmds := cmds; xi_cb := None |} j) as [[Lj Ej]|[[Lj Ej]|[Lj Ej]]];
      rewrite Ei in Hi; rewrite Ej in Hj; try discriminate. apply (M2 s V i j dd Hij Hi Hj).
    + apply (M3 s V).
    + apply (M4 s V).
  - split; simpl.
    + apply (I1 s V).
    + intros i x Hx. unfold inst_at in Hx. simpl in Hx.
      destruct (nth_snoc_cases (xinsts s) xdead i) as [[Hi Ei]|[[Hi Ei]|[Hi Ei]]]; rewrite Ei in Hx;
      try (simpl in Hx; contradiction). apply (I2 s V i x Hx).
    + intros i j x Hij Hi Hj. unfold inst_at in *. simpl in *.
      destruct (nth_snoc_cases (xinsts s) xdead i) as [[Li Ei]|[[Li Ei]|[Li Ei]]]; rewrite Ei in Hi;
      try (simpl in Hi; contradiction).
      destruct (nth_snoc_cases (xinsts s) xdead j) as [[Lj Ej]|[[Lj Ej]|[Lj Ej]]]; rewrite Ej in Hj;
      try (simpl in Hj; contradiction). apply (I3 s V i j x Hij Hi Hj).
    + intros i dd Hi. unfold inst_at in Hi. simpl in Hi.
      destruct (nth_snoc_cases (xinsts s) xdead i) as [[Li Ei]|[[Li Ei]|[Li Ei]]]; rewrite Ei in Hi; try discriminate.
      apply (M1 s V i dd Hi).
    + intros i j dd Hij Hi Hj. unfold inst_at in *. simpl in *.
      destruct (nth_snoc_cases (xinsts s) xdead i) as [[Li Ei]|[[Li Ei]|[Li Ei]]]; rewrite Ei in Hi; try discriminate.
      destruct (nth_snoc_cases (xinsts s) xdead j) as [[Lj Ej]|[[Lj Ej]|[Lj Ej]]]; rewrite Ej in Hj; try discriminate.
      apply (M2 s V i j dd Hij Hi Hj).
    + apply (M3 s V).
    + apply (M4 s V).
Qed.

Lemma xinv_setarg : forall s i k res path key v, xinv s -> xinv (xsetarg s i k res path key v).
Proof.
  intros s i k res path key v V. unfold xsetarg.
  destruct (lookup k (xi_cmds (nth i (xinsts s) xdead))) as [c|]; auto.
  destruct (if res then ic_res c else ic_arg c) as [a|]; auto.
  split; simpl; try rewrite length_set_nth.
  - apply (I1 s V).
  - apply (I2 s V).
  - apply (I3 s V).
  - apply (M1 s V).
  - apply (M2 s V).
  - apply (M3 s V).
  - apply (M4 s V).
Qed.

(* the dict register_input writes to: a new one, or the one bound to the instance already *)
Lemma register_target : forall s i, xinv s ->
  let x := inst_at s i in
  let '(cbs1, d) := match cb_of s x with
                    | Some d => if is_nil (cb_read s (Some d)) then (xcbs s ++ [[]], length (xcbs s)) else (xcbs s, d)
                    | None => (xcbs s ++ [[]], length (xcbs s))
                    end in
  (cbs1 = xcbs s ++ [[]] /\ d = length (xcbs s)) \/ (cbs1 = xcbs s /\ xi_cb x = Some d).
Proof.
  intros s i V x. unfold cb_of. destruct (xi_cb x) as [d|] eqn:E.
  - destruct (is_nil (cb_read s (Some d))); auto.
  - destruct (xclscb s) as [c|] eqn:Ec; auto.
    pose proof (M4 s V) as H4. unfold xcls_inputs in H4. rewrite Ec in H4. rewrite H4. simpl. auto.
Qed.

Lemma xinv_register : forall s i m, xinv s -> xinv (xregister s i m).
Proof.
  intros s i m V. unfold xregister. destruct (Nat.ltb i (length (xinsts s))) eqn:Li; auto.
  apply Nat.ltb_lt in Li.
  pose proof (register_target s i V) as T. unfold inst_at in T. cbv zeta in T.
  set (x := nth i (xinsts s) xdead) in *.
  destruct (match cb_of s x with
            | Some d => if is_nil (cb_read s (Some d)) then (xcbs s ++ [[]], length (xcbs s)) else (xcbs s, d)
            | None => (xcbs s ++ [[]], length (xcbs s)) end) as [cbs1 d].
  set (x' := {| xi_alive := xi_alive x; xi_cmds := xi_cmds x; xi_cb := Some d |}).
  assert (Own : forall j, xowned (nth j (set_nth (xinsts s) i x') xdead) = xowned (inst_at s j)).
  { intros j. unfold inst_at. destruct (Nat.eq_dec j i) as [->|Hn].
    - rewrite nth_set_nth_same by assumption. reflexivity.
    - rewrite nth_set_nth_other by assumption. reflexivity. }
  assert (Cb : forall j, j <> i -> xi_cb (nth j (set_nth (xinsts s) i x') xdead) = xi_cb (inst_at s j)).
  { intros j Hn. unfold inst_at. rewrite nth_set_nth_other by assumption. reflexivity. }
  assert (Cbi : xi_cb (nth i (set_nth (xinsts s) i x') xdead) = Some d).
  { rewrite nth_set_nth_same by assumption. reflexivity. }
  assert (Ld : d < length cbs1 /\ length (xcbs s) <= length cbs1).
  { destruct T as [[-> ->]|[-> E]].
    - rewrite app_length. simpl. lia.
    - split; [apply (M1 s V i d E) | lia]. }
  assert (Nc : xclscb s <> Some d).
  { destruct T as [[-> ->]|[-> E]].
    - intro Hc. pose proof (M3 s V _ Hc). lia.
    - apply (M1 s V i d E). }
  assert (Nj : forall j, j <> i -> xi_cb (inst_at s j) <> Some d).
  { intros j Hn. destruct T as [[-> ->]|[-> E]].
    - intro Hc. pose proof (M1 s V j _ Hc). lia.
    - apply (M2 s V i j d); auto. }
  split; simpl; unfold inst_at; simpl.
  - apply (I1 s V).
  - intros j y. rewrite Own. apply (I2 s V).
  - intros j k y Hjk. rewrite !Own. apply (I3 s V); assumption.
  - intros j dd Hj. rewrite length_set_nth. destruct (Nat.eq_dec j i) as [->|Hn].
    + rewrite Cbi in Hj. inversion Hj; subst. split; [lia | assumption].
    + rewrite Cb in Hj by assumption. destruct (M1 s V j dd Hj). split; [lia | assumption].
  - intros j k dd Hjk Hj Hk. destruct (Nat.eq_dec j i) as [->|Hn]; destruct (Nat.eq_dec k i) as [->|Hm]; try congruence.
    + rewrite Cbi in Hj. inversion Hj; subst. rewrite Cb in Hk by assumption. apply (Nj k Hm Hk).
    + rewrite Cbi in Hk. inversion Hk; subst. rewrite Cb in Hj by assumption. apply (Nj j Hn Hj).
    + rewrite Cb in Hj, Hk by assumption. apply (M2 s V j k dd Hjk Hj Hk).
  - intros c Hc. rewrite length_set_nth. pose proof (M3 s V c Hc). lia.
  - unfold xcls_inputs, cb_read. simpl. destruct (xclscb s) as [c|] eqn:Ec; auto.
    assert (c <> d) by (intro Hcd; apply Nc; rewrite Hcd; reflexivity). rewrite nth_set_nth_other by assumption.
    pose proof (M4 s V) as H4. unfold xcls_inputs, cb_read in H4. rewrite Ec in H4.
    destruct T as [[-> ->]|[-> E]]; auto.
    rewrite app_nth1; auto. apply (M3 s V c Ec).
Qed.

Lemma xinv_step : forall s o, xinv s -> xinv (xstep s o).
Proof.
  intros s [d|ci ok cfg|i k res path key v|i m|] V; simpl; auto using xinv_define, xinv_inst, xinv_setarg, xinv_register.
Qed.

Lemma xinv_steps : forall ops s, xinv s -> xinv (fold_left xstep ops s).
Proof. induction ops; simpl; intros; auto. apply IHops. apply xinv_step. assumption. Qed.

Lemma xinv_run : forall ops, xinv (xrun ops).
Proof. intros. apply xinv_steps. apply xinv0. Qed.
