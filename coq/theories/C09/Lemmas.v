(* C09 -- lemmas: list/heap primitives, instance level isolation, exact footprint of a class definition *)
From Coq Require Import List Arith ZArith Bool Lia.
Import ListNotations.
Require Import FV.Gen.C09 FV.C09.Model.

Definition dead : inst := {| i_alive := false; i_acc := [] |}.

(* ---------- lists *)
Lemma length_set_nth : forall A (l : list A) i x, length (set_nth l i x) = length l.
Proof. induction l; destruct i; simpl; intros; auto. Qed.

Lemma nth_set_nth_other : forall A (l : list A) i j x d, j <> i -> nth j (set_nth l i x) d = nth j l d.
Proof.
  induction l; destruct i; destruct j; simpl; intros; auto; try congruence;
  try (apply IHl; congruence).
Qed.

Lemma nth_set_nth_same : forall A (l : list A) i x d, i < length l -> nth i (set_nth l i x) d = x.
Proof. induction l; destruct i; simpl; intros; auto; try lia; try (apply IHl; lia). Qed.

Lemma nth_app_old : forall A (l r : list A) i d, i < length l -> nth i (l ++ r) d = nth i l d.
Proof. intros. apply app_nth1. assumption. Qed.

(* ---------- instance level ops *)
Definition inst_op (o : op) : bool := match o with ODefine _ => false | _ => true end.
Definition addresses (o : op) (j : nat) : bool :=
  match o with OSetProp i _ _ _ | OGrow i _ => Nat.eqb i j | _ => false end.

Lemma upd_inst_heap : forall s n f,
  params (upd_inst s n f) = params s /\ dts (upd_inst s n f) = dts s /\ classes (upd_inst s n f) = classes s.
Proof. intros; unfold upd_inst; simpl; auto. Qed.

Lemma inst_op_heap : forall s o, inst_op o = true ->
  params (step s o) = params s /\ dts (step s o) = dts s /\ classes (step s o) = classes s.
Proof. intros s [d|ci c|i k key v|i m] H; simpl in *; try discriminate; auto using upd_inst_heap. Qed.

Lemma inst_ops_heap : forall ops s, forallb inst_op ops = true ->
  params (fold_left step ops s) = params s /\ dts (fold_left step ops s) = dts s /\
  classes (fold_left step ops s) = classes s.
Proof.
  induction ops as [|o ops IH]; simpl; intros s H; auto.
  apply andb_true_iff in H. destruct H as [Ho Hr].
  destruct (IH (step s o) Hr) as (A & B & C). destruct (inst_op_heap s o Ho) as (A' & B' & C').
  repeat split; congruence.
Qed.

Lemma define_insts : forall s d, insts (define s d) = insts s.
Proof.
  intros. reflexivity.
Qed.

Lemma upd_inst_other : forall s n f j, j <> n -> nth j (insts (upd_inst s n f)) dead = nth j (insts s) dead.
Proof.
  intros. unfold upd_inst; simpl. destruct (Nat.ltb n (length (insts s))); auto.
  apply nth_set_nth_other. assumption.
Qed.

Lemma upd_inst_length : forall s n f, length (insts (upd_inst s n f)) = length (insts s).
Proof. intros. unfold upd_inst; simpl. destruct (Nat.ltb n (length (insts s))); auto. apply length_set_nth. Qed.

(* no op changes an instance it does not address -- whatever the op is, including class definitions and the creation
   and configuration of other instances *)
Lemma other_instances_unchanged : forall s o j,
  j < length (insts s) -> addresses o j = false -> nth j (insts (step s o)) dead = nth j (insts s) dead.
Proof.
  intros s [d|ci c|i k key v|i m] j Hj Ha; unfold step; simpl in Ha.
  - rewrite define_insts. reflexivity.
  - unfold instantiate; simpl. apply nth_app_old. assumption.
  - apply upd_inst_other. apply Nat.eqb_neq in Ha. congruence.
  - apply upd_inst_other. apply Nat.eqb_neq in Ha. congruence.
Qed.

Lemma insts_length_mono : forall s o, length (insts s) <= length (insts (step s o)).
Proof.
  intros s [d|ci c|i k key v|i m]; unfold step.
  - rewrite define_insts. lia.
  - unfold instantiate; simpl. rewrite app_length. simpl. lia.
  - rewrite upd_inst_length. lia.
  - rewrite upd_inst_length. lia.
Qed.

Lemma other_instances_unchanged_hist : forall ops s j,
  j < length (insts s) -> forallb (fun o => negb (addresses o j)) ops = true ->
  nth j (insts (fold_left step ops s)) dead = nth j (insts s) dead.
Proof.
  induction ops as [|o ops IH]; simpl; intros s j Hj H; auto.
  apply andb_true_iff in H. destruct H as [Ho Hr]. apply negb_true_iff in Ho.
  rewrite IH; auto.
  - apply other_instances_unchanged; assumption.
  - pose proof (insts_length_mono s o). lia.
Qed.

(* creating / configuring / mutating instances never changes the description of a class *)
Lemma class_unchanged_by_instance_ops : forall ops s c, forallb inst_op ops = true ->
  describe_class (fold_left step ops s) c = describe_class s c.
Proof.
  intros. destruct (inst_ops_heap ops s H) as (A & B & C). unfold describe_class. rewrite A, B. reflexivity.
Qed.

(* an instance created later is the same whatever was done to other instances before *)
Lemma later_instance_unaffected : forall ops s ci c, forallb inst_op ops = true ->
  new_inst (fold_left step ops s) ci c = new_inst s ci c.
Proof.
  intros. destruct (inst_ops_heap ops s H) as (A & B & C). unfold new_inst. rewrite A, B, C. reflexivity.
Qed.

(* the new instance is a function of the full description of its class and of its configuration only *)
Definition describe_full (s : state) (c : cls) : list (name * (acc_desc * bool)) :=
  map (fun ki => (fst ki, (read (params s) (dts s) (snd ki),
                           match v_dt (pv (getp (params s) (snd ki))) with Some _ => true | None => false end))) (c_acc c).

Definition inst_acc_spec (c : cfg) (x : name * (acc_desc * bool)) : (name * acc_desc) * bool :=
  let '(k, (a0, has_dt)) := x in
  let a1 := {| a_desc := a_desc a0; a_group := a_group a0; a_value := revalidate (a_value a0) (a_dt a0); a_dt := a_dt a0 |} in
  let '(a2, ok) := fold_left cfg_step (match lookup k c with Some l => l | None => [] end) (a1, true) in
  let a3 := {| a_desc := a_desc a2; a_group := a_group a2; a_value := revalidate (a_value a2) (a_dt a2); a_dt := a_dt a2 |} in
  let has_desc := match a_desc a3 with Some _ => true | None => false end in
  ((k, a3), ok && has_dt && has_desc && dt_consistent (a_dt a0) && dt_consistent (a_dt a3)).

Definition inst_spec (module : bool) (full : list (name * (acc_desc * bool))) (c : cfg) : inst :=
  let res := map (inst_acc_spec c) full in
  let known := forallb (fun nc => match lookup (fst nc) full with Some _ => true | None => false end) c in
  if module && known && forallb snd res then {| i_alive := true; i_acc := map fst res |} else dead.

Lemma lookup_map_some : forall A B (f : nat * A -> B) (l : list (nat * A)) k,
  match lookup k (map (fun ki => (fst ki, f ki)) l) with Some _ => true | None => false end =
  match lookup k l with Some _ => true | None => false end.
Proof.
  induction l as [|[k' v] l IH]; simpl; intros; auto.
  destruct (Nat.eqb k k'); auto.
Qed.

Lemma forallb_ext' : forall A (f g : A -> bool) l, (forall x, f x = g x) -> forallb f l = forallb g l.
Proof. induction l; simpl; intros; auto. rewrite H, IHl; auto. Qed.

Lemma inst_acc_map_spec : forall ps ds c l,
  map (inst_acc ps ds c) l =
  map (inst_acc_spec c) (map (fun ki : name * id => (fst ki, (read ps ds (snd ki),
         match v_dt (pv (getp ps (snd ki))) with Some _ => true | None => false end))) l).
Proof.
  intros. rewrite map_map. apply map_ext. intros [n i]. unfold inst_acc, inst_acc_spec. simpl. reflexivity.
Qed.

Lemma new_inst_is_spec : forall s ci c, ci < length (classes s) ->
  new_inst s ci c = inst_spec (c_module (nth ci (classes s) cls0)) (describe_full s (nth ci (classes s) cls0)) c.
Proof.
  intros s ci c Hci. unfold new_inst, inst_spec, describe_full.
  set (k := nth ci (classes s) cls0).
  apply Nat.ltb_lt in Hci. rewrite Hci. rewrite andb_true_r.
  rewrite inst_acc_map_spec.
  assert (K : forallb (fun nc : nat * list (nat * Z) => match lookup (fst nc) (c_acc k) with Some _ => true | None => false end) c =
              forallb (fun nc : nat * list (nat * Z) => match lookup (fst nc) (map (fun ki : name * id => (fst ki, (read (params s) (dts s) (snd ki),
                     match v_dt (pv (getp (params s) (snd ki))) with Some _ => true | None => false end))) (c_acc k))
                                 with Some _ => true | None => false end) c).
  { apply forallb_ext'. intros [n l]. simpl. symmetry.
    apply (lookup_map_some _ _ (fun ki : name * id => (read (params s) (dts s) (snd ki),
                     match v_dt (pv (getp (params s) (snd ki))) with Some _ => true | None => false end))). }
  rewrite K. reflexivity.
Qed.

(* ---------- exact footprint of a class definition on the objects that exist already *)
Definition Inv (np nd : nat) (h0 : heap) (Fp Fd : list id) (h : heap) : Prop :=
  np <= length (fst h) /\ nd <= length (snd h) /\
  (forall i, i < np -> ~ In i Fp -> getp (fst h) i = getp (fst h0) i) /\
  (forall i, i < nd -> ~ In i Fd -> getd (snd h) i = getd (snd h0) i).

Lemma Inv_weaken : forall np nd h0 Fp Fd Fp' Fd' h,
  Inv np nd h0 Fp Fd h -> incl Fp Fp' -> incl Fd Fd' -> Inv np nd h0 Fp' Fd' h.
Proof.
  intros * (A & B & C & D) Ip Id. repeat split; auto.
Qed.

Lemma Inv_alloc_dt : forall np nd h0 Fp Fd h d, Inv np nd h0 Fp Fd h -> Inv np nd h0 Fp Fd (fst (alloc_dt h d)).
Proof.
  intros * (A & B & C & D). unfold alloc_dt. repeat split; simpl; auto.
  - rewrite app_length. lia.
  - intros i Hi Hn. unfold getd. rewrite app_nth1 by lia. apply D; auto.
Qed.

Lemma Inv_alloc_p : forall np nd h0 Fp Fd h c, Inv np nd h0 Fp Fd h -> Inv np nd h0 Fp Fd (fst (alloc_p h c)).
Proof.
  intros * (A & B & C & D). unfold alloc_p. repeat split; simpl; auto.
  - rewrite app_length. lia.
  - intros i Hi Hn. unfold getp. rewrite app_nth1 by lia. apply C; auto.
Qed.

Lemma Inv_set_dt : forall np nd h0 Fp Fd h j d, Inv np nd h0 Fp Fd h -> Inv np nd h0 Fp (j :: Fd) (set_dt h j d).
Proof.
  intros * (A & B & C & D). unfold set_dt. repeat split; simpl; auto.
  - rewrite length_set_nth. assumption.
  - intros i Hi Hn. unfold getd. rewrite nth_set_nth_other; [apply D; tauto | intro; apply Hn; left; congruence].
Qed.

Lemma Inv_set_pv : forall np nd h0 Fp Fd h j v, Inv np nd h0 Fp Fd h -> Inv np nd h0 (j :: Fp) Fd (set_pv h j v).
Proof.
  intros * (A & B & C & D). unfold set_pv. repeat split; simpl; auto.
  - rewrite length_set_nth. assumption.
  - intros i Hi Hn. unfold getp. rewrite nth_set_nth_other; [apply C; tauto | intro; apply Hn; left; congruence].
Qed.

Lemma Inv_new_param : forall np nd h0 Fp Fd h s, Inv np nd h0 Fp Fd h -> Inv np nd h0 Fp Fd (fst (new_param h s)).
Proof.
  intros * H. unfold new_param.
  destruct (s_dt s) as [d|].
  - destruct (alloc_dt h _) as [h' i] eqn:E.
    assert (H1 : Inv np nd h0 Fp Fd h') by (replace h' with (fst (alloc_dt h (dt_set_opt (dt_set_opt (dt_set_opt d 3 (s_min s)) 4 (s_max s)) 5 (s_unit s)))) by (rewrite E; reflexivity); apply Inv_alloc_dt; assumption).
    destruct (s_inherit s); apply Inv_alloc_p; assumption.
  - destruct (s_inherit s).
    + apply Inv_alloc_p; assumption.
    + destruct (alloc_dt h dt0) as [h2 i2] eqn:E.
      assert (H1 : Inv np nd h0 Fp Fd h2) by (replace h2 with (fst (alloc_dt h dt0)) by (rewrite E; reflexivity); apply Inv_alloc_dt; assumption).
      apply Inv_alloc_p; assumption.
Qed.

Lemma Inv_new_entry : forall np nd h0 Fp Fd hd ne,
  Inv np nd h0 Fp Fd (fst hd) -> Inv np nd h0 Fp Fd (fst (new_entry hd ne)).
Proof.
  intros np nd h0 Fp Fd [h d] [n e] H. simpl in *. destruct e as [s|z|]; simpl; auto.
  destruct (new_param h s) as [h' i] eqn:E. simpl.
  replace h' with (fst (new_param h s)) by (rewrite E; reflexivity). apply Inv_new_param. assumption.
Qed.

Lemma Inv_new_entries : forall np nd h0 Fp Fd l hd,
  Inv np nd h0 Fp Fd (fst hd) -> Inv np nd h0 Fp Fd (fst (fold_left new_entry l hd)).
Proof. induction l; simpl; intros; auto. apply IHl. apply Inv_new_entry. assumption. Qed.

Lemma Inv_write_dtprops : forall np nd h0 Fp Fd h d M, Inv np nd h0 Fp Fd h ->
  Inv np nd h0 Fp (if has_dtprops M then d :: Fd else Fd) (write_dtprops h d M).
Proof.
  intros. unfold write_dtprops. destruct (has_dtprops M); auto. apply Inv_set_dt. assumption.
Qed.

Definition merge_wd (h : heap) (w : id) (M : mprops) (Fd : list id) : list id :=
  match m_dt M, v_dt (pv (getp (fst h) w)) with
  | None, Some d0 => if has_dtprops M then d0 :: Fd else Fd
  | _, _ => Fd
  end.

Lemma Inv_merge_cell : forall np nd h0 Fp Fd h w M, Inv np nd h0 Fp Fd h ->
  Inv np nd h0 (w :: Fp) (merge_wd h w M Fd) (merge_cell h w M).
Proof.
  intros * H. unfold merge_cell, merge_wd.
  destruct (m_dt M) as [d|].
  - destruct (alloc_dt h _) as [h1 i] eqn:E.
    apply Inv_set_pv. replace h1 with (fst (alloc_dt h (apply_dtprops (getd (snd h) d) M))) by (rewrite E; reflexivity).
    apply Inv_alloc_dt. assumption.
  - destruct (v_dt (pv (getp (fst h) w))) as [d0|].
    + apply Inv_set_pv. apply Inv_write_dtprops. assumption.
    + apply Inv_set_pv. assumption.
Qed.

Definition clone_wd (M : mprops) (Fd : list id) : list id :=
  match m_dt M with Some d => if has_dtprops M then d :: Fd else Fd | None => Fd end.

Lemma Inv_clone_cell : forall np nd h0 Fp Fd h w M z, Inv np nd h0 Fp Fd h ->
  Inv np nd h0 Fp (clone_wd M Fd) (fst (clone_cell h w M z)).
Proof.
  intros * H. unfold clone_cell, clone_wd.
  set (h1 := match m_dt M with Some d => write_dtprops h d M | None => h end).
  assert (H1 : Inv np nd h0 Fp (match m_dt M with Some d => if has_dtprops M then d :: Fd else Fd | None => Fd end) h1).
  { unfold h1. destruct (m_dt M); auto. apply Inv_write_dtprops. assumption. }
  destruct (v_dt (pv (getp (fst h) w))).
  - destruct (alloc_dt h1 _) as [h' i1] eqn:E.
    apply Inv_alloc_p. replace h' with (fst (alloc_dt h1 (rd_dt (snd h1) (m_dt M)))) by (rewrite E; reflexivity).
    apply Inv_alloc_dt. assumption.
  - apply Inv_alloc_p. assumption.
Qed.

Lemma Inv_resolve_name : forall np nd h0 cs mro r k,
  Inv np nd h0 (r_wp r) (r_wd r) (r_heap r) ->
  Inv np nd h0 (r_wp (resolve_name cs mro r k)) (r_wd (resolve_name cs mro r k)) (r_heap (resolve_name cs mro r k)).
Proof.
  intros * H. unfold resolve_name.
  destruct (w_acc (walk (fst (r_heap r)) cs mro k)) as [wid|]; auto.
  destruct (w_ov (walk (fst (r_heap r)) cs mro k)) as [[z|]|]; auto.
  - destruct (clone_cell (r_heap r) wid _ z) as [h' n] eqn:E. simpl.
    replace h' with (fst (clone_cell (r_heap r) wid (w_M (walk (fst (r_heap r)) cs mro k)) z)) by (rewrite E; reflexivity).
    apply Inv_clone_cell. assumption.
  - simpl. apply (Inv_merge_cell np nd h0 (r_wp r) (r_wd r) (r_heap r) wid). assumption.
Qed.

Lemma Inv_resolve_names : forall np nd h0 cs mro l r,
  Inv np nd h0 (r_wp r) (r_wd r) (r_heap r) ->
  Inv np nd h0 (r_wp (fold_left (resolve_name cs mro) l r)) (r_wd (fold_left (resolve_name cs mro) l r))
      (r_heap (fold_left (resolve_name cs mro) l r)).
Proof. induction l; simpl; intros; auto. apply IHl. apply Inv_resolve_name. assumption. Qed.

Lemma Inv_define_core : forall s d,
  Inv (length (params s)) (length (dts s)) (params s, dts s)
      (r_wp (define_core s d)) (r_wd (define_core s d)) (r_heap (define_core s d)).
Proof.
  intros. unfold define_core.
  pose proof (Inv_new_entries (length (params s)) (length (dts s)) (params s, dts s) [] [] (d_dict d) ((params s, dts s), [])) as H0.
  destruct (fold_left new_entry (d_dict d) (params s, dts s, [])) as [h1 dict1]. simpl in H0.
  assert (H1 : Inv (length (params s)) (length (dts s)) (params s, dts s) [] [] h1).
  { apply H0. repeat split; simpl; auto. }
  destruct (d_module d).
  - apply Inv_resolve_names. simpl. assumption.
  - simpl. assumption.
Qed.

(* what a class definition leaves alone: every existing Parameter / datatype object outside its footprint *)
Lemma define_frame : forall s d,
  (forall i, i < length (params s) -> ~ In i (fst (footprint s d)) -> getp (params (define s d)) i = getp (params s) i) /\
  (forall j, j < length (dts s) -> ~ In j (snd (footprint s d)) -> getd (dts (define s d)) j = getd (dts s) j) /\
  length (params s) <= length (params (define s d)) /\ length (dts s) <= length (dts (define s d)).
Proof.
  intros. destruct (Inv_define_core s d) as (A & B & C & D). unfold footprint, define; simpl. repeat split; auto.
Qed.

(* an accessible object is in range and its datatype object, if any, too *)
Definition acc_ok (s : state) (i : id) : Prop :=
  i < length (params s) /\ forall j, v_dt (pv (getp (params s) i)) = Some j -> j < length (dts s).

Definition untouched (s : state) (d : cdef) (i : id) : Prop :=
  ~ In i (fst (footprint s d)) /\ forall j, v_dt (pv (getp (params s) i)) = Some j -> ~ In j (snd (footprint s d)).

Lemma read_unchanged : forall s d i, acc_ok s i -> untouched s d i ->
  read (params (define s d)) (dts (define s d)) i = read (params s) (dts s) i.
Proof.
  intros s d i [Hi Hd] [Ui Ud]. destruct (define_frame s d) as (A & B & _).
  unfold read. rewrite (A i Hi Ui).
  destruct (v_dt (pv (getp (params s) i))) as [j|] eqn:E; unfold rd_dt; auto.
  rewrite (B j (Hd j eq_refl) (Ud j eq_refl)). reflexivity.
Qed.

Lemma class_unchanged_by_define : forall s d c,
  (forall k i, In (k, i) (c_acc c) ->
     acc_ok s i /\ (untouched s d i \/ read (params (define s d)) (dts (define s d)) i = read (params s) (dts s) i)) ->
  describe_class (define s d) c = describe_class s c.
Proof.
  intros s d c H. unfold describe_class. apply map_ext_in. intros [k i] Hin. cbn [fst snd].
  destruct (H k i Hin) as [Ok [U|R]].
  - rewrite read_unchanged; auto.
  - rewrite R. reflexivity.
Qed.
