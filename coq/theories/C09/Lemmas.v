From Coq Require Import List Arith ZArith Bool Lia.
Import ListNotations.
Require Import FV.Gen.C09 FV.C09.Model.
