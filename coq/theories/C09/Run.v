(* C09 -- correspondence driver: a case is a program of ops plus what the implementation showed after every op
   (the descriptions that changed, delta encoded) and the identity pattern of its Parameter / datatype objects at
   the end; check_case re-runs the model and compares the complete snapshot after every op.  The program is carried
   twice, op by op: for the parameter component (Model.v: c_ops ...) and for the command / mixin component
   (CmdModel.v: c_xops ...), and a third time for the module property component (PropModel.v: c_pops ...);
   check_case = check_params && check_cmds && check_props. *)
From Coq Require Import List Arith ZArith Bool.
Import ListNotations.
Require Import FV.Base.Util FV.Gen.C09 FV.C09.Model FV.C09.CmdModel FV.C09.PropModel.

Definition oz_eqb := opt_eqb Z.eqb.
Definition dt_eqb (a b : dt) : bool :=
  Nat.eqb (dkind a) (dkind b) && oz_eqb (dmin a) (dmin b) && oz_eqb (dmax a) (dmax b) && Z.eqb (dunit a) (dunit b)
  && list_eqb (pair_eqb Z.eqb Z.eqb) (dmem a) (dmem b).
Definition acc_eqb (a b : acc_desc) : bool :=
  oz_eqb (a_desc a) (a_desc b) && oz_eqb (a_group a) (a_group b) && oz_eqb (a_value a) (a_value b)
  && dt_eqb (a_dt a) (a_dt b).
Definition desc_eqb : list (name * acc_desc) -> list (name * acc_desc) -> bool :=
  list_eqb (pair_eqb Nat.eqb acc_eqb).

Inductive ent := EClass (i : nat) | EInst (i : nat).
Definition ent_eqb (a b : ent) : bool :=
  match a, b with EClass i, EClass j => Nat.eqb i j | EInst i, EInst j => Nat.eqb i j | _, _ => false end.

Definition snapshot := list (ent * list (name * acc_desc)).

Fixpoint snap_get (e : ent) (l : snapshot) : option (list (name * acc_desc)) :=
  match l with [] => None | (e', d) :: r => if ent_eqb e e' then Some d else snap_get e r end.
Fixpoint snap_set (e : ent) (d : list (name * acc_desc)) (l : snapshot) : snapshot :=
  match l with
  | [] => [(e, d)]
  | (e', d') :: r => if ent_eqb e e' then (e, d) :: r else (e', d') :: snap_set e d r
  end.

Fixpoint indexed {A} (i : nat) (l : list A) : list (nat * A) :=
  match l with [] => [] | x :: r => (i, x) :: indexed (S i) r end.

(* the description of every module class and every living instance *)
Definition model_snapshot (s : state) : snapshot :=
  flat_map (fun ic => if c_module (snd ic) then [(EClass (fst ic), describe_class s (snd ic))] else [])
           (indexed 0 (classes s))
  ++ flat_map (fun ii => if i_alive (snd ii) then [(EInst (fst ii), i_acc (snd ii))] else [])
              (indexed 0 (insts s)).

Definition snap_eqb (m o : snapshot) : bool :=
  Nat.eqb (length m) (length o)
  && forallb (fun ed => match snap_get (fst ed) o with Some d => desc_eqb (snd ed) d | None => false end) m.

(* identity pattern: keys of Parameter objects are even, of datatype objects odd; None = no object / a ValueType;
   objects of instances are fresh by construction of the model *)
Definition dt_key (ds : list dt) (o : option id) : option nat :=
  match o with
  | Some i => if Nat.eqb (dkind (getd ds i)) 0 then None else Some (2 * i + 1)
  | None => None
  end.

Definition class_keys (s : state) (c : cls) : list (option nat) :=
  flat_map (fun ki => let p := getp (params s) (snd ki) in
                      [Some (2 * snd ki); dt_key (dts s) (v_dt (pv p)); dt_key (dts s) (m_dt (own p))]) (c_acc c).

Fixpoint inst_keys (base : nat) (accs : list (name * acc_desc)) : list (option nat) :=
  match accs with
  | [] => []
  | (_, a) :: r => Some base :: (if Nat.eqb (dkind (a_dt a)) 0 then None else Some (S base)) :: None
                   :: inst_keys (S (S base)) r
  end.

Fixpoint insts_keys (base : nat) (l : list inst) : list (option nat) :=
  match l with
  | [] => []
  | i :: r => if i_alive i then inst_keys base (i_acc i) ++ insts_keys (base + 2 * length (i_acc i)) r
              else insts_keys base r
  end.

Definition model_keys (s : state) : list (option nat) :=
  flat_map (fun c => if c_module c then class_keys s c else []) (classes s)
  ++ insts_keys (2 * (length (params s) + length (dts s)) + 2) (insts s).

Fixpoint index_of (k : nat) (l : list nat) (i : nat) : option nat :=
  match l with [] => None | x :: r => if Nat.eqb x k then Some i else index_of k r (S i) end.

(* first occurrence numbering, 0 = no object *)
Fixpoint canon (seen : list nat) (l : list (option nat)) : list nat :=
  match l with
  | [] => []
  | None :: r => 0 :: canon seen r
  | Some k :: r => match index_of k seen 1 with
                   | Some i => i :: canon seen r
                   | None => S (length seen) :: canon (seen ++ [k]) r
                   end
  end.

(* ---------- command / mixin component *)
Definition lim_eqb (a b : option Z * option Z) : bool := oz_eqb (fst a) (fst b) && oz_eqb (snd a) (snd b).
Definition cdt_eqb (a b : cdt) : bool :=
  Nat.eqb (ck a) (ck b) && oz_eqb (clo a) (clo b) && oz_eqb (chi a) (chi b)
  && list_eqb (pair_eqb Z.eqb lim_eqb) (cmem a) (cmem b) && list_eqb Z.eqb (copt a) (copt b).
Definition cmd_eqb (a b : cmd_desc) : bool :=
  oz_eqb (cd_desc a) (cd_desc b) && opt_eqb cdt_eqb (cd_arg a) (cd_arg b) && opt_eqb cdt_eqb (cd_res a) (cd_res b).
Definition xdesc := (list (name * cmd_desc) * list Z)%type.
Definition xdesc_eqb (a b : xdesc) : bool :=
  list_eqb (pair_eqb Nat.eqb cmd_eqb) (fst a) (fst b) && list_eqb Z.eqb (snd a) (snd b).
Definition xsnapshot := list (ent * xdesc).

Fixpoint xsnap_get (e : ent) (l : xsnapshot) : option xdesc :=
  match l with [] => None | (e', d) :: r => if ent_eqb e e' then Some d else xsnap_get e r end.
Fixpoint xsnap_set (e : ent) (d : xdesc) (l : xsnapshot) : xsnapshot :=
  match l with
  | [] => [(e, d)]
  | (e', d') :: r => if ent_eqb e e' then (e, d) :: r else (e', d') :: xsnap_set e d r
  end.

(* commands of every module class (+ what the class attribute inputCallbacks holds) and of every living instance
   (+ the inputs registered on it) *)
Definition model_xsnapshot (s : xstate) : xsnapshot :=
  flat_map (fun ic => if xc_module (snd ic) then [(EClass (fst ic), (xdescribe_class s (snd ic), xcls_inputs s))] else [])
           (indexed 0 (xclasses s))
  ++ flat_map (fun ii => if xi_alive (snd ii) then [(EInst (fst ii), xdescribe_inst s (snd ii))] else [])
              (indexed 0 (xinsts s)).

Definition xsnap_eqb (m o : xsnapshot) : bool :=
  Nat.eqb (length m) (length o)
  && forallb (fun ed => match xsnap_get (fst ed) o with Some d => xdesc_eqb (snd ed) d | None => false end) m.

(* identity pattern: Command objects even keys, datatype objects odd keys *)
Definition okey (o : option id) : option nat := option_map (fun j => 2 * j + 1) o.
Definition xclass_keys (s : xstate) (c : xcls) : list (option nat) :=
  flat_map (fun ki => let cell := getc (xcells s) (snd ki) in
                      [Some (2 * snd ki); okey (opt_join (q_arg (cv cell))); okey (opt_join (q_res (cv cell)));
                       okey (opt_join (q_arg (cown cell))); okey (opt_join (q_res (cown cell)))]) (xc_acc c).
Definition xinst_keys (x : xinst) : list (option nat) :=
  flat_map (fun kc => [okey (ic_arg (snd kc)); okey (ic_res (snd kc))]) (xi_cmds x).
Definition model_xkeys (s : xstate) : list (option nat) :=
  flat_map (fun c => if xc_module c then xclass_keys s c else []) (xclasses s)
  ++ flat_map (fun x => if xi_alive x then xinst_keys x else []) (xinsts s).

(* ---------- module property component *)
Definition pobs := list (name * (option Z * Z)).
Definition pobs_eqb : pobs -> pobs -> bool := list_eqb (pair_eqb Nat.eqb (pair_eqb oz_eqb Z.eqb)).
Definition psnapshot := list (ent * pobs).

Fixpoint psnap_get (e : ent) (l : psnapshot) : option pobs :=
  match l with [] => None | (e', d) :: r => if ent_eqb e e' then Some d else psnap_get e r end.
Fixpoint psnap_set (e : ent) (d : pobs) (l : psnapshot) : psnapshot :=
  match l with
  | [] => [(e, d)]
  | (e', d') :: r => if ent_eqb e e' then (e, d) :: r else (e', d') :: psnap_set e d r
  end.

(* class i of the program is entry i + 1 of the table (entry 0 = frappy.modulebase.Module).  Class: value (or UNSET) and
   default of every Property object in propertyDict; instance: the effective value of every property, as (Some v, 0) *)
Definition model_psnapshot (s : pstate) : psnapshot :=
  flat_map (fun ic => if pc_module (snd ic) then [(EClass (fst ic), pclass_obs (p_heap s) (snd ic))] else [])
           (indexed 0 (tl (p_classes s)))
  ++ flat_map (fun ii => if pi_alive (snd ii)
                         then [(EInst (fst ii), map (fun kv => (fst kv, (Some (snd kv), 0%Z))) (pinst_obs s (snd ii)))]
                         else [])
              (indexed 0 (p_insts s)).

Definition psnap_eqb (m o : psnapshot) : bool :=
  Nat.eqb (length m) (length o)
  && forallb (fun ed => match psnap_get (fst ed) o with Some d => pobs_eqb (snd ed) d | None => false end) m.

(* identity pattern of the Property objects: propertyDict, then the entries of the class __dict__ (None = bare value) *)
Definition pclass_keys (c : pcls) : list (option nat) :=
  map (fun kp => Some (snd kp)) (pc_pd c)
  ++ map (fun ke => match snd ke with PEProp i => Some i | PEBare _ => None end) (pc_dict c).
Definition model_pkeys (s : pstate) : list (option nat) :=
  flat_map (fun c => if pc_module c then pclass_keys c else []) (tl (p_classes s)).

Record case := {
  c_ops : list op;
  c_ok : list bool;                    (* the op was carried out by the implementation (instantiation accepted) *)
  c_deltas : list snapshot;            (* descriptions that differ from those before the op *)
  c_ids : list nat;                    (* identity pattern after the last op *)
  (* the command / mixin component (CmdModel.v) of the same program, op by op *)
  c_xops : list xop;
  c_xdeltas : list xsnapshot;          (* command descriptions + registered inputs of the same entities *)
  c_xids : list nat;                   (* identity pattern of Command objects and argument / result datatype objects *)
  (* the module property component (PropModel.v) of the same program, op by op *)
  c_pops : list pop;
  c_pdeltas : list psnapshot;          (* class level Property values / defaults, effective property values of instances *)
  c_pids : list nat;                   (* identity pattern of the class level Property objects *)
}.

(* the hypothesis acc_ok of the frame theorems, checked in every state the correspondence visits: every accessible
   object of every class is in range, and so is its datatype object *)
Definition acc_ok_b (s : state) (i : id) : bool :=
  Nat.ltb i (length (params s)) &&
  match v_dt (pv (getp (params s) i)) with Some j => Nat.ltb j (length (dts s)) | None => true end.
Definition wf_b (s : state) : bool :=
  forallb (fun c => forallb (fun ki => acc_ok_b s (snd ki)) (c_acc c)) (classes s).

Definition op_ok (s' : state) (o : op) (ok : bool) : bool :=
  match o with
  | OInst _ _ => Bool.eqb (i_alive (last (insts s') {| i_alive := false; i_acc := [] |})) ok
  | _ => true
  end.

Fixpoint run_check (s : state) (seen : snapshot) (ops : list op) (oks : list bool) (ds : list snapshot) : option state :=
  match ops, oks, ds with
  | [], [], [] => Some s
  | o :: ops', ok :: oks', d :: ds' =>
      let s' := step s o in
      let seen' := fold_left (fun acc ed => snap_set (fst ed) (snd ed) acc) d seen in
      if op_ok s' o ok && wf_b s' && snap_eqb (model_snapshot s') seen' then run_check s' seen' ops' oks' ds' else None
  | _, _, _ => None
  end.

(* an accepted instantiation must be acceptable for the command component too *)
Definition xop_ok (s : xstate) (o : xop) : bool :=
  match o with
  | XInst ci true cfg => xacceptable s ci cfg
  | _ => true
  end.

Fixpoint xrun_check (s : xstate) (seen : xsnapshot) (ops : list xop) (ds : list xsnapshot) : option xstate :=
  match ops, ds with
  | [], [] => Some s
  | o :: ops', d :: ds' =>
      let s' := xstep s o in
      let seen' := fold_left (fun acc ed => xsnap_set (fst ed) (snd ed) acc) d seen in
      if xop_ok s o && xsnap_eqb (model_xsnapshot s') seen' then xrun_check s' seen' ops' ds' else None
  | _, _ => None
  end.

Definition check_params (c : case) : bool :=
  match run_check state0 [] (c_ops c) (c_ok c) (c_deltas c) with
  | Some s => list_eqb Nat.eqb (canon [] (model_keys s)) (c_ids c)
  | None => false
  end.

Definition check_cmds (c : case) : bool :=
  Nat.eqb (length (c_xops c)) (length (c_ops c)) &&
  match xrun_check xstate0 [] (c_xops c) (c_xdeltas c) with
  | Some s => list_eqb Nat.eqb (canon [] (model_xkeys s)) (c_xids c)
  | None => false
  end.

Fixpoint prun_check (s : pstate) (seen : psnapshot) (ops : list pop) (ds : list psnapshot) : option pstate :=
  match ops, ds with
  | [], [] => Some s
  | o :: ops', d :: ds' =>
      let s' := pstep s o in
      let seen' := fold_left (fun acc ed => psnap_set (fst ed) (snd ed) acc) d seen in
      if psnap_eqb (model_psnapshot s') seen' then prun_check s' seen' ops' ds' else None
  | _, _ => None
  end.

Definition check_props (c : case) : bool :=
  Nat.eqb (length (c_pops c)) (length (c_ops c)) &&
  match prun_check pstate0 [] (c_pops c) (c_pdeltas c) with
  | Some s => list_eqb Nat.eqb (canon [] (model_pkeys s)) (c_pids c)
  | None => false
  end.

Definition check_case (c : case) : bool := check_params c && check_cmds c && check_props c.

(* for diagnosis in replay files *)
Definition model_result (c : case) :=
  (model_snapshot (run (c_ops c)), canon [] (model_keys (run (c_ops c))),
   (check_params c, check_cmds c, model_xsnapshot (xrun (c_xops c)), canon [] (model_xkeys (xrun (c_xops c)))),
   (check_props c, model_psnapshot (prun (c_pops c)), canon [] (model_pkeys (prun (c_pops c))))).
