(* C09 -- correspondence driver: a case is a program of ops plus what the implementation showed after every op
   (the descriptions that changed, delta encoded) and the identity pattern of its Parameter / datatype objects at
   the end; check_case re-runs the model and compares the complete snapshot after every op. *)
From Coq Require Import List Arith ZArith Bool.
Import ListNotations.
Require Import FV.Base.Util FV.Gen.C09 FV.C09.Model.

Definition oz_eqb := opt_eqb Z.eqb.
Definition dt_eqb (a b : dt) : bool :=
  Nat.eqb (dkind a) (dkind b) && oz_eqb (dmin a) (dmin b) && oz_eqb (dmax a) (dmax b) && Z.eqb (dunit a) (dunit b)
  && list_eqb (pair_eqb Z.eqb Z.eqb) (dmem a) (dmem b).
Definition acc_eqb (a b : acc_desc) : bool :=
  oz_eqb (a_desc a) (a_desc b) && oz_eqb (a_group a) (a_group b) && oz_eqb (a_value a) (a_value b)
  && dt_eqb (a_dt a) (a_dt b).
Definition desc_eqb : list (name * acc_desc) -> list (name * acc_desc) -> bool :=
  list_eqb (pair_eqb Nat.eqb acc_eqb).

Inductive ent := EClass (i : nat) | EInst (i : nat).
Definition ent_eqb (a b : ent) : bool :=
  match a, b with EClass i, EClass j => Nat.eqb i j | EInst i, EInst j => Nat.eqb i j | _, _ => false end.

Definition snapshot := list (ent * list (name * acc_desc)).

Fixpoint snap_get (e : ent) (l : snapshot) : option (list (name * acc_desc)) :=
  match l with [] => None | (e', d) :: r => if ent_eqb e e' then Some d else snap_get e r end.
Fixpoint snap_set (e : ent) (d : list (name * acc_desc)) (l : snapshot) : snapshot :=
  match l with
  | [] => [(e, d)]
  | (e', d') :: r => if ent_eqb e e' then (e, d) :: r else (e', d') :: snap_set e d r
  end.

Fixpoint indexed {A} (i : nat) (l : list A) : list (nat * A) :=
  match l with [] => [] | x :: r => (i, x) :: indexed (S i) r end.

(* the description of every module class and every living instance *)
Definition model_snapshot (s : state) : snapshot :=
  flat_map (fun ic => if c_module (snd ic) then [(EClass (fst ic), describe_class s (snd ic))] else [])
           (indexed 0 (classes s))
  ++ flat_map (fun ii => if i_alive (snd ii) then [(EInst (fst ii), i_acc (snd ii))] else [])
              (indexed 0 (insts s)).

Definition snap_eqb (m o : snapshot) : bool :=
  Nat.eqb (length m) (length o)
  && forallb (fun ed => match snap_get (fst ed) o with Some d => desc_eqb (snd ed) d | None => false end) m.

(* identity pattern: keys of Parameter objects are even, of datatype objects odd; None = no object / a ValueType;
   objects of instances are fresh by construction of the model *)
Definition dt_key (ds : list dt) (o : option id) : option nat :=
  match o with
  | Some i => if Nat.eqb (dkind (getd ds i)) 0 then None else Some (2 * i + 1)
  | None => None
  end.

Definition class_keys (s : state) (c : cls) : list (option nat) :=
  flat_map (fun ki => let p := getp (params s) (snd ki) in
                      [Some (2 * snd ki); dt_key (dts s) (v_dt (pv p)); dt_key (dts s) (m_dt (own p))]) (c_acc c).

Fixpoint inst_keys (base : nat) (accs : list (name * acc_desc)) : list (option nat) :=
  match accs with
  | [] => []
  | (_, a) :: r => Some base :: (if Nat.eqb (dkind (a_dt a)) 0 then None else Some (S base)) :: None
                   :: inst_keys (S (S base)) r
  end.

Fixpoint insts_keys (base : nat) (l : list inst) : list (option nat) :=
  match l with
  | [] => []
  | i :: r => if i_alive i then inst_keys base (i_acc i) ++ insts_keys (base + 2 * length (i_acc i)) r
              else insts_keys base r
  end.

Definition model_keys (s : state) : list (option nat) :=
  flat_map (fun c => if c_module c then class_keys s c else []) (classes s)
  ++ insts_keys (2 * (length (params s) + length (dts s)) + 2) (insts s).

Fixpoint index_of (k : nat) (l : list nat) (i : nat) : option nat :=
  match l with [] => None | x :: r => if Nat.eqb x k then Some i else index_of k r (S i) end.

(* first occurrence numbering, 0 = no object *)
Fixpoint canon (seen : list nat) (l : list (option nat)) : list nat :=
  match l with
  | [] => []
  | None :: r => 0 :: canon seen r
  | Some k :: r => match index_of k seen 1 with
                   | Some i => i :: canon seen r
                   | None => S (length seen) :: canon (seen ++ [k]) r
                   end
  end.

Record case := {
  c_ops : list op;
  c_ok : list bool;                    (* the op was carried out by the implementation (instantiation accepted) *)
  c_deltas : list snapshot;            (* descriptions that differ from those before the op *)
  c_ids : list nat;                    (* identity pattern after the last op *)
}.

(* the hypothesis acc_ok of the frame theorems, checked in every state the correspondence visits: every accessible
   object of every class is in range, and so is its datatype object *)
Definition acc_ok_b (s : state) (i : id) : bool :=
  Nat.ltb i (length (params s)) &&
  match v_dt (pv (getp (params s) i)) with Some j => Nat.ltb j (length (dts s)) | None => true end.
Definition wf_b (s : state) : bool :=
  forallb (fun c => forallb (fun ki => acc_ok_b s (snd ki)) (c_acc c)) (classes s).

Definition op_ok (s' : state) (o : op) (ok : bool) : bool :=
  match o with
  | OInst _ _ => Bool.eqb (i_alive (last (insts s') {| i_alive := false; i_acc := [] |})) ok
  | _ => true
  end.

Fixpoint run_check (s : state) (seen : snapshot) (ops : list op) (oks : list bool) (ds : list snapshot) : option state :=
  match ops, oks, ds with
  | [], [], [] => Some s
  | o :: ops', ok :: oks', d :: ds' =>
      let s' := step s o in
      let seen' := fold_left (fun acc ed => snap_set (fst ed) (snd ed) acc) d seen in
      if op_ok s' o ok && wf_b s' && snap_eqb (model_snapshot s') seen' then run_check s' seen' ops' oks' ds' else None
  | _, _, _ => None
  end.

Definition check_case (c : case) : bool :=
  match run_check state0 [] (c_ops c) (c_ok c) (c_deltas c) with
  | Some s => list_eqb Nat.eqb (canon [] (model_keys s)) (c_ids c)
  | None => false
  end.

(* for diagnosis in replay files *)
Definition model_result (c : case) := (model_snapshot (run (c_ops c)), canon [] (model_keys (run (c_ops c)))).
