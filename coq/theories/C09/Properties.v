From Coq Require Import List Arith ZArith Bool Lia.
Import ListNotations.
Require Import FV.Gen.C09 FV.C09.Model FV.C09.Lemmas.

Theorem C09_source_facts :
  walk_is_reversed_mro = true /\ second_loop_merges_in_place = true /\ wrapped_classes_skip = true /\
  param_update_properties = true /\ param_merge = true /\ param_clone = true /\ param_create_from_value = true /\
  accessible_copy = true /\ param_own_properties = true /\ param_finish_revalidates = true /\
  param_setproperty_routes = true /\ hasproperties_fresh_values = true /\ property_set_on_instance = true /\
  module_init_copies = true /\ add_accessible_configures_copy = true /\ datatype_copy_rebuilds = true /\
  register_input_replaces_datatype = true.
Proof. repeat split; reflexivity. Qed.
Print Assumptions C09_source_facts.
