(* C09 -- property theorems only; each is closed by a lemma of Lemmas.v / CmdLemmas.v / CmdFrame.v / Refuted.v.
   Parameter component (Model.v): heap of class level Parameter and datatype objects + class table + instances;
   ops = class definition, instantiation with configuration, setProperty on one instance, enum growth on one instance.
   Command / mixin component (CmdModel.v): heap of class level Command objects, of the argument / result datatype
   objects of classes AND instances, and of callback dicts; ops = class definition (Command(...)(func), plain method,
   None), instantiation, setProperty on the argument / result datatype of one instance, register_input.
   Module property component (PropModel.v): heap of class level Property objects; ops = class definition (Property(...),
   bare values), instantiation with configured properties, setProperty on one instance. *)
From Coq Require Import List Arith ZArith Bool Lia.
Import ListNotations.
Require Import FV.Gen.C09 FV.C09.Model FV.C09.Lemmas FV.C09.Remerge FV.C09.Refuted.
Require Import FV.C09.CmdModel FV.C09.CmdLemmas FV.C09.CmdFrame.
Require Import FV.C09.PropModel FV.C09.PropLemmas FV.C09.PropChain.

(* obligations on the facts regenerated from /repo (Gen/C09.v): the statements the model transliterates are there *)
Theorem C09_source_facts :
  walk_is_reversed_mro = true /\ second_loop_merges_in_place = true /\ wrapped_classes_skip = true /\
  param_update_properties = true /\ param_merge = true /\ param_clone = true /\ param_create_from_value = true /\
  accessible_copy = true /\ param_own_properties = true /\ param_finish_revalidates = true /\
  param_setproperty_routes = true /\ hasproperties_fresh_values = true /\ property_set_on_instance = true /\
  module_init_copies = true /\ add_accessible_configures_copy = true /\ datatype_copy_rebuilds = true /\
  register_input_replaces_datatype = true /\
  command_clone_copies_argument_and_result = true /\ command_merge_in_place = true /\
  command_create_from_value = true /\ command_call_marks_optional = true /\ command_own_properties = true /\
  mixins_no_mutable_class_attribute = true /\ register_input_creates_instance_dict_first = true /\
  properties_collected_along_reversed_mro = true /\ bare_value_override_copies_property_unconditionally = true /\
  hasproperties_init_presets_values = true /\ module_init_configures_properties_on_instance = true /\
  arrayof_getproperties_builds_new_dict = true /\ add_accessible_only_reads_cfg = true /\
  get_module_instance_copies_options = true.
Proof. repeat split; reflexivity. Qed.

(* (1) FULL STRENGTH.  An instance is changed only by the ops addressed to it: whatever else happens -- class
   definitions (any hierarchy), creation of other instances with any configuration (accepted or rejected), property
   changes and enum growth on other instances -- in any order and number, it stays exactly as it is *)
Theorem C09_instances_isolated : forall ops s j,
  j < length (insts s) -> forallb (fun o => negb (addresses o j)) ops = true ->
  nth j (insts (fold_left step ops s)) dead = nth j (insts s) dead.
Proof. intros; apply other_instances_unchanged_hist; assumption. Qed.

(* (2) FULL STRENGTH.  Creating, configuring and mutating instances never changes the description of any class *)
Theorem C09_classes_unaffected_by_instances : forall ops s c,
  forallb inst_op ops = true -> describe_class (fold_left step ops s) c = describe_class s c.
Proof. intros; apply class_unchanged_by_instance_ops; assumption. Qed.

(* (3) FULL STRENGTH.  An instance created later is the same whatever was created, configured or mutated before *)
Theorem C09_later_instances_unaffected : forall ops s ci c,
  forallb inst_op ops = true -> new_inst (fold_left step ops s) ci c = new_inst s ci c.
Proof. intros; apply later_instance_unaffected; assumption. Qed.

(* (4) FULL STRENGTH.  A new instance is a function (inst_spec, no heap, no other instance) of the description of its
   own class and of its own configuration *)
Theorem C09_instance_function_of_class_and_config : forall s ci c,
  ci < length (classes s) ->
  new_inst s ci c = inst_spec (c_module (nth ci (classes s) cls0)) (describe_full s (nth ci (classes s) cls0)) c.
Proof. intros; apply new_inst_is_spec; assumption. Qed.

(* (5) Exact footprint of a class definition: of the objects that exist already it writes only the Parameter objects it
   merges in place and the datatype objects it sets inherited datatype properties on (footprint s d, computed by the
   model); it never removes or changes an existing class record or an instance *)
Theorem C09_define_footprint : forall s d,
  (forall i, i < length (params s) -> ~ In i (fst (footprint s d)) -> getp (params (define s d)) i = getp (params s) i) /\
  (forall j, j < length (dts s) -> ~ In j (snd (footprint s d)) -> getd (dts (define s d)) j = getd (dts s) j) /\
  (exists c, classes (define s d) = classes s ++ [c]) /\ insts (define s d) = insts s.
Proof.
  intros. destruct (define_frame s d) as (A & B & _). repeat split; auto.
  eexists. reflexivity.
Qed.

(* (6) The full statement would be: forall s d c, In c (classes s) -> describe_class (define s d) c = describe_class s c.
   It is false in the model and in the pinned code (C09_refuted_inplace_merge, C09_refuted_own_datatype).  Proved with an
   exclusion stated on the INPUT side only (state s before the definition and the ghost sets the model computes for the
   definition; nothing about the state after it).  For every accessible object i of c:
     - i and its datatype object are outside the footprint of the definition (untouched), or
     - the definition writes to no datatype object in place (snd (footprint s d) = []) and every in-place merge (i, M) it
       does on i (merge_log s d, the ghost list of the `aobj.merge(merged_properties)` calls with their arguments) is a
       RE-merge: the content i has in s is the content merging with M prescribes (stable_remerge s i M: merge_read, a
       function on contents, has the description of i in s as a fixed point, and the datatype M names exists in s).
   The second case is the ordinary subclass: `class C2(A): pass`, or any subclass that inherits an accessible without
   overriding it, walks the same chain of class bodies as A did and merges A's object again with the same M
   (C09_demo_remerge_same_content, NonVacuity.v).  Both findings violate exactly stable_remerge
   (C09_guard_exact_diamond: M carries the description of the sibling; C09_guard_exact_leak: the datatype object M names
   was written to by the bare-value override in between) *)
Theorem C09_define_frame_except_inplace_writes : forall s d c,
  (forall k i, In (k, i) (c_acc c) ->
     acc_ok s i /\
     (untouched s d i \/
      (snd (footprint s d) = [] /\ forall M, In (i, M) (merge_log s d) -> stable_remerge s i M))) ->
  describe_class (define s d) c = describe_class s c.
Proof. intros; apply class_unchanged_by_remerge; assumption. Qed.

(* (7) for ALL existing classes at once: a definition that writes to no datatype object in place and whose in-place merges
   of EXISTING Parameter objects are all re-merges changes no existing description.  (Merges of the objects of its own
   body are unrestricted; a definition that overrides every inherited accessible, or inherits none, has no merge of an
   existing object and the second premise is empty; C09_merge_log_is_footprint ties the log to the footprint.) *)
Theorem C09_define_frame_self_contained : forall s d,
  snd (footprint s d) = [] ->
  (forall i M, In (i, M) (merge_log s d) -> i < length (params s) -> stable_remerge s i M) ->
  forall c, (forall k i, In (k, i) (c_acc c) -> acc_ok s i) -> describe_class (define s d) c = describe_class s c.
Proof. intros s d W S c H; apply all_classes_unchanged_by_remerge; assumption. Qed.

(* the ghost log lists exactly the Parameter objects of the footprint (5) is about *)
Theorem C09_merge_log_is_footprint : forall s d i,
  In i (fst (footprint s d)) <-> exists M, In (i, M) (merge_log s d).
Proof. intros; apply log_in_footprint. Qed.

(* why the re-merge premise holds for an object whose chain is walked again: merging is idempotent on contents.  An
   object that has been merged with M (src = content of the datatype object M names, if it names one) is a fixed point
   of merging with M, as long as that datatype object keeps its content *)
Theorem C09_remerge_idempotent : forall a M src,
  let a' := merge_read a M (match m_dt M with Some _ => src | None => a_dt a end) in
  merge_read a' M (match m_dt M with Some _ => src | None => a_dt a' end) = a'.
Proof. intros; apply merge_read_idem. Qed.

(* and the heap level merge establishes it: right after `aobj.merge(M)` on object i (i and its datatype object in range,
   the datatype M names in range) the object is a fixed point of merging with M in the resulting heap *)
Theorem C09_merge_establishes_stable : forall h i a M, K h i a ->
  (forall dd, m_dt M = Some dd -> dd < length (snd h)) ->
  stable_at (snd (merge_cell h i M)) (read (fst (merge_cell h i M)) (snd (merge_cell h i M)) i) M.
Proof. intros; eapply merge_establishes_stable; eassumption. Qed.

(* the violations *)
Theorem C09_refuted_mixin_alias :
  exists ops d i, let s := run ops in
    i < length (classes s) /\
    describe_class (define s d) (nth i (classes s) cls0) <> describe_class s (nth i (classes s) cls0).
Proof. exact C09_refuted_inplace_merge. Qed.

Theorem C09_refuted_value_override_leak :
  exists ops d i, let s := run ops in
    i < length (classes s) /\
    describe_class (define s d) (nth i (classes s) cls0) <> describe_class s (nth i (classes s) cls0).
Proof. exact C09_refuted_own_datatype. Qed.


(* ================= command / mixin component ================= *)

(* (8) FULL STRENGTH, for ALL sequences of class definitions / instantiations / run-time changes / registrations:
   no argument or result datatype object of an instance is referenced by any class level Command object
   (propertyValues or ownProperties) or by another instance, and a class definition writes to no datatype object that
   existed before it (the optional list set by Command.__call__ always lands in a new object).  So instances and
   classes never share argument / result datatype objects that any op could change *)
Theorem C09_command_datatypes_isolated : forall ops,
  let s := xrun ops in
  (forall i x, In x (xowned (inst_at s i)) -> x < length (xdts s) /\ ~ In x (class_refs (xcells s))) /\
  (forall i j x, i <> j -> In x (xowned (inst_at s i)) -> ~ In x (xowned (inst_at s j))) /\
  (forall d j, j < length (xdts s) -> getcd (xdts (xdefine s d)) j = getcd (xdts s) j).
Proof.
  intros ops s. pose proof (xinv_run ops) as V. fold s in V. split; [|split].
  - apply (I2 s V).
  - apply (I3 s V).
  - intros d. apply (xdefine_heap s d V).
Qed.

(* (9) FULL STRENGTH.  Consequence for behaviour: whatever else happens after any history -- class definitions,
   creation of other instances, changes of argument / result datatype properties of other instances, registrations
   on other instances -- instance j keeps its objects, the description of its commands (argument / result datainfo,
   hence what they accept) and its registered inputs *)
Theorem C09_command_instances_isolated : forall ops0 ops j,
  let s := xrun ops0 in
  j < length (xinsts s) -> forallb (fun o => negb (xaddresses o j)) ops = true ->
  inst_at (fold_left xstep ops s) j = inst_at s j /\
  xdescribe_inst (fold_left xstep ops s) (inst_at s j) = xdescribe_inst s (inst_at s j).
Proof. intros; apply other_inst_unchanged_hist; auto. apply xinv_run. Qed.

(* (10) FULL STRENGTH.  Creating instances, changing datatype properties of their command arguments / results and
   registering inputs never changes the command description of any class, nor the class attribute *)
Theorem C09_command_classes_unaffected_by_instances : forall ops0 ops c,
  let s := xrun ops0 in
  forallb xinst_op ops = true ->
  xdescribe_class (fold_left xstep ops s) c = xdescribe_class s c /\ xcls_inputs (fold_left xstep ops s) = xcls_inputs s.
Proof.
  intros ops0 ops c s H. destruct (class_unchanged_by_inst_ops ops s c (xinv_run ops0) H) as (A & B & _). auto.
Qed.

(* (11) FULL STRENGTH.  The commands and inputs of a new instance are a function (xnew_inst_desc: no instance, no heap
   identity) of the command description of its class and of its own configuration; hence an instance created after
   any instance ops is described like one created before them *)
Theorem C09_command_later_instances_unaffected : forall ops0 ops ci cfg,
  let s := xrun ops0 in
  forallb xinst_op ops = true ->
  let t := fold_left xstep ops s in
  xdescribe_inst (xinstantiate t ci true cfg) (inst_at (xinstantiate t ci true cfg) (length (xinsts t))) =
  xdescribe_inst (xinstantiate s ci true cfg) (inst_at (xinstantiate s ci true cfg) (length (xinsts s))).
Proof.
  intros ops0 ops ci cfg s H t.
  rewrite (new_inst_described t ci cfg (xinv_steps ops s (xinv_run ops0))).
  rewrite (new_inst_described s ci cfg (xinv_run ops0)).
  apply later_instance_unaffected_cmd; auto. apply xinv_run.
Qed.

(* (12) The full statement would be: a class definition changes the command description of no existing class.  It is
   false in the model and in the pinned code (C09_refuted_method_override_reset_by_subclass; the in-place merge of
   finding 1 applies to Command objects too).  Proved with the exact exclusion: none of the Command objects of the
   class is re-merged in place by the definition (xfootprint, computed by the model) *)
Theorem C09_command_define_frame_except_inplace_merge : forall ops0 d c,
  let s := xrun ops0 in
  (forall k i, In (k, i) (xc_acc c) -> i < length (xcells s) /\ ~ In i (xfootprint s d)) ->
  xdescribe_class (xdefine s d) c = xdescribe_class s c.
Proof. intros; apply class_unchanged_by_define_cmd; auto. apply xinv_run. Qed.

(* (13) FULL STRENGTH, for ALL sequences of ops: the callback dict an instance writes to is neither the class attribute
   nor the dict of another instance; nothing is ever registered in the class attribute, so an instance created at any
   time (accepted or not) starts without inputs; and registrations on other instances (like every other op not
   addressed to it) leave the inputs of instance j alone *)
Theorem C09_mixin_state_isolated : forall ops0,
  let s := xrun ops0 in
  (forall i d, xi_cb (inst_at s i) = Some d -> d < length (xcbs s) /\ xclscb s <> Some d) /\
  (forall i j d, i <> j -> xi_cb (inst_at s i) = Some d -> xi_cb (inst_at s j) <> Some d) /\
  xcls_inputs s = [] /\
  (forall ci ok cfg,
     xinputs (xinstantiate s ci ok cfg) (inst_at (xinstantiate s ci ok cfg) (length (xinsts s))) = []) /\
  (forall ops j, j < length (xinsts s) -> forallb (fun o => negb (xaddresses o j)) ops = true ->
     xinputs (fold_left xstep ops s) (inst_at (fold_left xstep ops s) j) = xinputs s (inst_at s j)).
Proof.
  intros ops0 s. pose proof (xinv_run ops0) as V. fold s in V. split; [|split; [|split; [|split]]].
  - apply (M1 s V).
  - apply (M2 s V).
  - apply (M4 s V).
  - intros. apply new_inst_inputs. assumption.
  - intros ops j Lj H. destruct (other_inst_unchanged_hist ops s j V Lj H) as [E1 E2].
    rewrite E1. unfold xdescribe_inst in E2. inversion E2. reflexivity.
Qed.

Theorem C09_refuted_method_override_reset :
  exists ops d i, let s := xrun ops in
    i < length (xclasses s) /\
    xdescribe_class (xdefine s d) (nth i (xclasses s) xcls0) <> xdescribe_class s (nth i (xclasses s) xcls0).
Proof. exact C09_refuted_method_override_reset_by_subclass. Qed.

(* non-vacuity of (8)/(9): two instances of a class with a struct argument, the limit of member b of ONE is changed:
   the instances own 2 + 2 distinct objects, the description of instance 0 changes, that of instance 1 and of the class
   does not *)
Example C09_demo_setarg :
  let s := xrun [xA; XInst 0 true []; XInst 0 true []] in
  let s' := xstep s (XSetArg 0 2 false (Some 2%Z) 4 5%Z) in
  xowned (inst_at s 0) = [1] /\ xowned (inst_at s 1) = [2] /\ class_refs (xcells s) = [0; 0] /\
  xdescribe_inst s' (inst_at s' 0) <> xdescribe_inst s (inst_at s 0) /\
  xdescribe_inst s' (inst_at s' 1) = xdescribe_inst s (inst_at s 1) /\
  xdescribe_class s' (nth 0 (xclasses s') xcls0) = xdescribe_class s (nth 0 (xclasses s) xcls0).
Proof. vm_compute. repeat split. intro H. discriminate H. Qed.

(* non-vacuity of (13): inputs registered on instances 0 and 1 of one class stay apart, instance 2 created later has none *)
Example C09_demo_register :
  let s := xrun [xA; XInst 0 true []; XInst 0 true []; XRegister 0 1001%Z; XRegister 1 1002%Z; XRegister 0 1003%Z;
                 XInst 0 true []] in
  map (fun i => xinputs s (inst_at s i)) [0; 1; 2] = [[1001%Z; 1003%Z]; [1002%Z]; []] /\ xcls_inputs s = [].
Proof. vm_compute. repeat split. Qed.

(* non-vacuity of (6)/(7) on ordinary subclasses.  E: p (FloatRange, object 0), mode (enum, object 1);
   `class F(E): p = Parameter(max=5)` inherits mode without overriding it: footprint ([1; 2], []) - object 1 of E is
   merged again, object 2 is F's own; the premises of (7) hold and E keeps its description, while F differs from E *)
Definition demo_en : dt := mkdt 2 None None 0 [(7%Z, 1%Z)].
Definition demo_E : op :=
  modcls [0] [(1, par (Some 1%Z) (Some (fl 0 10)) (Some 1%Z) None None);
              (3, par (Some 2%Z) (Some demo_en) (Some 1%Z) None None)].
Definition demo_F : cdef := body_of (modcls [1; 0] [(1, par None None None (Some 5%Z) None)]).

Ltac log_cases H :=
  vm_compute in H;
  repeat match type of H with
         | _ \/ _ => destruct H as [H|H]
         | False => contradiction
         end.

Example C09_demo_self_contained :
  let s := run [demo_E] in
  footprint s demo_F = ([1; 2], []) /\ length (params s) = 2 /\
  describe_class (define s demo_F) (nth 0 (classes s) cls0) = describe_class s (nth 0 (classes s) cls0) /\
  length (describe_class s (nth 0 (classes s) cls0)) = 2 /\
  describe_class (define s demo_F) (last (classes (define s demo_F)) cls0) <> describe_class s (nth 0 (classes s) cls0).
Proof.
  cbv zeta. split; [vm_compute; reflexivity|]. split; [vm_compute; reflexivity|].
  split; [|split; [vm_compute; reflexivity | intro H; vm_compute in H; discriminate H]].
  apply C09_define_frame_self_contained.
  - vm_compute. reflexivity.
  - intros i M H L. log_cases H; injection H as Hi HM; subst i M;
      first [ vm_compute in L; lia
            | split; [intros dd E; vm_compute in E; injection E as E; subst dd; vm_compute; lia | vm_compute; reflexivity] ].
  - intros k i H. log_cases H; injection H as Hk Hi; subst k i;
      (split; [vm_compute; lia | intros j E; vm_compute in E; injection E as E; subst j; vm_compute; lia]).
Qed.

(* `class D(A): pass` re-merges A.p in place (footprint [0]) to the same content: (6) applies to c = A through its
   re-merge disjunct, which is decided on the state before the definition *)
Example C09_demo_remerge_same_content :
  let s := run [cA] in
  let d := body_of (modcls [1; 0] []) in
  footprint s d = ([0], []) /\ map fst (merge_log s d) = [0] /\ c_acc (nth 0 (classes s) cls0) = [(1, 0)] /\
  describe_class (define s d) (nth 0 (classes s) cls0) = describe_class s (nth 0 (classes s) cls0).
Proof.
  cbv zeta. split; [vm_compute; reflexivity|]. split; [vm_compute; reflexivity|]. split; [vm_compute; reflexivity|].
  apply C09_define_frame_except_inplace_writes. intros k i H. log_cases H. injection H as Hk Hi. subst k i. split.
  - split; [vm_compute; lia | intros j E; vm_compute in E; injection E as E; subst j; vm_compute; lia].
  - right. split; [vm_compute; reflexivity|]. intros M H. log_cases H. injection H as HM. subst M.
    split; [intros dd E; vm_compute in E; injection E as E; subst dd; vm_compute; lia | vm_compute; reflexivity].
Qed.

(* the guard is exact: each of the two witnesses of Refuted.v satisfies every premise of (6) for the changed class
   except stable_remerge - the definition writes to no datatype object in place, the object of the changed class is in
   range, it is merged once, and the content it has is NOT the one that merge prescribes *)
Example C09_guard_exact_diamond :
  let s := run diamond_before in
  snd (footprint s diamond_Z) = [] /\ c_acc (nth 1 (classes s) cls0) = [(1, 1)] /\ acc_ok s 1 /\
  exists M, merge_log s diamond_Z = [(1, M)] /\ (forall dd, m_dt M = Some dd -> dd < length (dts s)) /\
            ~ stable_remerge s 1 M.
Proof.
  cbv zeta. split; [vm_compute; reflexivity|]. split; [vm_compute; reflexivity|].
  split; [split; [vm_compute; lia | intros j E; vm_compute in E; injection E as E; subst j; vm_compute; lia]|].
  eexists. split; [vm_compute; reflexivity|]. split.
  - intros dd E. vm_compute in E. injection E as E. subst dd. vm_compute. lia.
  - intros [_ H]. vm_compute in H. discriminate H.
Qed.

Example C09_guard_exact_leak :
  let s := run leak_before in
  snd (footprint s leak_D) = [] /\ c_acc (nth 0 (classes s) cls0) = [(1, 0)] /\ acc_ok s 0 /\
  exists M, merge_log s leak_D = [(0, M)] /\ (forall dd, m_dt M = Some dd -> dd < length (dts s)) /\
            ~ stable_remerge s 0 M.
Proof.
  cbv zeta. split; [vm_compute; reflexivity|]. split; [vm_compute; reflexivity|].
  split; [split; [vm_compute; lia | intros j E; vm_compute in E; injection E as E; subst j; vm_compute; lia]|].
  eexists. split; [vm_compute; reflexivity|]. split.
  - intros dd E. vm_compute in E. injection E as E. subst dd. vm_compute. lia.
  - intros [_ H]. vm_compute in H. discriminate H.
Qed.

(* ---------- module level PROPERTIES (PropModel.v): Property objects of classes on a heap, bare value overrides at any
   number of levels and through plain mixins, instantiation with configuration, setProperty on one instance.
   FULL STRENGTH, for ALL histories ops1 (from the state in which only frappy's own Module class exists) and ALL
   continuations ops2 (class definitions of any shape, instantiations, run-time changes), with s1 the state after ops1
   and s2 the state after ops1 ++ ops2:
   (a) every Property object referenced by a class (propertyDict or class __dict__) exists - together with (b) this is
       the heap invariant: a definition only appends objects, so no later class can have written to them;
   (b) every class that exists in s1 - the base classes, the siblings, anything defined before - has in s2 the same
       record (MRO, __dict__, propertyDict: the same OBJECTS) and every one of these objects has the same content
       (range, default, preset value);
   (c) an instance created in s2 of a class of s1 is the instance that would have been created in s1, and it is
       pinst_spec = a function of the content of the Property objects of its own class and of its own configuration;
   (d) an instance that exists in s1 and is not addressed by an op of ops2 is unchanged. *)
Theorem C09_properties_isolated : forall ops1 ops2,
  let s1 := prun ops1 in
  let s2 := prun (ops1 ++ ops2) in
  (forall c k i, In c (p_classes s2) -> (In (k, i) (pc_pd c) \/ In (k, PEProp i) (pc_dict c)) -> i < length (p_heap s2)) /\
  (forall ci, ci < length (p_classes s1) ->
     pclass_at s2 ci = pclass_at s1 ci /\
     pdescribe (p_heap s2) (pclass_at s2 ci) = pdescribe (p_heap s1) (pclass_at s1 ci)) /\
  (forall ci ok cfg, ci < length (p_classes s1) ->
     pnew_inst s2 ci ok cfg = pnew_inst s1 ci ok cfg /\
     pnew_inst s2 ci ok cfg = pinst_spec ci ok (pdescribe (p_heap s1) (pclass_at s1 ci)) cfg) /\
  (forall j, j < length (p_insts s1) -> forallb (fun o => negb (paddresses o j)) ops2 = true ->
     nth j (p_insts s2) pdead = nth j (p_insts s1) pdead).
Proof.
  intros ops1 ops2 s1 s2.
  assert (E : s2 = fold_left pstep ops2 s1) by (unfold s1, s2, prun; apply fold_left_app).
  assert (I1 : pinv s1) by apply pinv_run.
  split; [|split; [|split]].
  - intros c k i Hc [H|H]; destruct (pinv_run (ops1 ++ ops2) c Hc) as [A B]; [eapply A | eapply B]; eauto.
  - intros ci L. rewrite E. destruct (class_kept_steps ops2 s1 ci I1 L) as [A B]. split. exact A. rewrite A. exact B.
  - intros ci ok cfg L. rewrite E. rewrite (later_instance_same ops2 s1 ci ok cfg I1 L). split. reflexivity.
    apply pnew_inst_is_spec.
  - intros j L H. rewrite E. apply inst_kept_steps; assumption.
Qed.

(* non-vacuity (the scenario of two levels of bare values and of a plain mixin): Base: gain = Property(1..1000,
   default 1); Amp(Base): gain = 10; BigAmp(Amp): gain = 100; Hidden: gain = 999 (plain); X(Hidden, Amp).  Amp keeps
   10 in an object of its own, BigAmp and X have 100 / 999 in further new objects, an instance of Amp created at the
   end holds 10, setProperty changes the addressed instance only *)
Example C09_demo_two_level_override :
  let ops := [PDefine (mkpcdef true [1; 0] [(0, PBNew 1 1000 1 None)]);
              PDefine (mkpcdef true [2; 1; 0] [(0, PBBare 10)]);
              PInst 2 true [];
              PDefine (mkpcdef true [3; 2; 1; 0] [(0, PBBare 100)]);
              PDefine (mkpcdef false [4] [(0, PBBare 999)]);
              PDefine (mkpcdef true [5; 4; 2; 1; 0] []);
              PInst 2 true []; PInst 3 true []; PInst 5 true [(0, 7%Z)]; PSetProp 1 0 8%Z] in
  let s := prun ops in
  map (fun c => pclass_obs (p_heap s) c) (tl (p_classes s)) =
    [[(2, (None, 1%Z)); (3, (None, 15%Z)); (0, (None, 1%Z))];
     [(2, (None, 1%Z)); (3, (None, 15%Z)); (0, (Some 10%Z, 1%Z))];
     [(2, (None, 1%Z)); (3, (None, 15%Z)); (0, (Some 100%Z, 1%Z))];
     [];
     [(2, (None, 1%Z)); (3, (None, 15%Z)); (0, (Some 999%Z, 1%Z))]] /\
  map (fun c => map snd (pc_pd c)) (tl (p_classes s)) = [[0; 1; 2]; [0; 1; 3]; [0; 1; 4]; []; [0; 1; 5]] /\
  map (pinst_obs s) (p_insts s) =
    [[(2, 1%Z); (3, 15%Z); (0, 10%Z)]; [(2, 1%Z); (3, 15%Z); (0, 8%Z)]; [(2, 1%Z); (3, 15%Z); (0, 100%Z)];
     [(2, 1%Z); (3, 15%Z); (0, 7%Z)]].
Proof. vm_compute. repeat split. Qed.

(* FULL STRENGTH.  The property part of a class is a function of its own chain only: in ANY two reachable worlds, two
   definitions with the same body whose MROs show the same content (view = the class __dict__ with every Property object
   replaced by its content: identities, heap positions, other classes and all instances are invisible) produce classes with
   the same content - class __dict__ and propertyDict -, namely vdefine (a function without heap) of body and views.
   With (b) of C09_properties_isolated (the view of a class never changes after its definition) this is: the properties
   of a class are determined by the bodies along its own MRO, whatever else was defined or created before or after *)
Theorem C09_property_description_function_of_chain : forall ops ops' d d',
  let s := prun ops in
  let s' := prun ops' in
  pd_module d = pd_module d' -> pd_body d = pd_body d' ->
  map (view (p_heap s)) (base_dicts (p_classes s) (pd_mro d)) =
  map (view (p_heap s')) (base_dicts (p_classes s') (pd_mro d')) ->
  let c := last (p_classes (pdefine s d)) pcls0 in
  let c' := last (p_classes (pdefine s' d')) pcls0 in
  view (p_heap (pdefine s d)) (pc_dict c) = view (p_heap (pdefine s' d')) (pc_dict c') /\
  pdescribe (p_heap (pdefine s d)) c = pdescribe (p_heap (pdefine s' d')) c' /\
  (view (p_heap (pdefine s d)) (pc_dict c), pdescribe (p_heap (pdefine s d)) c)
  = vdefine (pd_module d) (pd_body d) (map (view (p_heap s)) (base_dicts (p_classes s) (pd_mro d))).
Proof.
  intros ops ops' d d' s s' Hm Hb Hv c c'.
  pose proof (define_is_function_of_chain s d (pinv_run ops)) as A.
  pose proof (define_is_function_of_chain s' d' (pinv_run ops')) as B.
  cbv zeta in A, B. fold c in A. fold c' in B. rewrite <- Hm, <- Hb, <- Hv in B.
  split; [|split; [|exact A]].
  - apply (f_equal fst) in A. apply (f_equal fst) in B. simpl in A, B. congruence.
  - apply (f_equal snd) in A. apply (f_equal snd) in B. simpl in A, B. congruence.
Qed.

(* non-vacuity: Amp(Base): gain = 10 defined in a world with Base only and in a world where a sibling with its own bare
   values and an instance exist: the hypothesis holds, and the description is the expected one *)
Example C09_demo_chain_two_worlds :
  let base := PDefine (mkpcdef true [1; 0] [(0, PBNew 1 1000 1 None)]) in
  let s := prun [base] in
  let s' := prun [base; PDefine (mkpcdef true [2; 1; 0] [(0, PBBare 100); (3, PBBare 60)]); PInst 2 true [(0, 7%Z)]] in
  let d := mkpcdef true [2; 1; 0] [(0, PBBare 10)] in
  let d' := mkpcdef true [3; 1; 0] [(0, PBBare 10)] in
  map (view (p_heap s)) (base_dicts (p_classes s) (pd_mro d)) =
  map (view (p_heap s')) (base_dicts (p_classes s') (pd_mro d')) /\
  pdescribe (p_heap (pdefine s' d')) (last (p_classes (pdefine s' d')) pcls0) =
    [(2, mkpo 1 3 1 None); (3, mkpo 1 120 15 None); (0, mkpo 1 1000 1 (Some 10%Z))].
Proof. vm_compute. split; reflexivity. Qed.

Print Assumptions C09_source_facts.
Print Assumptions C09_instances_isolated.
Print Assumptions C09_classes_unaffected_by_instances.
Print Assumptions C09_later_instances_unaffected.
Print Assumptions C09_instance_function_of_class_and_config.
Print Assumptions C09_define_footprint.
Print Assumptions C09_define_frame_except_inplace_writes.
Print Assumptions C09_define_frame_self_contained.
Print Assumptions C09_merge_log_is_footprint.
Print Assumptions C09_remerge_idempotent.
Print Assumptions C09_merge_establishes_stable.
Print Assumptions C09_refuted_mixin_alias.
Print Assumptions C09_refuted_value_override_leak.
Print Assumptions C09_command_datatypes_isolated.
Print Assumptions C09_command_instances_isolated.
Print Assumptions C09_command_classes_unaffected_by_instances.
Print Assumptions C09_command_later_instances_unaffected.
Print Assumptions C09_command_define_frame_except_inplace_merge.
Print Assumptions C09_mixin_state_isolated.
Print Assumptions C09_refuted_method_override_reset.
Print Assumptions C09_properties_isolated.
Print Assumptions C09_property_description_function_of_chain.
