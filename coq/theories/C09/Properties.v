(* C09 -- property theorems only; each is closed by a lemma of Lemmas.v / Refuted.v.
   State = heap of class level Parameter and datatype objects + class table + instances; ops = class definition,
   instantiation with configuration, setProperty on one instance, enum growth on one instance. *)
From Coq Require Import List Arith ZArith Bool Lia.
Import ListNotations.
Require Import FV.Gen.C09 FV.C09.Model FV.C09.Lemmas FV.C09.Refuted.

(* obligations on the facts regenerated from /repo (Gen/C09.v): the statements the model transliterates are there *)
Theorem C09_source_facts :
  walk_is_reversed_mro = true /\ second_loop_merges_in_place = true /\ wrapped_classes_skip = true /\
  param_update_properties = true /\ param_merge = true /\ param_clone = true /\ param_create_from_value = true /\
  accessible_copy = true /\ param_own_properties = true /\ param_finish_revalidates = true /\
  param_setproperty_routes = true /\ hasproperties_fresh_values = true /\ property_set_on_instance = true /\
  module_init_copies = true /\ add_accessible_configures_copy = true /\ datatype_copy_rebuilds = true /\
  register_input_replaces_datatype = true.
Proof. repeat split; reflexivity. Qed.

(* (1) FULL STRENGTH.  An instance is changed only by the ops addressed to it: whatever else happens -- class
   definitions (any hierarchy), creation of other instances with any configuration (accepted or rejected), property
   changes and enum growth on other instances -- in any order and number, it stays exactly as it is *)
Theorem C09_instances_isolated : forall ops s j,
  j < length (insts s) -> forallb (fun o => negb (addresses o j)) ops = true ->
  nth j (insts (fold_left step ops s)) dead = nth j (insts s) dead.
Proof. intros; apply other_instances_unchanged_hist; assumption. Qed.

(* (2) FULL STRENGTH.  Creating, configuring and mutating instances never changes the description of any class *)
Theorem C09_classes_unaffected_by_instances : forall ops s c,
  forallb inst_op ops = true -> describe_class (fold_left step ops s) c = describe_class s c.
Proof. intros; apply class_unchanged_by_instance_ops; assumption. Qed.

(* (3) FULL STRENGTH.  An instance created later is the same whatever was created, configured or mutated before *)
Theorem C09_later_instances_unaffected : forall ops s ci c,
  forallb inst_op ops = true -> new_inst (fold_left step ops s) ci c = new_inst s ci c.
Proof. intros; apply later_instance_unaffected; assumption. Qed.

(* (4) FULL STRENGTH.  A new instance is a function (inst_spec, no heap, no other instance) of the description of its
   own class and of its own configuration *)
Theorem C09_instance_function_of_class_and_config : forall s ci c,
  ci < length (classes s) ->
  new_inst s ci c = inst_spec (c_module (nth ci (classes s) cls0)) (describe_full s (nth ci (classes s) cls0)) c.
Proof. intros; apply new_inst_is_spec; assumption. Qed.

(* (5) Exact footprint of a class definition: of the objects that exist already it writes only the Parameter objects it
   merges in place and the datatype objects it sets inherited datatype properties on (footprint s d, computed by the
   model); it never removes or changes an existing class record or an instance *)
Theorem C09_define_footprint : forall s d,
  (forall i, i < length (params s) -> ~ In i (fst (footprint s d)) -> getp (params (define s d)) i = getp (params s) i) /\
  (forall j, j < length (dts s) -> ~ In j (snd (footprint s d)) -> getd (dts (define s d)) j = getd (dts s) j) /\
  (exists c, classes (define s d) = classes s ++ [c]) /\ insts (define s d) = insts s.
Proof.
  intros. destruct (define_frame s d) as (A & B & _). repeat split; auto.
  eexists. reflexivity.
Qed.

(* (6) The full statement would be: forall s d c, In c (classes s) -> describe_class (define s d) c = describe_class s c.
   It is false in the model and in the pinned code (C09_refuted_inplace_merge, C09_refuted_own_datatype).  Proved with the
   exact exclusion: every accessible object of c is either outside the footprint of the definition or re-merged to the
   same content *)
Theorem C09_define_frame_except_inplace_writes : forall s d c,
  (forall k i, In (k, i) (c_acc c) ->
     acc_ok s i /\ (untouched s d i \/ read (params (define s d)) (dts (define s d)) i = read (params s) (dts s) i)) ->
  describe_class (define s d) c = describe_class s c.
Proof. intros; apply class_unchanged_by_define; assumption. Qed.

(* (7) in particular a definition that writes to no existing object changes no existing description *)
Theorem C09_define_frame_self_contained : forall s d c,
  (forall i, In i (fst (footprint s d)) -> length (params s) <= i) ->
  (forall j, In j (snd (footprint s d)) -> length (dts s) <= j) ->
  (forall k i, In (k, i) (c_acc c) -> acc_ok s i) ->
  describe_class (define s d) c = describe_class s c.
Proof.
  intros s d c Hp Hd Hok. apply class_unchanged_by_define. intros k i Hin.
  destruct (Hok k i Hin) as [Hi Hj]. split; [split; assumption|]. left. split.
  - intro H. apply Hp in H. lia.
  - intros j E H. apply Hd in H. specialize (Hj j E). lia.
Qed.

(* the violations *)
Theorem C09_refuted_mixin_alias :
  exists ops d i, let s := run ops in
    i < length (classes s) /\
    describe_class (define s d) (nth i (classes s) cls0) <> describe_class s (nth i (classes s) cls0).
Proof. exact C09_refuted_inplace_merge. Qed.

Theorem C09_refuted_value_override_leak :
  exists ops d i, let s := run ops in
    i < length (classes s) /\
    describe_class (define s d) (nth i (classes s) cls0) <> describe_class s (nth i (classes s) cls0).
Proof. exact C09_refuted_own_datatype. Qed.

(* non-vacuity: an overriding subclass with an own Parameter object writes to nothing that exists;
   `class D(A): pass` re-merges A.p in place (footprint [0]) to the same content *)
Example C09_demo_self_contained :
  let s := run [cA] in
  let d := body_of (modcls [1; 0] [(1, par None None None (Some 5%Z) None)]) in
  forallb (fun i => Nat.leb (length (params s)) i) (fst (footprint s d)) = true /\ snd (footprint s d) = [] /\
  map snd (describe_class (define s d) (last (classes (define s d)) cls0)) =
    [{| a_desc := Some 1%Z; a_group := None; a_value := Some 1%Z; a_dt := mkdt 1 (Some 0%Z) (Some 5%Z) 0 [] |}].
Proof. vm_compute. repeat split. Qed.

Example C09_demo_remerge_same_content :
  let s := run [cA] in
  let d := body_of (modcls [1; 0] []) in
  footprint s d = ([0], []) /\ read (params (define s d)) (dts (define s d)) 0 = read (params s) (dts s) 0.
Proof. vm_compute. repeat split. Qed.

Print Assumptions C09_source_facts.
Print Assumptions C09_instances_isolated.
Print Assumptions C09_classes_unaffected_by_instances.
Print Assumptions C09_later_instances_unaffected.
Print Assumptions C09_instance_function_of_class_and_config.
Print Assumptions C09_define_footprint.
Print Assumptions C09_define_frame_except_inplace_writes.
Print Assumptions C09_define_frame_self_contained.
Print Assumptions C09_refuted_mixin_alias.
Print Assumptions C09_refuted_value_override_leak.
