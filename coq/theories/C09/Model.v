(* C09 -- executable model of how frappy builds the accessibles of module classes and instances:
     HasAccessibles.__init_subclass__ (walk of the reversed MRO, updateProperties, in-place merge, create_from_value,
     override by None), Parameter.__init__ / clone / copy / merge / finish (value re-validation), Module.__init__
     (per instance copies, configuration applied to the copy, the checks that reject a configuration),
     Parameter.setProperty on one instance, HasControlledBy.register_input (enum growth by replacing the datatype).
   Class level Parameter objects and datatype objects live in a heap (object identity = index), because the pinned
   code really aliases and mutates them; instances are values (their objects are private copies, which the
   correspondence checks on the implementation by an identity traversal).  No proofs in this file. *)
From Coq Require Import List Arith ZArith Bool.
Import ListNotations.

Definition name := nat.
Definition id := nat.

(* ---------- datatypes: kind 0 = ValueType (no datatype), 1 = FloatRange, 2 = EnumType *)
Record dt := mkdt { dkind : nat; dmin : option Z; dmax : option Z; dunit : Z; dmem : list (Z * Z) }.
Definition dt0 : dt := mkdt 0 None None 0 [].

(* property keys: 0 description, 1 group, 2 value, 3 min, 4 max, 5 unit *)
Definition dt_set (d : dt) (k : nat) (v : Z) : dt :=
  match dkind d with
  | 1 => match k with
         | 3 => mkdt 1 (Some v) (dmax d) (dunit d) (dmem d)
         | 4 => mkdt 1 (dmin d) (Some v) (dunit d) (dmem d)
         | 5 => mkdt 1 (dmin d) (dmax d) v (dmem d)
         | _ => d
         end
  | _ => d
  end.

Definition dt_set_opt (d : dt) (k : nat) (v : option Z) : dt :=
  match v with Some z => dt_set d k z | None => d end.

(* datatype(value) succeeds *)
Definition accepts (d : dt) (v : Z) : bool :=
  match dkind d with
  | 2 => existsb (fun m => Z.eqb (snd m) v) (dmem d)
  | _ => true
  end.

(* ---------- properties of a Parameter object *)
(* ownProperties / merged properties: what is handed on along the class chain *)
Record mprops := {
  m_desc : option Z; m_group : option Z; m_value : option (option Z); m_dt : option id;
  m_min : option Z; m_max : option Z; m_unit : option Z }.
Definition m_empty : mprops :=
  {| m_desc := None; m_group := None; m_value := None; m_dt := None; m_min := None; m_max := None; m_unit := None |}.

(* propertyValues *)
Record pvals := { v_desc : option Z; v_group : option Z; v_value : option Z; v_dt : option id }.
Record pcell := { pv : pvals; own : mprops }.
Definition pcell0 : pcell :=
  {| pv := {| v_desc := None; v_group := None; v_value := None; v_dt := None |}; own := m_empty |}.

Definition ov {A} (a b : option A) : option A := match b with Some _ => b | None => a end.

(* Parameter.updateProperties: a datatype given by the overriding Parameter clears inherited datatype properties *)
Definition upd_props (m o : mprops) : mprops :=
  let clear := match m_dt o with Some _ => true | None => false end in
  {| m_desc := ov (m_desc m) (m_desc o); m_group := ov (m_group m) (m_group o);
     m_value := ov (m_value m) (m_value o); m_dt := ov (m_dt m) (m_dt o);
     m_min := ov (if clear then None else m_min m) (m_min o);
     m_max := ov (if clear then None else m_max m) (m_max o);
     m_unit := ov (if clear then None else m_unit m) (m_unit o) |}.

Definition apply_dtprops (d : dt) (M : mprops) : dt :=
  dt_set_opt (dt_set_opt (dt_set_opt d 3 (m_min M)) 4 (m_max M)) 5 (m_unit M).

(* Parameter.finish: a value that the datatype does not accept is dropped *)
Definition revalidate (v : option Z) (d : dt) : option Z :=
  match v with Some z => if accepts d z then Some z else None | None => None end.

(* ---------- class bodies *)
Record pspec := {
  s_desc : option Z; s_dt : option dt; s_inherit : bool; s_group : option Z; s_value : option Z;
  s_min : option Z; s_max : option Z; s_unit : option Z }.
Inductive entry := EParam (s : pspec) | EValue (z : Z) | ENone.
(* what a class __dict__ holds *)
Inductive dentry := DParam (i : id) | DValue (z : Z) | DNone.

Record cdef := { d_module : bool; d_mro : list nat; d_dict : list (name * entry) }.

Record cls := { c_module : bool; c_mro : list nat; c_dict : list (name * dentry); c_acc : list (name * id) }.
Definition cls0 : cls := {| c_module := false; c_mro := []; c_dict := []; c_acc := [] |}.

(* description of one accessible (what the harness observes) *)
Record acc_desc := { a_desc : option Z; a_group : option Z; a_value : option Z; a_dt : dt }.

Record inst := { i_alive : bool; i_acc : list (name * acc_desc) }.

Record state := { params : list pcell; dts : list dt; classes : list cls; insts : list inst }.
Definition state0 : state := {| params := []; dts := []; classes := []; insts := [] |}.

Definition getp (ps : list pcell) (i : id) : pcell := nth i ps pcell0.
Definition getd (ds : list dt) (i : id) : dt := nth i ds dt0.
Definition rd_dt (ds : list dt) (o : option id) : dt := match o with Some i => getd ds i | None => dt0 end.

Fixpoint set_nth {A} (l : list A) (i : nat) (x : A) : list A :=
  match l, i with
  | [], _ => []
  | _ :: r, 0 => x :: r
  | y :: r, S j => y :: set_nth r j x
  end.

Fixpoint lookup {A} (k : nat) (l : list (nat * A)) : option A :=
  match l with [] => None | (k', v) :: r => if Nat.eqb k k' then Some v else lookup k r end.

(* heap primitives: (params, dts) *)
Definition heap := (list pcell * list dt)%type.
Definition alloc_dt (h : heap) (d : dt) : heap * id := ((fst h, snd h ++ [d]), length (snd h)).
Definition alloc_p (h : heap) (c : pcell) : heap * id := ((fst h ++ [c], snd h), length (fst h)).
Definition set_dt (h : heap) (i : id) (d : dt) : heap := (fst h, set_nth (snd h) i d).
Definition set_pv (h : heap) (i : id) (v : pvals) : heap :=
  (set_nth (fst h) i {| pv := v; own := own (getp (fst h) i) |}, snd h).

(* ---------- Parameter(...) in a class body: one new Parameter object, at most one new datatype object *)
Definition new_param (h : heap) (s : pspec) : heap * id :=
  let '(h1, dtid) :=
    match s_dt s with
    | Some d => let '(h', i) := alloc_dt h (dt_set_opt (dt_set_opt (dt_set_opt d 3 (s_min s)) 4 (s_max s)) 5 (s_unit s))
                in (h', Some i)
    | None => (h, None)
    end in
  let value := match s_dt s with Some d => revalidate (s_value s) d | None => s_value s end in
  let p := {| v_desc := s_desc s; v_group := s_group s; v_value := value; v_dt := dtid |} in
  if s_inherit s then
    let o := {| m_desc := s_desc s; m_group := s_group s; m_value := option_map Some value; m_dt := dtid;
                m_min := match s_dt s with Some _ => None | None => s_min s end;
                m_max := match s_dt s with Some _ => None | None => s_max s end;
                m_unit := match s_dt s with Some _ => None | None => s_unit s end |} in
    alloc_p h1 {| pv := p; own := o |}
  else
    (* inherit=False: every property (the given ones, else the defaults) is an own property *)
    let '(h2, dtid') := match dtid with Some i => (h1, i) | None => alloc_dt h1 dt0 end in
    let o := {| m_desc := Some (match s_desc s with Some z => z | None => 0%Z end);
                m_group := Some (match s_group s with Some z => z | None => 0%Z end);
                m_value := Some value; m_dt := Some dtid'; m_min := None; m_max := None; m_unit := None |} in
    alloc_p h2 {| pv := p; own := o |}.

Definition new_entry (hd : heap * list (name * dentry)) (ne : name * entry) : heap * list (name * dentry) :=
  let '(h, d) := hd in
  match snd ne with
  | EParam s => let '(h', i) := new_param h s in (h', d ++ [(fst ne, DParam i)])
  | EValue z => (h, d ++ [(fst ne, DValue z)])
  | ENone => (h, d ++ [(fst ne, DNone)])
  end.

(* ---------- walk of the reversed MRO for one name *)
Record wstate := { w_acc : option id; w_M : mprops; w_ov : option (option Z) }.
Definition w0 : wstate := {| w_acc := None; w_M := m_empty; w_ov := None |}.

Definition wstep (ps : list pcell) (w : wstate) (e : dentry) : wstate :=
  match e with
  | DParam i => {| w_acc := Some i; w_M := upd_props (w_M w) (own (getp ps i)); w_ov := None |}
  | DValue z => match w_acc w with
                | Some _ => {| w_acc := w_acc w; w_M := w_M w; w_ov := Some (Some z) |}
                | None => w end
  | DNone => match w_acc w with
             | Some _ => {| w_acc := w_acc w; w_M := w_M w; w_ov := Some None |}
             | None => w end
  end.

(* the entries for name k in the class bodies along the MRO, base-most first; cs includes the class being defined *)
Definition chain (cs : list cls) (mro : list nat) (k : name) : list dentry :=
  flat_map (fun b => match lookup k (c_dict (nth b cs cls0)) with Some e => [e] | None => [] end) (rev mro).

Definition walk (ps : list pcell) (cs : list cls) (mro : list nat) (k : name) : wstate :=
  fold_left (wstep ps) (chain cs mro k) w0.

(* what Parameter.merge writes into the object (pure part) *)
Definition merged_pv (p : pvals) (M : mprops) (dtid : option id) (d : dt) : pvals :=
  {| v_desc := ov (v_desc p) (m_desc M); v_group := ov (v_group p) (m_group M);
     v_value := revalidate (match m_value M with Some x => x | None => v_value p end) d;
     v_dt := dtid |}.

Definition has_dtprops (M : mprops) : bool :=
  match m_min M, m_max M, m_unit M with None, None, None => false | _, _, _ => true end.

(* the inherited datatype properties are set on datatype object d itself (no property, no write) *)
Definition write_dtprops (h : heap) (d : id) (M : mprops) : heap :=
  if has_dtprops M then set_dt h d (apply_dtprops (getd (snd h) d) M) else h.

(* Parameter.merge, in place on object w: a given datatype is copied (fresh object), the datatype properties are
   set on the current datatype object of w *)
Definition merge_cell (h : heap) (w : id) (M : mprops) : heap :=
  let p := pv (getp (fst h) w) in
  match m_dt M with
  | Some d =>
      let nd := apply_dtprops (getd (snd h) d) M in
      let '(h1, i) := alloc_dt h nd in
      set_pv h1 w (merged_pv p M (Some i) nd)
  | None =>
      match v_dt p with
      | Some d0 =>
          let nd := apply_dtprops (getd (snd h) d0) M in
          set_pv (write_dtprops h d0 M) w (merged_pv p M (Some d0) nd)
      | None => set_pv h w (merged_pv p M None dt0)
      end
  end.

(* Parameter.create_from_value / clone for a bare value: a new object; the inherited datatype properties are set on
   the inherited datatype object itself before it is copied, and it is copied only if the overridden object has
   a datatype of its own *)
Definition clone_cell (h : heap) (w : id) (M : mprops) (z : Z) : heap * id :=
  let h1 := match m_dt M with Some d => write_dtprops h d M | None => h end in
  let '(h2, dtid) := match v_dt (pv (getp (fst h) w)) with
                     | Some _ => let '(h', i) := alloc_dt h1 (rd_dt (snd h1) (m_dt M)) in (h', Some i)
                     | None => (h1, m_dt M)
                     end in
  let d := rd_dt (snd h2) dtid in
  alloc_p h2 {| pv := {| v_desc := m_desc M; v_group := m_group M; v_value := revalidate (Some z) d; v_dt := dtid |};
                own := {| m_desc := None; m_group := None; m_value := Some (Some z); m_dt := None;
                          m_min := None; m_max := None; m_unit := None |} |}.

(* second loop of __init_subclass__ for one name.  Result: heap, accessibles so far, own __dict__ *)
Record dres := { r_heap : heap; r_acc : list (name * id); r_dict : list (name * dentry);
                 r_wp : list id;     (* ghost: Parameter objects written in place *)
                 r_wd : list id }.   (* ghost: datatype objects written in place *)

Fixpoint set_assoc {A} (k : nat) (v : A) (l : list (nat * A)) : list (nat * A) :=
  match l with
  | [] => []
  | (k', x) :: r => if Nat.eqb k k' then (k, v) :: r else (k', x) :: set_assoc k v r
  end.

(* setattr(cls, name, obj): replaces the entry of the class body or adds one (the bare value may come from a base) *)
Fixpoint put_assoc {A} (k : nat) (v : A) (l : list (nat * A)) : list (nat * A) :=
  match l with
  | [] => [(k, v)]
  | (k', x) :: r => if Nat.eqb k k' then (k, v) :: r else (k', x) :: put_assoc k v r
  end.

Definition resolve_name (cs : list cls) (mro : list nat) (r : dres) (k : name) : dres :=
  let w := walk (fst (r_heap r)) cs mro k in
  match w_acc w with
  | None => r
  | Some wid =>
      match w_ov w with
      | Some None => r
      | Some (Some z) =>
          let '(h', n) := clone_cell (r_heap r) wid (w_M w) z in
          {| r_heap := h'; r_acc := r_acc r ++ [(k, n)]; r_dict := put_assoc k (DParam n) (r_dict r);
             r_wp := r_wp r;
             r_wd := match m_dt (w_M w) with
                     | Some d => if has_dtprops (w_M w) then d :: r_wd r else r_wd r
                     | None => r_wd r end |}
      | None =>
          {| r_heap := merge_cell (r_heap r) wid (w_M w); r_acc := r_acc r ++ [(k, wid)]; r_dict := r_dict r;
             r_wp := wid :: r_wp r;
             r_wd := match m_dt (w_M w), v_dt (pv (getp (fst (r_heap r)) wid)) with
                     | None, Some d0 => if has_dtprops (w_M w) then d0 :: r_wd r else r_wd r
                     | _, _ => r_wd r end |}
      end
  end.

Definition all_names : list name := [0; 1; 2; 3].

Definition define_core (s : state) (d : cdef) : dres :=
  let '(h1, dict1) := fold_left new_entry (d_dict d) ((params s, dts s), []) in
  let r0 := {| r_heap := h1; r_acc := []; r_dict := dict1; r_wp := []; r_wd := [] |} in
  if d_module d then
    let cs := classes s ++ [{| c_module := true; c_mro := d_mro d; c_dict := dict1; c_acc := [] |}] in
    fold_left (resolve_name cs (d_mro d)) all_names r0
  else r0.

Definition define (s : state) (d : cdef) : state :=
  let r := define_core s d in
  {| params := fst (r_heap r); dts := snd (r_heap r);
     classes := classes s ++ [{| c_module := d_module d; c_mro := d_mro d; c_dict := r_dict r; c_acc := r_acc r |}];
     insts := insts s |}.

(* the already existing objects a definition writes to: (Parameter objects, datatype objects) *)
Definition footprint (s : state) (d : cdef) : list id * list id :=
  (r_wp (define_core s d), r_wd (define_core s d)).

(* ---------- descriptions *)
Definition read (ps : list pcell) (ds : list dt) (i : id) : acc_desc :=
  let p := pv (getp ps i) in
  {| a_desc := v_desc p; a_group := v_group p; a_value := v_value p; a_dt := rd_dt ds (v_dt p) |}.

Definition describe_class (s : state) (c : cls) : list (name * acc_desc) :=
  map (fun ki => (fst ki, read (params s) (dts s) (snd ki))) (c_acc c).

(* ---------- Module.__init__: copies, configuration on the copy, checks *)
Definition cfg := list (name * list (nat * Z)).

(* one configured property on the copy; false = the configuration is rejected *)
Definition cfg_step (ab : acc_desc * bool) (kv : nat * Z) : acc_desc * bool :=
  let '(a, ok) := ab in
  if negb ok then ab else
  let '(k, v) := kv in
  match k with
  | 0 => ({| a_desc := Some v; a_group := a_group a; a_value := a_value a; a_dt := a_dt a |}, true)
  | 1 => ({| a_desc := a_desc a; a_group := Some v; a_value := a_value a; a_dt := a_dt a |}, true)
  | 2 => if accepts (a_dt a) v
         then ({| a_desc := a_desc a; a_group := a_group a; a_value := Some v; a_dt := a_dt a |}, true)
         else (a, false)
  | _ => match dkind (a_dt a) with
         | 2 => (a, false)
         | _ => ({| a_desc := a_desc a; a_group := a_group a; a_value := a_value a; a_dt := dt_set (a_dt a) k v |}, true)
         end
  end.

Definition dt_consistent (d : dt) : bool :=
  match dkind d, dmin d, dmax d with
  | 1, Some lo, Some hi => Z.leb lo hi
  | _, _, _ => true
  end.

(* one accessible of the new instance: (description, acceptable) *)
Definition inst_acc (ps : list pcell) (ds : list dt) (c : cfg) (ki : name * id) : (name * acc_desc) * bool :=
  let '(k, i) := ki in
  let a0 := read ps ds i in
  let a1 := {| a_desc := a_desc a0; a_group := a_group a0; a_value := revalidate (a_value a0) (a_dt a0); a_dt := a_dt a0 |} in
  let '(a2, ok) := fold_left cfg_step (match lookup k c with Some l => l | None => [] end) (a1, true) in
  let a3 := {| a_desc := a_desc a2; a_group := a_group a2; a_value := revalidate (a_value a2) (a_dt a2); a_dt := a_dt a2 |} in
  let has_dt := match v_dt (pv (getp ps i)) with Some _ => true | None => false end in
  let has_desc := match a_desc a3 with Some _ => true | None => false end in
  (* the copy is rebuilt from the exported description: an inconsistent class level datatype cannot be copied *)
  ((k, a3), ok && has_dt && has_desc && dt_consistent (a_dt a0) && dt_consistent (a_dt a3)).

Definition new_inst (s : state) (ci : nat) (c : cfg) : inst :=
  let k := nth ci (classes s) cls0 in
  let res := map (inst_acc (params s) (dts s) c) (c_acc k) in
  let known := forallb (fun nc => match lookup (fst nc) (c_acc k) with Some _ => true | None => false end) c in
  if c_module k && Nat.ltb ci (length (classes s)) && known && forallb snd res
  then {| i_alive := true; i_acc := map fst res |}
  else {| i_alive := false; i_acc := [] |}.

Definition instantiate (s : state) (ci : nat) (c : cfg) : state :=
  {| params := params s; dts := dts s; classes := classes s; insts := insts s ++ [new_inst s ci c] |}.

(* ---------- run-time mutations of one instance *)
Definition acc_setprop (a : acc_desc) (key : nat) (v : Z) : acc_desc :=
  match key with
  | 0 => {| a_desc := Some v; a_group := a_group a; a_value := a_value a; a_dt := a_dt a |}
  | 1 => {| a_desc := a_desc a; a_group := Some v; a_value := a_value a; a_dt := a_dt a |}
  | 2 => a
  | _ => {| a_desc := a_desc a; a_group := a_group a; a_value := a_value a; a_dt := dt_set (a_dt a) key v |}
  end.

Definition next_code (mem : list (Z * Z)) : Z :=
  match map snd mem with [] => 1%Z | v :: r => (fold_left Z.max r v + 1)%Z end.

(* HasControlledBy.register_input: a new EnumType object with one more member replaces the datatype of the instance *)
Definition acc_grow (a : acc_desc) (m : Z) : acc_desc :=
  match dkind (a_dt a) with
  | 2 => {| a_desc := a_desc a; a_group := a_group a; a_value := a_value a;
            a_dt := mkdt 2 None None 0 (dmem (a_dt a) ++ [(m, next_code (dmem (a_dt a)))]) |}
  | _ => a
  end.

Definition upd_inst_acc (f : acc_desc -> acc_desc) (k : name) (i : inst) : inst :=
  match lookup k (i_acc i) with
  | Some a => {| i_alive := i_alive i; i_acc := set_assoc k (f a) (i_acc i) |}
  | None => i
  end.

Definition upd_inst (s : state) (n : nat) (f : inst -> inst) : state :=
  {| params := params s; dts := dts s; classes := classes s;
     insts := if Nat.ltb n (length (insts s)) then set_nth (insts s) n (f (nth n (insts s) {| i_alive := false; i_acc := [] |}))
              else insts s |}.

Definition enum_name : name := 3.

Inductive op :=
| ODefine (d : cdef)
| OInst (ci : nat) (c : cfg)
| OSetProp (i : nat) (k : name) (key : nat) (v : Z)
| OGrow (i : nat) (m : Z).

Definition step (s : state) (o : op) : state :=
  match o with
  | ODefine d => define s d
  | OInst ci c => instantiate s ci c
  | OSetProp i k key v => upd_inst s i (upd_inst_acc (fun a => acc_setprop a key v) k)
  | OGrow i m => upd_inst s i (upd_inst_acc (fun a => acc_grow a m) enum_name)
  end.

Definition run (ops : list op) : state := fold_left step ops state0.
