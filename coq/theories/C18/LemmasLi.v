(* C18 - limit parameters: an accepted write lies inside the limits in force; inverted pairs are refused *)
From Coq Require Import List Arith ZArith Bool Lia.
Import ListNotations.
Require Import FV.C18.Model.
Import Li.
Local Open Scope Z_scope.

(* inside every limit parameter the module has (the full property) *)
Definition within_all (L : layout) (s : state) (v : Z) : Prop :=
  l_lo L <= v <= l_hi L /\
  (l_lim L = true -> fst (vlim s) <= v <= snd (vlim s)) /\
  (l_min L = true -> vmin s <= v) /\
  (l_max L = true -> v <= vmax s).

Lemma check_limits_sound : forall L s v, check_limits L s v = true ->
  (l_lim L = true -> fst (vlim s) <= v <= snd (vlim s)) /\
  (l_min L = true -> vmin s <= v) /\ (l_max L = true -> v <= vmax s) /\
  (l_min L = true -> l_max L = true -> vmin s <= vmax s).
Proof.
  intros L s v H. unfold check_limits in H. apply andb_prop in H. destruct H as (Hl & H). split.
  - intros El. rewrite El in Hl. apply andb_prop in Hl. destruct Hl as (H1 & H2). apply Z.leb_le in H1, H2. lia.
  - clear Hl. destruct (l_min L) eqn:Em, (l_max L) eqn:Ex; simpl in H.
    + destruct (vmax s <? vmin s) eqn:E; [discriminate|]. apply Z.ltb_ge in E.
      apply andb_prop in H. destruct H as (H1 & H2). apply negb_true_iff in H1, H2.
      apply Z.ltb_ge in H1, H2. repeat split; intros; lia.
    + apply andb_prop in H. destruct H as (H1 & _). apply negb_true_iff, Z.ltb_ge in H1.
      repeat split; intros; try discriminate; lia.
    + apply negb_true_iff, Z.ltb_ge in H. repeat split; intros; try discriminate; lia.
    + repeat split; intros; discriminate.
Qed.

Lemma write_accepted_within_all : forall L s v s' r, step L s (WriteA v) = (s', ROk r) ->
  within_all L s v /\ va s' = v /\ r = [v].
Proof.
  intros L s v s' r H. simpl in H.
  destruct (in_base L v) eqn:Eb; simpl in H; [|discriminate].
  destruct (check_limits L s v) eqn:Ec; [|discriminate].
  injection H as <- <-. unfold in_base in Eb. apply andb_prop in Eb. destruct Eb as (B1 & B2).
  apply Z.leb_le in B1, B2. destruct (check_limits_sound L s v Ec) as (H1 & H2 & H3 & _).
  split; [|split; reflexivity]. unfold within_all. split; [lia|]. split; [exact H1|]. split; [exact H2|exact H3].
Qed.

Lemma write_refused_unchanged : forall L s v s' c, step L s (WriteA v) = (s', RErr c) -> s' = s /\ c = 1%nat.
Proof.
  intros L s v s' c H. simpl in H. destruct (in_base L v && check_limits L s v); [discriminate|].
  injection H as <- <-. auto.
Qed.

(* an inverted pair in force - the limits tuple or a_min > a_max, whatever else exists - refuses every write *)
Definition inverted_in_force (L : layout) (s : state) : Prop :=
  (l_lim L = true /\ snd (vlim s) < fst (vlim s)) \/ (l_min L = true /\ l_max L = true /\ vmax s < vmin s).

Lemma inverted_refuses_all : forall L s v, inverted_in_force L s -> step L s (WriteA v) = (s, RErr 1).
Proof.
  intros L s v H. simpl. destruct (in_base L v && check_limits L s v) eqn:E; auto.
  apply andb_prop in E. destruct E as (_ & Ec). destruct (check_limits_sound L s v Ec) as (H1 & _ & _ & Ho).
  destruct H as [(Hl & Hlt) | (Hm & Hx & Hlt)].
  - specialize (H1 Hl). lia.
  - specialize (Ho Hm Hx). lia.
Qed.

(* LimitsType parameter: an inverted pair is refused by a write, and the parameter never holds one *)
Lemma rng_inverted_refused : forall L s lo hi, hi < lo -> step L s (WriteRng lo hi) = (s, RErr 1).
Proof.
  intros L s lo hi H. simpl. apply Z.ltb_lt in H. rewrite H. simpl. rewrite andb_false_r. reflexivity.
Qed.

Definition rng_ordered (s : state) : Prop := fst (vrng s) <= snd (vrng s).

Lemma step_rng_ordered : forall L s o, rng_ordered s -> rng_ordered (fst (step L s o)).
Proof.
  intros L s o H. destruct o; simpl;
    repeat match goal with |- context [if ?c then _ else _] => destruct c eqn:? end; simpl; auto.
  unfold rng_ordered; simpl.
  repeat match goal with H : _ && _ = true |- _ => apply andb_prop in H; destruct H end.
  match goal with H : negb _ = true |- _ => apply negb_true_iff, Z.ltb_ge in H; lia end.
Qed.

Lemma run_rng_ordered : forall L ops, rng_ordered (run L ops).
Proof.
  intros L ops. unfold run. assert (H : rng_ordered (init L)) by (unfold rng_ordered; simpl; lia).
  revert H. generalize (init L). induction ops as [|o ops IH]; intros s H; simpl; auto.
  apply IH. now apply step_rng_ordered.
Qed.

(* limit parameters written through write_ stay inside the base range (assignments by the driver are not checked) *)
Definition is_set (o : op) : bool :=
  match o with SetMin _ | SetMax _ | SetLim _ _ => true | _ => false end.

Definition limits_in_base (L : layout) (s : state) : Prop :=
  l_lo L <= vmin s <= l_hi L /\ l_lo L <= vmax s <= l_hi L /\
  l_lo L <= fst (vlim s) <= l_hi L /\ l_lo L <= snd (vlim s) <= l_hi L /\ l_lo L <= va s <= l_hi L.

Lemma step_limits_in_base : forall L s o, is_set o = false -> limits_in_base L s -> limits_in_base L (fst (step L s o)).
Proof.
  intros L s o Hn H. unfold limits_in_base in *. destruct o; simpl in *; try discriminate;
    repeat match goal with |- context [if ?c then _ else _] => destruct c eqn:? end; simpl; auto;
    unfold in_base in *;
    repeat match goal with H : _ && _ = true |- _ => apply andb_prop in H; destruct H end;
    repeat match goal with H : (_ <=? _) = true |- _ => apply Z.leb_le in H end; simpl; lia.
Qed.

Lemma run_limits_in_base : forall L ops, l_lo L <= 0 <= l_hi L -> forallb (fun o => negb (is_set o)) ops = true ->
  limits_in_base L (run L ops).
Proof.
  intros L ops H0. unfold run.
  assert (H : limits_in_base L (init L)) by (unfold limits_in_base; simpl; lia).
  revert H. generalize (init L). induction ops as [|o ops IH]; intros s H Hn; simpl in *; auto.
  apply andb_prop in Hn. destruct Hn as (H1 & H2). apply IH; auto. apply step_limits_in_base; auto.
  now apply negb_true_iff.
Qed.
