(* C18 - limit parameters: an accepted write lies inside the limits in force; inverted pairs are refused *)
From Coq Require Import List Arith ZArith Bool Lia.
Import ListNotations.
Require Import FV.C18.Model.
Import Li.
Local Open Scope Z_scope.

(* inside every limit parameter the module has (the full property) *)
Definition within_all (L : layout) (s : state) (v : Z) : Prop :=
  l_lo L <= v <= l_hi L /\
  (l_lim L = true -> fst (vlim s) <= v <= snd (vlim s)) /\
  (l_min L = true -> vmin s <= v) /\
  (l_max L = true -> v <= vmax s).

Lemma check_limits_sound : forall L s v, check_limits L s v = true ->
  (l_lim L = true -> fst (vlim s) <= v <= snd (vlim s)) /\
  (l_min L = true -> vmin s <= v) /\ (l_max L = true -> v <= vmax s) /\
  (l_min L = true -> l_max L = true -> vmin s <= vmax s).
Proof.
  intros L s v H. unfold check_limits in H. apply andb_prop in H. destruct H as (Hl & H). split.
  - intros El. rewrite El in Hl. apply andb_prop in Hl. destruct Hl as (H1 & H2). apply Z.leb_le in H1, H2. lia.
  - clear Hl. destruct (l_min L) eqn:Em, (l_max L) eqn:Ex; simpl in H.
    + destruct (vmax s <? vmin s) eqn:E; [discriminate|]. apply Z.ltb_ge in E.
      apply andb_prop in H. destruct H as (H1 & H2). apply negb_true_iff in H1, H2.
      apply Z.ltb_ge in H1, H2. repeat split; intros; lia.
    + apply andb_prop in H. destruct H as (H1 & _). apply negb_true_iff, Z.ltb_ge in H1.
      repeat split; intros; try discriminate; lia.
    + apply negb_true_iff, Z.ltb_ge in H. repeat split; intros; try discriminate; lia.
    + repeat split; intros; discriminate.
Qed.

(* ---------------------------------------------------------------------------------------------------------------
   the check functions found by the write wrapper, for every class layout
   --------------------------------------------------------------------------------------------------------------- *)
Local Close Scope Z_scope.

(* layouts covered: the module class derives from Module (so its __init_subclass__ runs), a is one of its accessibles, and a
   class in which the programmer wrote a check_a WITHOUT a call of checkLimits does not define a limit parameter itself
   (a check_a written next to the limit parameter replaces the generated one by design: the programmer then has to call
   checkLimits himself, see the docstring of Module.checkLimits) *)
Definition cls_ok (c : cls) : bool := negb (Nat.eqb (c_user c) 1) || negb (c_min c || c_max c || c_lim c).
Definition layout_wf (L : layout) : Prop :=
  (exists c r, l_classes L = c :: r /\ c_acc c = true) /\ existsb c_param (l_classes L) = true /\
  forallb cls_ok (l_classes L) = true.

Definition has_limit (L : layout) : bool := l_lim L || l_min L || l_max L.

(* a check function that tests the limits *)
Definition calls_check_limits (c : check) : bool :=
  match c with CkAuto => true | CkUser 0 => false | CkUser 1 => false | CkUser _ => true end.

Lemma set_nth_length : forall A (l : list A) i v, length (set_nth i v l) = length l.
Proof. induction l; destruct i; simpl; intros; auto. Qed.

Lemma nth_set_nth_same : forall (l : list bool) i v, i < length l -> nth i (set_nth i v l) false = v.
Proof. induction l; destruct i; simpl; intros; try lia; auto. apply IHl. lia. Qed.

Lemma nth_set_nth_mono : forall (l : list bool) i j, nth j l false = true -> nth j (set_nth i true l) false = true.
Proof. induction l; destruct i, j; simpl; intros; auto. Qed.

Lemma last_def_spec : forall pf l k j, last_def pf l k = Some j ->
  k <= j < k + length l /\ defines pf (nth (j - k) l cls0) = true.
Proof.
  induction l as [|c r IH]; simpl; intros k j H; [discriminate|].
  destruct (last_def pf r (S k)) as [j'|] eqn:E.
  - injection H as <-. destruct (IH _ _ E) as (H1 & H2). split; [lia|].
    replace (j' - k) with (S (j' - S k)) by lia. exact H2.
  - destruct (defines pf c) eqn:Ed; [|discriminate]. injection H as <-. split; [lia|].
    rewrite Nat.sub_diag. exact Ed.
Qed.

Lemma last_def_exists : forall pf l k, existsb (defines pf) l = true -> exists j, last_def pf l k = Some j.
Proof.
  induction l as [|c r IH]; simpl; intros k H; [discriminate|].
  destruct (last_def pf r (S k)) as [j'|] eqn:E; [eauto|].
  destruct (defines pf c) eqn:Ed; [eauto|]. simpl in H. destruct (IH (S k) H) as (j & Hj). congruence.
Qed.

Lemma treat_postfix_length : forall cs k inst pf, length (treat_postfix cs k inst pf) = length inst.
Proof.
  intros. unfold treat_postfix. destruct (last_def pf (skipn k cs) k); auto.
  destruct (in_dict cs inst n); auto using set_nth_length.
Qed.

Lemma treat_postfix_mono : forall cs k inst pf j, in_dict cs inst j = true -> in_dict cs (treat_postfix cs k inst pf) j = true.
Proof.
  intros cs k inst pf j H. unfold treat_postfix. destruct (last_def pf (skipn k cs) k) as [j'|]; auto.
  destruct (in_dict cs inst j'); auto. unfold in_dict in *. apply orb_true_iff in H. apply orb_true_iff.
  destruct H as [H|H]; [left; exact H|right; now apply nth_set_nth_mono].
Qed.

(* after the body of the postfix loop the class that defines the limit first has a check_a in its __dict__ *)
Lemma treat_postfix_installs : forall cs inst pf j, length inst = length cs ->
  last_def pf cs 0 = Some j -> in_dict cs (treat_postfix cs 0 inst pf) j = true.
Proof.
  intros cs inst pf j Hl H. unfold treat_postfix. simpl. rewrite H.
  destruct (in_dict cs inst j) eqn:E; [exact E|]. unfold in_dict. apply orb_true_iff. right.
  apply nth_set_nth_same. destruct (last_def_spec _ _ _ _ H) as (H1 & _). lia.
Qed.

Lemma init_subclass_length : forall cs inst k, length (init_subclass cs inst k) = length inst.
Proof.
  intros. unfold init_subclass. destruct (c_acc (nth k cs cls0) && existsb c_param (skipn k cs)); auto.
  simpl. now rewrite !treat_postfix_length.
Qed.

Lemma fold_init_subclass_length : forall cs ks inst, length (fold_left (init_subclass cs) ks inst) = length inst.
Proof. induction ks; simpl; intros; auto. now rewrite IHks, init_subclass_length. Qed.

(* the module class is created last: its __init_subclass__ leaves a check_a in the __dict__ of the class that defines a
   limit parameter first, for each of the three kinds of limit parameters *)
Lemma install_length : forall cs, length (install cs) = length cs.
Proof. intros. unfold install. now rewrite fold_init_subclass_length, repeat_length. Qed.

Lemma install_in_dict : forall c r pf j, c_acc c = true -> existsb c_param (c :: r) = true ->
  last_def pf (c :: r) 0 = Some j -> in_dict (c :: r) (install (c :: r)) j = true.
Proof.
  intros c r pf j Ha Hp Hd. unfold install.
  change (length (c :: r)) with (S (length r)). change (seq 0 (S (length r))) with (0 :: seq 1 (length r)).
  change (rev (0 :: seq 1 (length r))) with (rev (seq 1 (length r)) ++ [0]).
  rewrite fold_left_app.
  set (inst' := fold_left (init_subclass (c :: r)) (rev (seq 1 (length r))) (repeat false (S (length r)))).
  assert (Hl : length inst' = length (c :: r)).
  { unfold inst'. rewrite fold_init_subclass_length, repeat_length. reflexivity. }
  change (fold_left (init_subclass (c :: r)) [0] inst') with (init_subclass (c :: r) inst' 0).
  unfold init_subclass. change (nth 0 (c :: r) cls0) with c. change (skipn 0 (c :: r)) with (c :: r).
  rewrite Ha, Hp.
  change (fold_left (treat_postfix (c :: r) 0) [PLim; PMin; PMax] inst')
    with (treat_postfix (c :: r) 0 (treat_postfix (c :: r) 0 (treat_postfix (c :: r) 0 inst' PLim) PMin) PMax).
  destruct pf.
  - apply treat_postfix_mono, treat_postfix_mono. now apply treat_postfix_installs.
  - apply treat_postfix_mono. apply treat_postfix_installs; auto. now rewrite treat_postfix_length.
  - apply treat_postfix_installs; auto. now rewrite !treat_postfix_length.
Qed.

(* every covered layout with a limit parameter: the chain of check functions contains one that tests the limits *)
Lemma chain_tests_limits : forall L, layout_wf L -> has_limit L = true ->
  exists ck, In ck (chain (l_classes L)) /\ calls_check_limits ck = true.
Proof.
  intros L ((c & r & Hc & Ha) & Hp & Hok) Hh. rewrite Hc in *.
  assert (Hpf : exists pf, existsb (defines pf) (c :: r) = true).
  { unfold has_limit, l_lim, l_min, l_max in Hh. rewrite Hc in Hh.
    apply orb_true_iff in Hh. destruct Hh as [Hh|Hh]; [apply orb_true_iff in Hh; destruct Hh as [Hh|Hh]|].
    - exists PLim. exact Hh.
    - exists PMin. exact Hh.
    - exists PMax. exact Hh. }
  destruct Hpf as (pf & Hpf).
  destruct (last_def_exists pf (c :: r) 0 Hpf) as (j & Hj).
  pose proof (install_in_dict c r pf j Ha Hp Hj) as Hd.
  destruct (last_def_spec _ _ _ _ Hj) as (Hr & Hdef). rewrite Nat.sub_0_r in Hdef. simpl plus in Hr.
  assert (Hcj : cls_ok (nth j (c :: r) cls0) = true).
  { rewrite forallb_forall in Hok. apply Hok. apply nth_In. simpl. lia. }
  unfold chain.
  assert (Hin : In j (seq 0 (length (c :: r)))) by (apply in_seq; simpl; lia).
  unfold in_dict in Hd. unfold cls_ok in Hcj.
  destruct (c_user (nth j (c :: r) cls0)) as [|[|u]] eqn:Eu.
  - simpl in Hd. exists CkAuto. split; [|reflexivity].
    apply in_flat_map. exists j. split; [exact Hin|]. unfold chain_at. rewrite Eu, Hd. now left.
  - exfalso. simpl in Hcj. apply negb_true_iff in Hcj.
    destruct pf; simpl in Hdef; rewrite Hdef in Hcj; simpl in Hcj; try discriminate;
      rewrite ?orb_true_r in Hcj; discriminate.
  - exists (CkUser (S (S u))). split; [|reflexivity].
    apply in_flat_map. exists j. split; [exact Hin|]. unfold chain_at. rewrite Eu. now left.
Qed.

Local Open Scope Z_scope.

Lemma pass_tests_limits : forall L s v ck, calls_check_limits ck = true -> pass L s v ck = true -> check_limits L s v = true.
Proof.
  intros L s v ck Hc Hp. destruct ck as [|[|[|u]]]; simpl in *; try discriminate; auto.
  apply andb_prop in Hp. tauto.
Qed.

(* without limit parameters checkLimits lets everything pass *)
Lemma check_limits_no_limit : forall L s v, has_limit L = false -> check_limits L s v = true.
Proof.
  intros L s v H. unfold has_limit in H. apply orb_false_iff in H. destruct H as (H & H3).
  apply orb_false_iff in H. destruct H as (H1 & H2). unfold check_limits. rewrite H1, H2, H3. reflexivity.
Qed.

(* the write wrapper of a covered layout lets a value pass only if checkLimits accepts it *)
Lemma run_checks_sound : forall L s v, layout_wf L -> run_checks L s v = true -> check_limits L s v = true.
Proof.
  intros L s v Hwf H. destruct (has_limit L) eqn:Eh.
  - destruct (chain_tests_limits L Hwf Eh) as (ck & Hin & Hc).
    unfold run_checks in H. rewrite forallb_forall in H. exact (pass_tests_limits L s v ck Hc (H ck Hin)).
  - now apply check_limits_no_limit.
Qed.

(* ... and the verdict does not depend on the class layout at all: the checks pass exactly when checkLimits accepts the value
   and - if the programmer wrote a check_a anywhere in the hierarchy - his plausibility test accepts it *)
Definition any_user (L : layout) : bool := existsb (fun c => negb (Nat.eqb (c_user c) 0)) (l_classes L).

Lemma chain_user_origin : forall cs k, In (CkUser k) (chain cs) ->
  k <> 0%nat /\ existsb (fun c => negb (Nat.eqb (c_user c) 0)) cs = true.
Proof.
  intros cs k H. unfold chain in H. apply in_flat_map in H. destruct H as (j & Hj & H).
  apply in_seq in Hj. unfold chain_at in H. destruct (c_user (nth j cs cls0)) eqn:Eu.
  - destruct (nth j (install cs) false); simpl in H; [destruct H as [H|[]]; discriminate|destruct H].
  - destruct H as [H|[]]. injection H as <-. split; [discriminate|].
    apply existsb_exists. exists (nth j cs cls0). split; [apply nth_In; lia|]. now rewrite Eu.
Qed.

Lemma chain_user_present : forall cs, existsb (fun c => negb (Nat.eqb (c_user c) 0)) cs = true ->
  exists k, In (CkUser (S k)) (chain cs).
Proof.
  intros cs H. apply existsb_exists in H. destruct H as (c & Hin & Hu).
  destruct (In_nth cs c cls0 Hin) as (j & Hj & Hn).
  destruct (c_user c) as [|k] eqn:Eu; [discriminate|]. exists k.
  unfold chain. apply in_flat_map. exists j. split; [apply in_seq; lia|].
  unfold chain_at. rewrite Hn, Eu. now left.
Qed.

Lemma run_checks_exact : forall L s v, layout_wf L ->
  (run_checks L s v = true <-> check_limits L s v = true /\ (any_user L = true -> plausible v = true)).
Proof.
  intros L s v Hwf. split.
  - intros H. split; [now apply run_checks_sound|]. intros Hu.
    destruct (chain_user_present _ Hu) as (k & Hin).
    unfold run_checks in H. rewrite forallb_forall in H. specialize (H _ Hin).
    destruct k; simpl in H; auto. apply andb_prop in H. tauto.
  - intros (Hc & Hu). unfold run_checks. apply forallb_forall. intros ck Hin.
    destruct ck as [|k]; [exact Hc|].
    destruct (chain_user_origin _ _ Hin) as (Hk & Ha). specialize (Hu Ha).
    destruct k as [|[|k]]; simpl; auto. now rewrite Hu, Hc.
Qed.

Lemma write_accepted_within_all : forall L s v s' r, layout_wf L -> step L s (WriteA v) = (s', ROk r) ->
  within_all L s v /\ va s' = v /\ r = [v].
Proof.
  intros L s v s' r Hwf H. simpl in H.
  destruct (in_base L v) eqn:Eb; simpl in H; [|discriminate].
  destruct (run_checks L s v) eqn:Er; [|discriminate].
  pose proof (run_checks_sound L s v Hwf Er) as Ec.
  injection H as <- <-. unfold in_base in Eb. apply andb_prop in Eb. destruct Eb as (B1 & B2).
  apply Z.leb_le in B1, B2. destruct (check_limits_sound L s v Ec) as (H1 & H2 & H3 & _).
  split; [|split; reflexivity]. unfold within_all. split; [lia|]. split; [exact H1|]. split; [exact H2|exact H3].
Qed.

Lemma write_refused_unchanged : forall L s v s' c, step L s (WriteA v) = (s', RErr c) -> s' = s /\ c = 1%nat.
Proof.
  intros L s v s' c H. simpl in H. destruct (in_base L v && run_checks L s v); [discriminate|].
  injection H as <- <-. auto.
Qed.

Lemma write_verdict_layout_independent : forall L s v, layout_wf L ->
  ((exists s', step L s (WriteA v) = (s', ROk [v])) <->
   in_base L v = true /\ check_limits L s v = true /\ (any_user L = true -> plausible v = true)).
Proof.
  intros L s v Hwf. pose proof (run_checks_exact L s v Hwf) as Hx. simpl. split.
  - intros (s' & H). destruct (in_base L v); simpl in H; [|discriminate].
    destruct (run_checks L s v); [|discriminate]. split; [reflexivity|]. now apply Hx.
  - intros (Hb & Hc & Hu). rewrite Hb. simpl. destruct Hx as (_ & Hx). rewrite (Hx (conj Hc Hu)). eauto.
Qed.

(* an inverted pair in force - the limits tuple or a_min > a_max, whatever else exists - refuses every write *)
Definition inverted_in_force (L : layout) (s : state) : Prop :=
  (l_lim L = true /\ snd (vlim s) < fst (vlim s)) \/ (l_min L = true /\ l_max L = true /\ vmax s < vmin s).

Lemma inverted_refuses_all : forall L s v, layout_wf L -> inverted_in_force L s -> step L s (WriteA v) = (s, RErr 1).
Proof.
  intros L s v Hwf H. simpl. destruct (in_base L v && run_checks L s v) eqn:E; auto.
  apply andb_prop in E. destruct E as (_ & Er). pose proof (run_checks_sound L s v Hwf Er) as Ec. destruct (check_limits_sound L s v Ec) as (H1 & _ & _ & Ho).
  destruct H as [(Hl & Hlt) | (Hm & Hx & Hlt)].
  - specialize (H1 Hl). lia.
  - specialize (Ho Hm Hx). lia.
Qed.

(* LimitsType parameter: an inverted pair is refused by a write, and the parameter never holds one *)
Lemma rng_inverted_refused : forall L s lo hi, hi < lo -> step L s (WriteRng lo hi) = (s, RErr 1).
Proof.
  intros L s lo hi H. simpl. apply Z.ltb_lt in H. rewrite H. simpl. rewrite andb_false_r. reflexivity.
Qed.

Definition rng_ordered (s : state) : Prop := fst (vrng s) <= snd (vrng s).

Lemma step_rng_ordered : forall L s o, rng_ordered s -> rng_ordered (fst (step L s o)).
Proof.
  intros L s o H. destruct o; simpl;
    repeat match goal with |- context [if ?c then _ else _] => destruct c eqn:? end; simpl; auto.
  unfold rng_ordered; simpl.
  repeat match goal with H : _ && _ = true |- _ => apply andb_prop in H; destruct H end.
  match goal with H : negb _ = true |- _ => apply negb_true_iff, Z.ltb_ge in H; lia end.
Qed.

Lemma run_rng_ordered : forall L ops, rng_ordered (run L ops).
Proof.
  intros L ops. unfold run. assert (H : rng_ordered (init L)) by (unfold rng_ordered; simpl; lia).
  revert H. generalize (init L). induction ops as [|o ops IH]; intros s H; simpl; auto.
  apply IH. now apply step_rng_ordered.
Qed.

(* limit parameters written through write_ stay inside the base range (assignments by the driver are not checked) *)
Definition is_set (o : op) : bool :=
  match o with SetMin _ | SetMax _ | SetLim _ _ => true | _ => false end.

Definition limits_in_base (L : layout) (s : state) : Prop :=
  l_lo L <= vmin s <= l_hi L /\ l_lo L <= vmax s <= l_hi L /\
  l_lo L <= fst (vlim s) <= l_hi L /\ l_lo L <= snd (vlim s) <= l_hi L /\ l_lo L <= va s <= l_hi L.

Lemma step_limits_in_base : forall L s o, is_set o = false -> limits_in_base L s -> limits_in_base L (fst (step L s o)).
Proof.
  intros L s o Hn H. unfold limits_in_base in *. destruct o; simpl in *; try discriminate;
    repeat match goal with |- context [if ?c then _ else _] => destruct c eqn:? end; simpl; auto;
    unfold in_base in *;
    repeat match goal with H : _ && _ = true |- _ => apply andb_prop in H; destruct H end;
    repeat match goal with H : (_ <=? _) = true |- _ => apply Z.leb_le in H end; simpl; lia.
Qed.

Lemma run_limits_in_base : forall L ops, l_lo L <= 0 <= l_hi L -> forallb (fun o => negb (is_set o)) ops = true ->
  limits_in_base L (run L ops).
Proof.
  intros L ops H0. unfold run.
  assert (H : limits_in_base L (init L)) by (unfold limits_in_base; simpl; lia).
  revert H. generalize (init L). induction ops as [|o ops IH]; intros s H Hn; simpl in *; auto.
  apply andb_prop in Hn. destruct Hn as (H1 & H2). apply IH; auto. apply step_limits_in_base; auto.
  now apply negb_true_iff.
Qed.
