(* C18 - float parameter bound to an enumerated index: the cached value is the value of the index; a write selects
   the closest table entry *)
From Coq Require Import List Arith ZArith Bool Lia.
Import ListNotations.
Require Import FV.C18.Model.
Import Fe.
Local Open Scope Z_scope.

(* the value clients are given (cache, update stream) is the value of the current index *)
Definition consistent (L : layout) (s : state) : Prop := cf s = shown L s.

Definition is_setf (o : op) : bool := match o with SetF _ => true | _ => false end.

(* the scripted write_<idx> of the fake driver accepts the request (takes it over or coerces it) *)
Definition drv_ok (L : layout) (s : state) (k : Z) : bool :=
  match drv_write L k s with Some _ => true | None => false end.

(* operations after which the cache is right whatever it was before *)
Definition establishes (L : layout) (s : state) (o : op) : bool :=
  match o with
  | SetI _ => true
  | WriteI k => drv_ok L s k
  | ReadI => f_ri L
  | WriteF v => negb ((v <? vmin (vdict L)) || (vmax (vdict L) <? v)) && drv_ok L s (closest v (vdict L))
  | _ => false
  end.

Lemma shown_ci : forall L s s', ci s = ci s' -> shown L s = shown L s'.
Proof. intros L s s' H. unfold shown. now rewrite H. Qed.

Lemma ann_idx_consistent : forall L k s, consistent L (ann_idx L k s).
Proof. intros. unfold consistent, ann_idx, shown. simpl. reflexivity. Qed.

Lemma ann_float_shown_consistent : forall L s, consistent L (ann_float (shown L s) s).
Proof. intros. unfold consistent, ann_float, shown. simpl. reflexivity. Qed.

(* wrapped write_<idx>: either the user method raised and NOTHING changed, or the index it really set (k') was announced:
   index k', cache = table value of k', both updates in the stream *)
Lemma write_idx_spec : forall L k s,
  match write_idx L k s with
  | (s1, None) => s1 = s /\ drv_ok L s k = false
  | (s1, Some k') => drv_ok L s k = true /\ ci s1 = k' /\ consistent L s1 /\
                     evs s1 = (1%nat, [k']) :: (0%nat, [shown L s1]) :: evs s /\ scr s1 = scr s
  end.
Proof.
  intros L k s. unfold write_idx, drv_ok. destruct (drv_write L k s) as [(s0, k')|] eqn:E.
  - split; [reflexivity|]. split; [reflexivity|]. split; [apply ann_idx_consistent|].
    assert (Hs : evs s0 = evs s /\ scr s0 = scr s).
    { unfold drv_write in E. destruct (f_wi L) as [|[|[|n]]]; try (injection E as <- _; auto).
      destruct (slookup k (scr s)) as [[k2|]|]; try discriminate; injection E as <- _; auto. }
    destruct Hs as (He & Hc). unfold ann_idx, shown. simpl. now rewrite He, Hc.
  - split; reflexivity.
Qed.

(* a driver that takes the request over (no write_<idx>, the plain kinds, or no script entry for k) sets exactly k *)
Definition takes_over (L : layout) (s : state) (k : Z) : bool :=
  match f_wi L with
  | 0%nat | 1%nat | 2%nat => true
  | _ => match slookup k (scr s) with None => true | Some _ => false end
  end.

Lemma write_idx_takes_over : forall L k s, takes_over L s k = true ->
  exists s1, write_idx L k s = (s1, Some k) /\ ci s1 = k.
Proof.
  intros L k s H. unfold write_idx, drv_write. unfold takes_over in H.
  destruct (f_wi L) as [|[|[|n]]]; try (eexists; split; reflexivity).
  destruct (slookup k (scr s)); [discriminate|]. eexists; split; reflexivity.
Qed.

Lemma step_establishes : forall L s o, establishes L s o = true -> consistent L (fst (step L s o)).
Proof.
  intros L s o H. destruct o; simpl in *; try discriminate.
  - apply andb_prop in H. destruct H as (H1 & H2). apply negb_true_iff in H1. rewrite H1.
    pose proof (write_idx_spec L (closest v (vdict L)) s) as W.
    destruct (write_idx L (closest v (vdict L)) s) as (s1, [k'|]); simpl.
    + apply ann_float_shown_consistent.
    + destruct W as (_ & W). congruence.
  - pose proof (write_idx_spec L k s) as W. destruct (write_idx L k s) as (s1, [k'|]); simpl.
    + tauto.
    + destruct W as (_ & W). congruence.
  - rewrite H. simpl. apply ann_idx_consistent.
  - apply ann_idx_consistent.
Qed.

Lemma step_preserves : forall L s o, is_setf o = false -> consistent L s -> consistent L (fst (step L s o)).
Proof.
  intros L s o Hn HC. destruct o; simpl in *; try discriminate; auto.
  - destruct ((v <? vmin (vdict L)) || (vmax (vdict L) <? v)); simpl; auto.
    pose proof (write_idx_spec L (closest v (vdict L)) s) as W.
    destruct (write_idx L (closest v (vdict L)) s) as (s1, [k'|]); simpl.
    + apply ann_float_shown_consistent.
    + destruct W as (-> & _). exact HC.
  - pose proof (write_idx_spec L k s) as W. destruct (write_idx L k s) as (s1, [k'|]); simpl.
    + tauto.
    + destruct W as (-> & _). exact HC.
  - destruct (f_ri L); simpl; auto. apply ann_idx_consistent.
  - apply ann_idx_consistent.
Qed.

Lemma fold_preserves : forall L ops s, forallb (fun o => negb (is_setf o)) ops = true -> consistent L s ->
  consistent L (fold_left (fun s o => fst (step L s o)) ops s).
Proof.
  induction ops as [|o ops IH]; intros s Hn HC; simpl in *; auto.
  apply andb_prop in Hn. destruct Hn as (H1 & H2). apply IH; auto. apply step_preserves; auto.
  now apply negb_true_iff.
Qed.

(* histories without assignment to the float parameter: consistent from a consistent start *)
Lemma value_from_init : forall L ops, consistent L (init L) -> forallb (fun o => negb (is_setf o)) ops = true ->
  consistent L (run L ops).
Proof. intros. unfold run. now apply fold_preserves. Qed.

(* ... and from any start as soon as the index has been announced once *)
Lemma value_after_index_update : forall L pre o post,
  establishes L (run L pre) o = true -> forallb (fun o => negb (is_setf o)) post = true ->
  consistent L (run L (pre ++ o :: post)).
Proof.
  intros L pre o post He Hn. unfold run. rewrite fold_left_app. simpl.
  apply fold_preserves; auto. now apply step_establishes.
Qed.

(* the attribute seen by driver code is the table entry of the index by construction *)
Lemma shown_is_table_entry : forall L s x, vlookup (ci s) (vdict L) = Some x -> shown L s = x.
Proof. intros L s x H. unfold shown. now rewrite H. Qed.

(* --- closest value --- *)
Lemma closest_from_spec : forall d v bk bd,
  let k := closest_from v bk bd d in
  (k = bk /\ forall j y, In (j, y) d -> bd <= Z.abs (y - v)) \/
  (exists x, In (k, x) d /\ Z.abs (x - v) < bd /\ forall j y, In (j, y) d -> Z.abs (x - v) <= Z.abs (y - v)).
Proof.
  induction d as [|(k0, x0) d IH]; intros v bk bd; simpl.
  - left. split; auto. intros j y [].
  - destruct (Z.abs (x0 - v) <? bd) eqn:E.
    + apply Z.ltb_lt in E. destruct (IH v k0 (Z.abs (x0 - v))) as [(Hk & Hall) | (x & Hin & Hlt & Hall)].
      * right. exists x0. rewrite Hk. split; [now left|]. split; auto.
        intros j y [Hy | Hy]; [injection Hy as _ <-; lia | now apply Hall in Hy].
      * right. exists x. split; [now right|]. split; [lia|].
        intros j y [Hy | Hy]; [injection Hy as _ <-; lia | now apply Hall in Hy].
    + apply Z.ltb_ge in E. destruct (IH v bk bd) as [(Hk & Hall) | (x & Hin & Hlt & Hall)].
      * left. split; auto. intros j y [Hy | Hy]; [injection Hy as _ <-; lia | now apply Hall in Hy].
      * right. exists x. split; [now right|]. split; auto.
        intros j y [Hy | Hy]; [injection Hy as _ <-; lia | now apply Hall in Hy].
Qed.

Lemma closest_spec : forall d v, d <> [] ->
  exists x, In (closest v d, x) d /\ forall j y, In (j, y) d -> Z.abs (x - v) <= Z.abs (y - v).
Proof.
  intros [|(k0, x0) d] v Hne; [congruence|]. simpl.
  destruct (closest_from_spec d v k0 (Z.abs (x0 - v))) as [(Hk & Hall) | (x & Hin & Hlt & Hall)].
  - exists x0. rewrite Hk. split; [now left|].
    intros j y [Hy | Hy]; [injection Hy as _ <-; lia | now apply Hall in Hy].
  - exists x. split; [now right|].
    intros j y [Hy | Hy]; [injection Hy as _ <-; lia | now apply Hall in Hy].
Qed.

(* a client (or driver) write of the float parameter, from ANY state and with ANY write_<idx> script:
   - outside the table range: refused (RangeError), nothing changed;
   - the index REQUESTED from write_<idx> is closest v: its table value has minimal distance to v;
   - write_<idx> raised: HardwareError, nothing changed at all (so value and index still belong together if they did);
   - otherwise: the index is the one write_<idx> really set (k', equal to the requested one when the driver takes the
     request over), the cached value, the reply and the last update of the float parameter are the table value of THAT
     index, and the update stream got float, index, float - all three for k' *)
Lemma write_float_spec : forall L s v,
  let d := vdict L in
  let '(s', r) := step L s (WriteF v) in
  if (v <? vmin d) || (vmax d <? v)
  then s' = s /\ r = RErr 1
  else if drv_ok L s (closest v d)
       then consistent L s' /\ r = ROk [shown L s'] /\
            evs s' = (0%nat, [shown L s']) :: (1%nat, [ci s']) :: (0%nat, [shown L s']) :: evs s /\
            (takes_over L s (closest v d) = true -> ci s' = closest v d)
       else s' = s /\ r = RErr 3.
Proof.
  intros L s v. simpl. destruct ((v <? vmin (vdict L)) || (vmax (vdict L) <? v)); [split; reflexivity|].
  pose proof (write_idx_spec L (closest v (vdict L)) s) as W.
  pose proof (write_idx_takes_over L (closest v (vdict L)) s) as T.
  destruct (write_idx L (closest v (vdict L)) s) as (s1, [k'|]).
  - destruct W as (W0 & W1 & W2 & W3 & W4). rewrite W0.
    assert (Hsh : shown L (ann_float (shown L s1) s1) = shown L s1) by (apply shown_ci; reflexivity).
    split; [apply ann_float_shown_consistent|]. split; [now rewrite Hsh|]. split.
    + rewrite Hsh. unfold ann_float at 1 2. simpl. rewrite W3, W1. reflexivity.
    + intros Ht. destruct (T Ht) as (s2 & E & _). injection E as _ <-. simpl. exact W1.
  - destruct W as (-> & W). rewrite W. split; reflexivity.
Qed.

Lemma write_selects_closest : forall L v, vdict L <> [] ->
  exists x, In (closest v (vdict L), x) (vdict L) /\ forall j y, In (j, y) (vdict L) -> Z.abs (x - v) <= Z.abs (y - v).
Proof. intros L v Hne. now apply closest_spec. Qed.

(* whatever the history: after a write of the float parameter the value belongs to the index, provided it did before a
   FAILED write (a successful one repairs any state) *)
Lemma write_float_consistent : forall L s v,
  let '(s', r) := step L s (WriteF v) in
  match r with
  | ROk x => consistent L s' /\ x = [shown L s']
  | RErr c => s' = s /\ (c = 1 \/ c = 3)%nat
  end.
Proof.
  intros L s v. pose proof (write_float_spec L s v) as H. cbv zeta in H.
  destruct (step L s (WriteF v)) as (s', r).
  destruct ((v <? vmin (vdict L)) || (vmax (vdict L) <? v)).
  - destruct H as (-> & ->). auto.
  - destruct (drv_ok L s (closest v (vdict L))).
    + destruct H as (H1 & -> & _). auto.
    + destruct H as (-> & ->). auto.
Qed.

Lemma write_float_after_history : forall L pre o post v,
  establishes L (run L pre) o = true -> forallb (fun o => negb (is_setf o)) post = true ->
  consistent L (run L (pre ++ o :: post ++ [WriteF v])).
Proof.
  intros L pre o post v He Hn. apply value_after_index_update; auto.
  rewrite forallb_app, Hn. reflexivity.
Qed.

(* every table value lies inside [vmin, vmax]: exactly the table range is writable *)
Lemma fold_min_le : forall r a, fold_left (fun a p => Z.min a (snd p)) r a <= a /\
  forall j y, In (j, y) r -> fold_left (fun a (p : Z * Z) => Z.min a (snd p)) r a <= y.
Proof.
  induction r as [|(k, x) r IH]; intros a; simpl.
  - split; [lia|]. intros j y [].
  - destruct (IH (Z.min a x)) as (H1 & H2). split; [lia|].
    intros j y [Hy | Hy]; [injection Hy as _ <-; lia | now apply H2 in Hy].
Qed.

Lemma fold_max_ge : forall r a, a <= fold_left (fun a p => Z.max a (snd p)) r a /\
  forall j y, In (j, y) r -> y <= fold_left (fun a (p : Z * Z) => Z.max a (snd p)) r a.
Proof.
  induction r as [|(k, x) r IH]; intros a; simpl.
  - split; [lia|]. intros j y [].
  - destruct (IH (Z.max a x)) as (H1 & H2). split; [lia|].
    intros j y [Hy | Hy]; [injection Hy as _ <-; lia | now apply H2 in Hy].
Qed.

Lemma table_in_range : forall d j y, In (j, y) d -> vmin d <= y <= vmax d.
Proof.
  intros [|(k, x) r] j y H; [destruct H|]. simpl.
  destruct (fold_min_le r x) as (A1 & A2). destruct (fold_max_ge r x) as (B1 & B2).
  destruct H as [H | H]; [injection H as _ <-; lia|]. split; [eapply A2 | eapply B2]; eauto.
Qed.
