(* C18 - float parameter bound to an enumerated index: the cached value is the value of the index; a write selects
   the closest table entry *)
From Coq Require Import List Arith ZArith Bool Lia.
Import ListNotations.
Require Import FV.C18.Model.
Import Fe.
Local Open Scope Z_scope.

(* the value clients are given (cache, update stream) is the value of the current index *)
Definition consistent (L : layout) (s : state) : Prop := cf s = shown L s.

Definition is_setf (o : op) : bool := match o with SetF _ => true | _ => false end.

(* operations after which the cache is right whatever it was before *)
Definition establishes (L : layout) (s : state) (o : op) : bool :=
  match o with
  | WriteI _ | SetI _ => true
  | ReadI => f_ri L
  | WriteF v => negb ((v <? vmin (vdict L)) || (vmax (vdict L) <? v))
  | _ => false
  end.

Lemma shown_ci : forall L s s', ci s = ci s' -> shown L s = shown L s'.
Proof. intros L s s' H. unfold shown. now rewrite H. Qed.

Lemma ann_idx_consistent : forall L k s, consistent L (ann_idx L k s).
Proof. intros. unfold consistent, ann_idx, shown. simpl. reflexivity. Qed.

Lemma step_establishes : forall L s o, establishes L s o = true -> consistent L (fst (step L s o)).
Proof.
  intros L s o H. destruct o; simpl in *; try discriminate.
  - destruct ((v <? vmin (vdict L)) || (vmax (vdict L) <? v)); try discriminate. simpl.
    unfold consistent, ann_float, shown. simpl. reflexivity.
  - unfold write_idx. apply ann_idx_consistent.
  - rewrite H. simpl. apply ann_idx_consistent.
  - apply ann_idx_consistent.
Qed.

Lemma step_preserves : forall L s o, is_setf o = false -> consistent L s -> consistent L (fst (step L s o)).
Proof.
  intros L s o Hn HC. destruct o; simpl in *; try discriminate; auto.
  - destruct ((v <? vmin (vdict L)) || (vmax (vdict L) <? v)); simpl; auto.
    unfold consistent, ann_float, shown. simpl. reflexivity.
  - unfold write_idx. apply ann_idx_consistent.
  - destruct (f_ri L); simpl; auto. apply ann_idx_consistent.
  - apply ann_idx_consistent.
Qed.

Lemma fold_preserves : forall L ops s, forallb (fun o => negb (is_setf o)) ops = true -> consistent L s ->
  consistent L (fold_left (fun s o => fst (step L s o)) ops s).
Proof.
  induction ops as [|o ops IH]; intros s Hn HC; simpl in *; auto.
  apply andb_prop in Hn. destruct Hn as (H1 & H2). apply IH; auto. apply step_preserves; auto.
  now apply negb_true_iff.
Qed.

(* histories without assignment to the float parameter: consistent from a consistent start *)
Lemma value_from_init : forall L ops, consistent L (init L) -> forallb (fun o => negb (is_setf o)) ops = true ->
  consistent L (run L ops).
Proof. intros. unfold run. now apply fold_preserves. Qed.

(* ... and from any start as soon as the index has been announced once *)
Lemma value_after_index_update : forall L pre o post,
  establishes L (run L pre) o = true -> forallb (fun o => negb (is_setf o)) post = true ->
  consistent L (run L (pre ++ o :: post)).
Proof.
  intros L pre o post He Hn. unfold run. rewrite fold_left_app. simpl.
  apply fold_preserves; auto. now apply step_establishes.
Qed.

(* the attribute seen by driver code is the table entry of the index by construction *)
Lemma shown_is_table_entry : forall L s x, vlookup (ci s) (vdict L) = Some x -> shown L s = x.
Proof. intros L s x H. unfold shown. now rewrite H. Qed.

(* --- closest value --- *)
Lemma closest_from_spec : forall d v bk bd,
  let k := closest_from v bk bd d in
  (k = bk /\ forall j y, In (j, y) d -> bd <= Z.abs (y - v)) \/
  (exists x, In (k, x) d /\ Z.abs (x - v) < bd /\ forall j y, In (j, y) d -> Z.abs (x - v) <= Z.abs (y - v)).
Proof.
  induction d as [|(k0, x0) d IH]; intros v bk bd; simpl.
  - left. split; auto. intros j y [].
  - destruct (Z.abs (x0 - v) <? bd) eqn:E.
    + apply Z.ltb_lt in E. destruct (IH v k0 (Z.abs (x0 - v))) as [(Hk & Hall) | (x & Hin & Hlt & Hall)].
      * right. exists x0. rewrite Hk. split; [now left|]. split; auto.
        intros j y [Hy | Hy]; [injection Hy as _ <-; lia | now apply Hall in Hy].
      * right. exists x. split; [now right|]. split; [lia|].
        intros j y [Hy | Hy]; [injection Hy as _ <-; lia | now apply Hall in Hy].
    + apply Z.ltb_ge in E. destruct (IH v bk bd) as [(Hk & Hall) | (x & Hin & Hlt & Hall)].
      * left. split; auto. intros j y [Hy | Hy]; [injection Hy as _ <-; lia | now apply Hall in Hy].
      * right. exists x. split; [now right|]. split; auto.
        intros j y [Hy | Hy]; [injection Hy as _ <-; lia | now apply Hall in Hy].
Qed.

Lemma closest_spec : forall d v, d <> [] ->
  exists x, In (closest v d, x) d /\ forall j y, In (j, y) d -> Z.abs (x - v) <= Z.abs (y - v).
Proof.
  intros [|(k0, x0) d] v Hne; [congruence|]. simpl.
  destruct (closest_from_spec d v k0 (Z.abs (x0 - v))) as [(Hk & Hall) | (x & Hin & Hlt & Hall)].
  - exists x0. rewrite Hk. split; [now left|].
    intros j y [Hy | Hy]; [injection Hy as _ <-; lia | now apply Hall in Hy].
  - exists x. split; [now right|].
    intros j y [Hy | Hy]; [injection Hy as _ <-; lia | now apply Hall in Hy].
Qed.

Lemma write_selects_closest : forall L s v, vdict L <> [] ->
  let '(s', r) := step L s (WriteF v) in
  if (v <? vmin (vdict L)) || (vmax (vdict L) <? v)
  then s' = s /\ r = RErr 1
  else r = ROk [shown L s'] /\ cf s' = shown L s' /\
       exists x, In (ci s', x) (vdict L) /\ forall j y, In (j, y) (vdict L) -> Z.abs (x - v) <= Z.abs (y - v).
Proof.
  intros L s v Hne. simpl. destruct ((v <? vmin (vdict L)) || (vmax (vdict L) <? v)); auto.
  split; [reflexivity|]. split; [reflexivity|]. simpl. now apply closest_spec.
Qed.

(* every table value lies inside [vmin, vmax]: exactly the table range is writable *)
Lemma fold_min_le : forall r a, fold_left (fun a p => Z.min a (snd p)) r a <= a /\
  forall j y, In (j, y) r -> fold_left (fun a (p : Z * Z) => Z.min a (snd p)) r a <= y.
Proof.
  induction r as [|(k, x) r IH]; intros a; simpl.
  - split; [lia|]. intros j y [].
  - destruct (IH (Z.min a x)) as (H1 & H2). split; [lia|].
    intros j y [Hy | Hy]; [injection Hy as _ <-; lia | now apply H2 in Hy].
Qed.

Lemma fold_max_ge : forall r a, a <= fold_left (fun a p => Z.max a (snd p)) r a /\
  forall j y, In (j, y) r -> y <= fold_left (fun a (p : Z * Z) => Z.max a (snd p)) r a.
Proof.
  induction r as [|(k, x) r IH]; intros a; simpl.
  - split; [lia|]. intros j y [].
  - destruct (IH (Z.max a x)) as (H1 & H2). split; [lia|].
    intros j y [Hy | Hy]; [injection Hy as _ <-; lia | now apply H2 in Hy].
Qed.

Lemma table_in_range : forall d j y, In (j, y) d -> vmin d <= y <= vmax d.
Proof.
  intros [|(k, x) r] j y H; [destruct H|]. simpl.
  destruct (fold_min_le r x) as (A1 & A2). destruct (fold_max_ge r x) as (B1 & B2).
  destruct H as [H | H]; [injection H as _ <-; lia|]. split; [eapply A2 | eapply B2]; eauto.
Qed.
