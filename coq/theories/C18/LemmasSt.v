(* C18 - struct parameter and member parameters agree: invariant of St.step over all histories *)
From Coq Require Import List Arith ZArith Bool Lia.
Import ListNotations.
Require Import FV.C18.Model.
Import St.

Lemma set_nth_length : forall A (l : list A) i v, length (set_nth i v l) = length l.
Proof. induction l; destruct i; simpl; intros; auto. Qed.

Lemma set_nth_app : forall A (a b : list A) x v, set_nth (length a) v (a ++ x :: b) = a ++ v :: b.
Proof. induction a; simpl; intros; auto. now rewrite IHa. Qed.

Lemma set_nth_same : forall (l : list Z) i, set_nth i (nth i l 0%Z) l = l.
Proof. induction l; destruct i; simpl; auto. now rewrite IHl. Qed.

Lemma nth_app_len : forall (a b : list Z) x d, nth (length a) (a ++ x :: b) d = x.
Proof. induction a; simpl; auto. Qed.

(* --- the callback of the combined layout copies the whole struct value into the members --- *)
Lemma assign_members_spec : forall vb a b va v s,
  length b = length vb -> length a = length va -> cmem s = a ++ b -> v = va ++ vb ->
  let s' := assign_members (seq (length a) (length b)) v s in
  cmem s' = a ++ vb /\ cst s' = cst s /\ hw s' = hw s.
Proof.
  induction vb as [|y vb IH]; intros a b va v s Hb Ha Hc Hv; destruct b as [|x b]; simpl in Hb; try discriminate.
  - simpl. now rewrite Hc.
  - simpl. injection Hb as Hb.
    assert (Hn : nth (length a) v 0%Z = y). { rewrite Hv, Ha. apply nth_app_len. }
    rewrite Hn.
    assert (IH' := IH (a ++ [y]) b (va ++ [y]) v (ann_mem_quiet (length a) y s) Hb).
    rewrite !app_length in IH'. simpl in IH'. rewrite !Nat.add_1_r in IH'.
    destruct IH' as (H1 & H2 & H3).
    + now rewrite Ha.
    + unfold ann_mem_quiet; simpl. rewrite Hc, set_nth_app, <- app_assoc. reflexivity.
    + rewrite Hv, <- app_assoc. reflexivity.
    + rewrite H1, H2, H3, <- app_assoc. simpl. auto.
Qed.

Lemma ann_struct_cb_spec : forall n v s, length v = n -> length (cmem s) = n ->
  let s' := ann_struct_cb n v s in cst s' = v /\ cmem s' = v /\ hw s' = hw s.
Proof.
  intros n v s Hv Hm. unfold ann_struct_cb.
  pose proof (assign_members_spec v [] (cmem s) [] v (set_cst s v)) as H.
  simpl in H. rewrite Hm, Hv in H. destruct H as (H1 & H2 & H3); auto.
Qed.

(* --- generated struct read / write of the layout without combined methods --- *)
Lemma nr_read_all_spec : forall L b a s, cmem s = a ++ b ->
  let '(s', vs) := nr_read_all L (seq (length a) (length b)) s in
  cmem s' = a ++ vs /\ length vs = length b /\ cst s' = cst s /\ hw s' = hw s.
Proof.
  induction b as [|x b IH]; intros a s Hc; simpl.
  - rewrite Hc. auto.
  - unfold nr_read_mem. destruct (nth (length a) (sl_mr L) false).
    + set (v := nth (length a) (hw s) 0%Z). simpl.
      specialize (IH (a ++ [v]) (ann_mem_quiet (length a) v s)).
      rewrite app_length in IH. simpl in IH. rewrite Nat.add_1_r in IH.
      destruct (nr_read_all L (seq (S (length a)) (length b)) (ann_mem_quiet (length a) v s)) as [s2 vs].
      destruct IH as (H1 & H2 & H3 & H4).
      { unfold ann_mem_quiet; simpl. rewrite Hc, set_nth_app, <- app_assoc. reflexivity. }
      rewrite H1, <- app_assoc. simpl. rewrite H2. auto.
    + assert (Hx : nth (length a) (cmem s) 0%Z = x) by (rewrite Hc; apply nth_app_len).
      rewrite Hx.
      specialize (IH (a ++ [x]) s).
      rewrite app_length in IH. simpl in IH. rewrite Nat.add_1_r in IH.
      destruct (nr_read_all L (seq (S (length a)) (length b)) s) as [s2 vs].
      destruct IH as (H1 & H2 & H3 & H4).
      { rewrite Hc, <- app_assoc. reflexivity. }
      rewrite H1, <- app_assoc. simpl. rewrite H2. auto.
Qed.

Lemma nr_write_all_spec : forall L val b a s, cmem s = a ++ b ->
  let '(s', vs) := nr_write_all L (seq (length a) (length b)) val s in
  cmem s' = a ++ vs /\ length vs = length b /\ cst s' = cst s /\ length (hw s') = length (hw s).
Proof.
  induction b as [|x b IH]; intros a s Hc; simpl.
  - rewrite Hc. auto.
  - set (v := nth (length a) val 0%Z).
    set (s0 := if nth (length a) (sl_mw L) false then set_hw s (set_nth (length a) v (hw s)) else s).
    assert (H0 : cmem s0 = cmem s /\ cst s0 = cst s /\ length (hw s0) = length (hw s)).
    { unfold s0. destruct (nth (length a) (sl_mw L) false); simpl; auto using set_nth_length. }
    destruct H0 as (E1 & E2 & E3).
    specialize (IH (a ++ [v]) (ann_mem_quiet (length a) v s0)).
    rewrite app_length in IH. simpl in IH. rewrite Nat.add_1_r in IH.
    destruct (nr_write_all L (seq (S (length a)) (length b)) val (ann_mem_quiet (length a) v s0)) as [s2 vs].
    destruct IH as (H1 & H2 & H3 & H4).
    { unfold ann_mem_quiet; simpl. rewrite E1, Hc, set_nth_app, <- app_assoc. reflexivity. }
    rewrite H1, <- app_assoc. simpl. rewrite H2. simpl in H3, H4. rewrite H3, H4. auto.
Qed.

(* --- the invariant --- *)
Definition Inv (L : layout) (s : state) : Prop :=
  cst s = cmem s /\ length (cmem s) = sl_n L /\ length (hw s) = sl_n L.

Definition op_wf (L : layout) (o : op) : Prop :=
  match o with
  | ReadS => True
  | ReadM i => i < sl_n L
  | WriteS v => length v = sl_n L
  | WriteM i _ => i < sl_n L
  | SetS v => length v = sl_n L
  | SetM i _ => i < sl_n L
  | Hw v => length v = sl_n L
  end.

(* the two finding classes: assignment to the side from which no callback propagates *)
Definition op_safe (L : layout) (o : op) : Prop :=
  match o with
  | SetS _ => sl_rw L = true
  | SetM _ _ => sl_rw L = false
  | _ => True
  end.

Lemma init_inv : forall L, Inv L (init L).
Proof. intros; unfold Inv, init; simpl. rewrite repeat_length. auto. Qed.

Lemma rw_read_struct_inv : forall L s, Inv L s ->
  let '(s', d) := rw_read_struct L s in Inv L s' /\ d = cmem s'.
Proof.
  intros L s (E & Hm & Hh). unfold rw_read_struct. destruct (sl_sr L).
  - destruct (ann_struct_cb_spec (sl_n L) (hw s) s Hh Hm) as (H1 & H2 & H3).
    unfold Inv. rewrite H1, H2, H3. auto.
  - unfold Inv. auto.
Qed.

Lemma rw_write_struct_inv : forall L v s, length v = sl_n L -> Inv L s -> Inv L (fst (rw_write_struct L v s)).
Proof.
  intros L v s Hv (E & Hm & Hh). unfold rw_write_struct; simpl.
  set (s1 := if sl_sw L then set_hw s v else s).
  assert (H0 : cmem s1 = cmem s /\ length (hw s1) = sl_n L).
  { unfold s1; destruct (sl_sw L); simpl; auto. }
  destruct H0 as (E1 & E2).
  destruct (ann_struct_cb_spec (sl_n L) v s1 Hv) as (H1 & H2 & H3). { now rewrite E1. }
  unfold Inv. rewrite H1, H2, H3. auto.
Qed.

Lemma ann_mem_quiet_same : forall L i s, Inv L s -> Inv L (ann_mem_quiet i (nth i (cmem s) 0%Z) s).
Proof.
  intros L i s (E & Hm & Hh). unfold Inv, ann_mem_quiet; simpl. rewrite set_nth_same. auto.
Qed.

Lemma rw_read_mem_inv : forall L i s, Inv L s ->
  let '(s', v) := rw_read_mem L i s in Inv L s' /\ v = nth i (cmem s') 0%Z.
Proof.
  intros L i s HI. unfold rw_read_mem.
  pose proof (rw_read_struct_inv L s HI) as H. destruct (rw_read_struct L s) as [s1 d].
  destruct H as (H1 & H2). subst d. split.
  - now apply ann_mem_quiet_same.
  - unfold ann_mem_quiet; simpl. now rewrite set_nth_same.
Qed.

Lemma rw_write_mem_inv : forall L i v s, Inv L s -> Inv L (fst (rw_write_mem L i v s)).
Proof.
  intros L i v s HI. unfold rw_write_mem.
  pose proof (rw_write_struct_inv L (set_nth i v (cst s)) s) as H.
  destruct (rw_write_struct L (set_nth i v (cst s)) s) as [s1 r1]. simpl in H.
  assert (H1 : Inv L s1). { apply H; auto. destruct HI as (E & Hm & _). now rewrite set_nth_length, E. }
  pose proof (rw_read_mem_inv L i s1 H1) as H2. destruct (rw_read_mem L i s1) as [s2 r].
  destruct H2 as (H2 & ->). simpl. now apply ann_mem_quiet_same.
Qed.

Lemma ann_mem_cb_inv : forall L i v s, Inv L s -> Inv L (ann_mem_cb i v s).
Proof.
  intros L i v s (E & Hm & Hh). unfold Inv, ann_mem_cb; simpl. rewrite E, set_nth_length. auto.
Qed.

Lemma nr_read_struct_inv : forall L s, Inv L s -> Inv L (fst (nr_read_struct L s)).
Proof.
  intros L s (E & Hm & Hh). unfold nr_read_struct.
  pose proof (nr_read_all_spec L (cmem s) [] s eq_refl) as H. simpl in H. rewrite Hm in H.
  destruct (nr_read_all L (seq 0 (sl_n L)) s) as [s1 vs]. destruct H as (H1 & H2 & H3 & H4).
  unfold Inv; simpl. rewrite H1, H4. simpl. rewrite H2. auto.
Qed.

Lemma nr_write_struct_inv : forall L v s, Inv L s -> Inv L (fst (nr_write_struct L v s)).
Proof.
  intros L v s (E & Hm & Hh). unfold nr_write_struct.
  pose proof (nr_write_all_spec L v (cmem s) [] s eq_refl) as H. simpl in H. rewrite Hm in H.
  destruct (nr_write_all L (seq 0 (sl_n L)) v s) as [s1 vs]. destruct H as (H1 & H2 & H3 & H4).
  unfold Inv; simpl. rewrite H1, H4. simpl. rewrite H2. auto.
Qed.

Lemma step_inv : forall L s o, op_wf L o -> op_safe L o -> Inv L s -> Inv L (fst (step L s o)).
Proof.
  intros L s o Hw Hs HI. destruct o; simpl in *.
  - destruct (sl_rw L).
    + pose proof (rw_read_struct_inv L s HI) as H. destruct (rw_read_struct L s). simpl. tauto.
    + pose proof (nr_read_struct_inv L s HI) as H. destruct (nr_read_struct L s). exact H.
  - destruct (sl_rw L).
    + pose proof (rw_read_mem_inv L i s HI) as H. destruct (rw_read_mem L i s). simpl. tauto.
    + unfold nr_read_mem. destruct (nth i (sl_mr L) false); simpl; auto. now apply ann_mem_cb_inv.
  - destruct (forallb (in_range L) v); simpl; auto. destruct (sl_rw L).
    + pose proof (rw_write_struct_inv L v s Hw HI) as H. destruct (rw_write_struct L v s). exact H.
    + pose proof (nr_write_struct_inv L v s HI) as H. destruct (nr_write_struct L v s). exact H.
  - destruct (in_range L v); simpl; auto. destruct (sl_rw L).
    + pose proof (rw_write_mem_inv L i v s HI) as H. destruct (rw_write_mem L i v s). exact H.
    + unfold nr_write_mem; simpl. apply ann_mem_cb_inv.
      destruct HI as (E & Hm & Hh). destruct (nth i (sl_mw L) false); unfold Inv; simpl; auto.
      rewrite set_nth_length. auto.
  - rewrite Hs. destruct HI as (E & Hm & Hh).
    destruct (ann_struct_cb_spec (sl_n L) v s Hw Hm) as (H1 & H2 & H3).
    unfold Inv. rewrite H1, H2, H3. auto.
  - rewrite Hs. now apply ann_mem_cb_inv.
  - destruct HI as (E & Hm & Hh). unfold Inv; simpl. auto.
Qed.

Lemma run_inv : forall L ops, Forall (op_wf L) ops -> Forall (op_safe L) ops -> Inv L (run L ops).
Proof.
  intros L ops. unfold run. generalize (init_inv L). generalize (init L).
  induction ops as [|o ops IH]; intros s HI Hw Hs; simpl; auto.
  inversion Hw; inversion Hs; subst. apply IH; auto. now apply step_inv.
Qed.

Lemma struct_agree : forall L ops, Forall (op_wf L) ops -> Forall (op_safe L) ops ->
  let s := run L ops in
  length (cst s) = sl_n L /\ length (cmem s) = sl_n L /\ forall i, i < sl_n L -> nth i (cst s) 0%Z = nth i (cmem s) 0%Z.
Proof.
  intros L ops Hw Hs. destruct (run_inv L ops Hw Hs) as (E & Hm & Hh). simpl.
  rewrite E. auto.
Qed.
