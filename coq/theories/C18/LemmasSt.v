(* C18 - struct parameter and member parameters agree: invariant of St.step over all histories *)
From Coq Require Import List Arith ZArith Bool Lia.
Import ListNotations.
Require Import FV.C18.Model.
Import St.

Lemma set_nth_length : forall A (l : list A) i v, length (set_nth i v l) = length l.
Proof. induction l; destruct i; simpl; intros; auto. Qed.

Lemma set_nth_app : forall A (a b : list A) x v, set_nth (length a) v (a ++ x :: b) = a ++ v :: b.
Proof. induction a; simpl; intros; auto. now rewrite IHa. Qed.

Lemma set_nth_same : forall (l : list Z) i, set_nth i (nth i l 0%Z) l = l.
Proof. induction l; destruct i; simpl; auto. now rewrite IHl. Qed.

Lemma nth_app_len : forall (a b : list Z) x d, nth (length a) (a ++ x :: b) d = x.
Proof. induction a; simpl; auto. Qed.

(* --- the callback of the combined layout copies the whole struct value into the members --- *)
Lemma assign_members_spec : forall vb a b va v s,
  length b = length vb -> length a = length va -> cmem s = a ++ b -> v = va ++ vb ->
  let s' := assign_members (seq (length a) (length b)) v s in
  cmem s' = a ++ vb /\ cst s' = cst s /\ hw s' = hw s.
Proof.
  induction vb as [|y vb IH]; intros a b va v s Hb Ha Hc Hv; destruct b as [|x b]; simpl in Hb; try discriminate.
  - simpl. now rewrite Hc.
  - simpl. injection Hb as Hb.
    assert (Hn : nth (length a) v 0%Z = y). { rewrite Hv, Ha. apply nth_app_len. }
    rewrite Hn.
    assert (IH' := IH (a ++ [y]) b (va ++ [y]) v (ann_mem_quiet (length a) y s) Hb).
    rewrite !app_length in IH'. simpl in IH'. rewrite !Nat.add_1_r in IH'.
    destruct IH' as (H1 & H2 & H3).
    + now rewrite Ha.
    + unfold ann_mem_quiet; simpl. rewrite Hc, set_nth_app, <- app_assoc. reflexivity.
    + rewrite Hv, <- app_assoc. reflexivity.
    + rewrite H1, H2, H3, <- app_assoc. simpl. auto.
Qed.

Lemma ann_struct_cb_spec : forall n v s, length v = n -> length (cmem s) = n ->
  let s' := ann_struct_cb n v s in cst s' = v /\ cmem s' = v /\ hw s' = hw s.
Proof.
  intros n v s Hv Hm. unfold ann_struct_cb.
  pose proof (assign_members_spec v [] (cmem s) [] v (set_cst s v)) as H.
  simpl in H. rewrite Hm, Hv in H. destruct H as (H1 & H2 & H3); auto.
Qed.

Lemma ann_err_mem_frame : forall i s,
  cst (ann_err_mem i s) = cst s /\ cmem (ann_err_mem i s) = cmem s /\ hw (ann_err_mem i s) = hw s.
Proof. intros. unfold ann_err_mem. destruct (nth i (emem s) false); simpl; auto. Qed.

Lemma ann_err_struct_frame : forall s,
  cst (ann_err_struct s) = cst s /\ cmem (ann_err_struct s) = cmem s /\ hw (ann_err_struct s) = hw s.
Proof. intros. unfold ann_err_struct. destruct (est s); simpl; auto. Qed.

Lemma zl_eqb_eq : forall a b, zl_eqb a b = true -> a = b.
Proof.
  induction a as [|x a IH]; destruct b as [|y b]; simpl; intros H; try discriminate; auto.
  apply andb_prop in H. destruct H as (H1 & H2). apply Z.eqb_eq in H1. subst. f_equal. auto.
Qed.

(* --- generated struct read / write of the layout without combined methods --- *)
(* complete loop: the member caches are exactly the collected values; aborted loop: the struct cache is untouched *)
Lemma nr_read_all_spec : forall L b a s, cmem s = a ++ b ->
  match nr_read_all L (seq (length a) (length b)) s with
  | (s', Some vs) => cmem s' = a ++ vs /\ length vs = length b /\ cst s' = cst s /\ hw s' = hw s
  | (s', None) => cst s' = cst s /\ hw s' = hw s /\ length (cmem s') = length (cmem s)
  end.
Proof.
  induction b as [|x b IH]; intros a s Hc; simpl.
  - rewrite Hc. auto.
  - unfold nr_read_mem. destruct (nth (length a) (sl_mr L) false).
    + destruct (nth (length a) (frd s) false).
      * destruct (ann_err_mem_frame (length a) s) as (E1 & E2 & E3). rewrite E1, E2, E3. auto.
      * set (v := nth (length a) (hw s) 0%Z). simpl.
        specialize (IH (a ++ [v]) (ann_mem_quiet (length a) v s)).
        rewrite app_length in IH. simpl in IH. rewrite Nat.add_1_r in IH.
        assert (Hc1 : cmem (ann_mem_quiet (length a) v s) = (a ++ [v]) ++ b).
        { unfold ann_mem_quiet; simpl. rewrite Hc, set_nth_app, <- app_assoc. reflexivity. }
        specialize (IH Hc1).
        destruct (nr_read_all L (seq (S (length a)) (length b)) (ann_mem_quiet (length a) v s)) as [s2 [vs|]].
        -- destruct IH as (H1 & H2 & H3 & H4). rewrite H1, <- app_assoc. simpl. rewrite H2. auto.
        -- destruct IH as (H1 & H2 & H3). simpl in H1, H2, H3. rewrite set_nth_length in H3. auto.
    + assert (Hx : nth (length a) (cmem s) 0%Z = x) by (rewrite Hc; apply nth_app_len).
      rewrite Hx.
      specialize (IH (a ++ [x]) s).
      rewrite app_length in IH. simpl in IH. rewrite Nat.add_1_r in IH.
      assert (Hc1 : cmem s = (a ++ [x]) ++ b) by (rewrite Hc, <- app_assoc; reflexivity).
      specialize (IH Hc1).
      destruct (nr_read_all L (seq (S (length a)) (length b)) s) as [s2 [vs|]].
      * destruct IH as (H1 & H2 & H3 & H4). rewrite H1, <- app_assoc. simpl. rewrite H2. auto.
      * exact IH.
Qed.

Lemma nr_write_all_spec : forall L val b a s, cmem s = a ++ b ->
  match nr_write_all L (seq (length a) (length b)) val s with
  | (s', Some vs) => cmem s' = a ++ vs /\ length vs = length b /\ cst s' = cst s /\ length (hw s') = length (hw s)
  | (s', None) => cst s' = cst s /\ length (hw s') = length (hw s) /\ length (cmem s') = length (cmem s)
  end.
Proof.
  induction b as [|x b IH]; intros a s Hc; simpl.
  - rewrite Hc. auto.
  - unfold nr_write_mem.
    destruct (nth (length a) (sl_mw L) false && nth (length a) (fwr s) false); [auto|].
    set (v := nth (length a) val 0%Z).
    set (s0 := if nth (length a) (sl_mw L) false then set_hw s (set_nth (length a) v (hw s)) else s).
    assert (H0 : cmem s0 = cmem s /\ cst s0 = cst s /\ length (hw s0) = length (hw s)).
    { unfold s0. destruct (nth (length a) (sl_mw L) false); simpl; auto using set_nth_length. }
    destruct H0 as (E1 & E2 & E3). simpl.
    specialize (IH (a ++ [v]) (ann_mem_quiet (length a) v s0)).
    rewrite app_length in IH. simpl in IH. rewrite Nat.add_1_r in IH.
    assert (Hc1 : cmem (ann_mem_quiet (length a) v s0) = (a ++ [v]) ++ b).
    { unfold ann_mem_quiet; simpl. rewrite E1, Hc, set_nth_app, <- app_assoc. reflexivity. }
    specialize (IH Hc1).
    destruct (nr_write_all L (seq (S (length a)) (length b)) val (ann_mem_quiet (length a) v s0)) as [s2 [vs|]].
    + destruct IH as (H1 & H2 & H3 & H4).
      rewrite H1, <- app_assoc. simpl. rewrite H2. simpl in H3, H4. rewrite H3, H4. auto.
    + destruct IH as (H1 & H2 & H3). simpl in H1, H2, H3. rewrite set_nth_length, E1 in H3.
      rewrite H1, H2, H3. auto.
Qed.

(* --- the invariant --- *)
Definition Inv (L : layout) (s : state) : Prop :=
  cst s = cmem s /\ length (cmem s) = sl_n L /\ length (hw s) = sl_n L.

Definition op_wf (L : layout) (o : op) : Prop :=
  match o with
  | ReadS => True
  | ReadM i => i < sl_n L
  | WriteS v => length v = sl_n L
  | WriteM i _ => i < sl_n L
  | SetS v => length v = sl_n L
  | SetM i _ => i < sl_n L
  | Hw v => length v = sl_n L
  | Fault _ _ => True
  | Coerce _ => True
  end.

(* two finding classes: assignment to the side from which no callback propagates *)
Definition op_safe (L : layout) (o : op) : Prop :=
  match o with
  | SetS _ => sl_rw L = true
  | SetM _ _ => sl_rw L = false
  | _ => True
  end.

Lemma init_inv : forall L, Inv L (init L).
Proof. intros; unfold Inv, init; simpl. rewrite repeat_length. auto. Qed.

Lemma inv_frame : forall L s s', cst s' = cst s -> cmem s' = cmem s -> hw s' = hw s -> Inv L s -> Inv L s'.
Proof. intros L s s' E1 E2 E3 (E & Hm & Hh). unfold Inv. rewrite E1, E2, E3. auto. Qed.

Lemma rw_read_struct_inv : forall L s, Inv L s ->
  match rw_read_struct L s with
  | (s', Some d) => Inv L s' /\ d = cmem s'
  | (s', None) => Inv L s'
  end.
Proof.
  intros L s HI. pose proof HI as (E & Hm & Hh). unfold rw_read_struct. destruct (sl_sr L).
  - destruct (nth 0 (frd s) false).
    + destruct (ann_err_struct_frame s) as (E1 & E2 & E3). eapply inv_frame; eauto.
    + destruct (ann_struct_cb_spec (sl_n L) (hw s) s Hh Hm) as (H1 & H2 & H3).
      unfold Inv. rewrite H1, H2, H3. auto.
  - unfold Inv. auto.
Qed.

Lemma coerce_from_length : forall l v k, length (coerce_from k l v) = length v.
Proof. induction v; simpl; intros; auto. Qed.

Lemma coerce_length : forall l v, length (coerce l v) = length v.
Proof. intros. apply coerce_from_length. Qed.

(* whatever the hardware makes of the requested members: struct and members get the SAME (returned) values *)
Lemma rw_write_struct_inv : forall L v s, length v = sl_n L -> Inv L s -> Inv L (fst (rw_write_struct L v s)).
Proof.
  intros L v s Hv HI. pose proof HI as (E & Hm & Hh). unfold rw_write_struct.
  destruct (sl_sw L).
  - destruct (nth 0 (fwr s) false); [exact HI|].
    assert (Hc : length (coerce (csc s) v) = sl_n L) by now rewrite coerce_length.
    destruct (forallb (in_range L) (coerce (csc s) v)); simpl.
    + destruct (ann_struct_cb_spec (sl_n L) (coerce (csc s) v) (set_hw s (coerce (csc s) v)) Hc) as (H1 & H2 & H3); [exact Hm|].
      unfold Inv. rewrite H1, H2, H3. simpl. auto.
    + unfold Inv; simpl. auto.
  - simpl. destruct (ann_struct_cb_spec (sl_n L) v s Hv Hm) as (H1 & H2 & H3).
    unfold Inv. rewrite H1, H2, H3. auto.
Qed.

Lemma ann_mem_quiet_same : forall L i s, Inv L s -> Inv L (ann_mem_quiet i (nth i (cmem s) 0%Z) s).
Proof.
  intros L i s (E & Hm & Hh). unfold Inv, ann_mem_quiet; simpl. rewrite set_nth_same. auto.
Qed.

Lemma rw_read_mem_inv : forall L i s, Inv L s ->
  match rw_read_mem L i s with
  | (s', Some v) => Inv L s' /\ v = nth i (cmem s') 0%Z
  | (s', None) => Inv L s'
  end.
Proof.
  intros L i s HI. unfold rw_read_mem.
  pose proof (rw_read_struct_inv L s HI) as H. destruct (rw_read_struct L s) as [s1 [d|]].
  - destruct H as (H1 & H2). subst d. split.
    + now apply ann_mem_quiet_same.
    + unfold ann_mem_quiet; simpl. now rewrite set_nth_same.
  - destruct (ann_err_mem_frame i s1) as (E1 & E2 & E3). eapply inv_frame; eauto.
Qed.

Lemma rw_write_mem_inv : forall L i v s, Inv L s -> Inv L (fst (rw_write_mem L i v s)).
Proof.
  intros L i v s HI. unfold rw_write_mem.
  pose proof (rw_write_struct_inv L (set_nth i v (cst s)) s) as H.
  destruct (rw_write_struct L (set_nth i v (cst s)) s) as [s1 [r1|]]; simpl in H.
  - assert (H1 : Inv L s1). { apply H; auto. destruct HI as (E & Hm & _). now rewrite set_nth_length, E. }
    pose proof (rw_read_mem_inv L i s1 H1) as H2. destruct (rw_read_mem L i s1) as [s2 [r|]].
    + destruct H2 as (H2 & ->). simpl. now apply ann_mem_quiet_same.
    + exact H2.
  - simpl. apply H; auto. destruct HI as (E & Hm & _). now rewrite set_nth_length, E.
Qed.

Lemma ann_mem_cb_inv : forall L i v s, Inv L s -> Inv L (ann_mem_cb i v s).
Proof.
  intros L i v s (E & Hm & Hh). unfold Inv, ann_mem_cb; simpl. rewrite E, set_nth_length. auto.
Qed.

(* the struct loops: complete -> agreement; aborted -> agreement iff no member cache changed (the guard) *)
Lemma nr_read_struct_inv : forall L s, partial_abort L s ReadS = false -> sl_rw L = false -> Inv L s ->
  Inv L (fst (nr_read_struct L s)).
Proof.
  intros L s Hp Hrw (E & Hm & Hh). unfold nr_read_struct. unfold partial_abort in Hp. rewrite Hrw in Hp. simpl in Hp.
  pose proof (nr_read_all_spec L (cmem s) [] s eq_refl) as H. simpl in H. rewrite Hm in H.
  destruct (nr_read_all L (seq 0 (sl_n L)) s) as [s1 [vs|]].
  - destruct H as (H1 & H2 & H3 & H4). unfold Inv; simpl. rewrite H1, H4. simpl. rewrite H2. auto.
  - destruct H as (H1 & H2 & H3). apply negb_false_iff, zl_eqb_eq in Hp. simpl.
    destruct (ann_err_struct_frame s1) as (E1 & E2 & E3). unfold Inv. rewrite E1, E2, E3, H1, H2, Hp. auto.
Qed.

Lemma nr_write_struct_inv : forall L v s, partial_abort L s (WriteS v) = false -> forallb (in_range L) v = true ->
  sl_rw L = false -> Inv L s -> Inv L (fst (nr_write_struct L v s)).
Proof.
  intros L v s Hp Hr Hrw (E & Hm & Hh). unfold nr_write_struct. unfold partial_abort in Hp. rewrite Hrw, Hr in Hp. simpl in Hp.
  pose proof (nr_write_all_spec L v (cmem s) [] s eq_refl) as H. simpl in H. rewrite Hm in H.
  destruct (nr_write_all L (seq 0 (sl_n L)) v s) as [s1 [vs|]].
  - destruct H as (H1 & H2 & H3 & H4). unfold Inv; simpl. rewrite H1, H4. simpl. rewrite H2. auto.
  - destruct H as (H1 & H2 & H3). apply negb_false_iff, zl_eqb_eq in Hp. simpl.
    unfold Inv. rewrite H1, H2, Hp. auto.
Qed.

Lemma step_inv : forall L s o, op_wf L o -> op_safe L o -> partial_abort L s o = false -> Inv L s ->
  Inv L (fst (step L s o)).
Proof.
  intros L s o Hw Hs Hp HI. destruct o; simpl in Hw, Hs; simpl.
  - destruct (sl_rw L) eqn:Erw.
    + pose proof (rw_read_struct_inv L s HI) as H. destruct (rw_read_struct L s) as [s1 [d|]]; simpl; tauto.
    + pose proof (nr_read_struct_inv L s Hp Erw HI) as H. destruct (nr_read_struct L s). exact H.
  - destruct (sl_rw L).
    + pose proof (rw_read_mem_inv L i s HI) as H. destruct (rw_read_mem L i s) as [s1 [d|]]; simpl; tauto.
    + unfold nr_read_mem. destruct (nth i (sl_mr L) false); simpl; auto.
      destruct (nth i (frd s) false); simpl.
      * destruct (ann_err_mem_frame i s) as (E1 & E2 & E3). eapply inv_frame; eauto.
      * now apply ann_mem_cb_inv.
  - destruct (forallb (in_range L) v) eqn:Er; simpl; auto. destruct (sl_rw L) eqn:Erw.
    + pose proof (rw_write_struct_inv L v s Hw HI) as H. destruct (rw_write_struct L v s). exact H.
    + pose proof (nr_write_struct_inv L v s Hp Er Erw HI) as H. destruct (nr_write_struct L v s). exact H.
  - destruct (in_range L v); simpl; auto. destruct (sl_rw L).
    + apply rw_write_mem_inv; auto.
    + unfold nr_write_mem. destruct (nth i (sl_mw L) false && nth i (fwr s) false); simpl; auto.
      apply ann_mem_cb_inv.
      destruct HI as (E & Hm & Hh). destruct (nth i (sl_mw L) false); unfold Inv; simpl; auto.
      rewrite set_nth_length. auto.
  - rewrite Hs. destruct HI as (E & Hm & Hh).
    destruct (ann_struct_cb_spec (sl_n L) v s Hw Hm) as (H1 & H2 & H3).
    unfold Inv. rewrite H1, H2, H3. auto.
  - rewrite Hs. now apply ann_mem_cb_inv.
  - destruct HI as (E & Hm & Hh). unfold Inv; simpl. auto.
  - exact HI.
  - exact HI.
Qed.

(* --- write of a member in the combined layout: generated wfunc = write_<struct>(copy with the member replaced), then
   the value READ BACK through read_<member>() is returned and announced --- *)
Lemma rw_read_struct_hw : forall L s s' d, sl_sr L = true -> length (hw s) = sl_n L -> length (cmem s) = sl_n L ->
  rw_read_struct L s = (s', Some d) -> cmem s' = hw s' /\ d = hw s'.
Proof.
  intros L s s' d Hsr Hh Hm H. unfold rw_read_struct in H. rewrite Hsr in H.
  destruct (nth 0 (frd s) false); [discriminate|]. injection H as <- <-.
  destruct (ann_struct_cb_spec (sl_n L) (hw s) s Hh Hm) as (H1 & H2 & H3). rewrite H2, H3. auto.
Qed.

Lemma rw_write_mem_spec : forall L i v s, Inv L s ->
  let '(s', r) := rw_write_mem L i v s in
  Inv L s' /\
  match r with
  | ROk x => x = [nth i (cmem s') 0%Z] /\ (sl_sr L = true -> cmem s' = hw s')
  | RErr c => c = 1 \/ c = 3
  end.
Proof.
  intros L i v s HI. pose proof (rw_write_mem_inv L i v s HI) as Hinv. unfold rw_write_mem in *.
  pose proof (rw_write_struct_inv L (set_nth i v (cst s)) s) as H.
  destruct (rw_write_struct L (set_nth i v (cst s)) s) as [s1 [r1|]]; simpl in H.
  - assert (H1 : Inv L s1). { apply H; auto. destruct HI as (E & Hm & _). now rewrite set_nth_length, E. }
    unfold rw_read_mem in *.
    pose proof (rw_read_struct_inv L s1 H1) as H2.
    pose proof (rw_read_struct_hw L s1) as H3.
    destruct (rw_read_struct L s1) as [s2 [d|]].
    + destruct H2 as (H2 & ->). split; [exact Hinv|].
      assert (Hc : cmem (ann_mem_quiet i (nth i (cmem s2) 0%Z) (ann_mem_quiet i (nth i (cmem s2) 0%Z) s2)) = cmem s2).
      { unfold ann_mem_quiet; simpl. now rewrite !set_nth_same. }
      rewrite Hc. split; [reflexivity|].
      intros Hsr. destruct H1 as (_ & Hm1 & Hh1). destruct (H3 s2 (cmem s2) Hsr Hh1 Hm1 eq_refl) as (H4 & _).
      exact H4.
    + split; [exact Hinv|]. auto.
  - split; [exact Hinv|]. auto.
Qed.

Lemma nth_set_nth_eq : forall (l : list Z) i v d, i < length l -> nth i (set_nth i v l) d = v.
Proof. induction l; destruct i; simpl; intros; try lia; auto. apply IHl. lia. Qed.

Lemma nth_coerce_from : forall l v k i, i < length v -> nth i (coerce_from k l v) 0%Z = clookup (k + i) (nth i v 0%Z) l.
Proof.
  induction v as [|x v IH]; simpl; intros k i Hi; [lia|]. destruct i.
  - now rewrite Nat.add_0_r.
  - rewrite IH by lia. f_equal. lia.
Qed.

(* with a user written write_<struct>: the reply of a successful member write is what the hardware made of the request *)
Lemma rw_write_mem_reply : forall L i v s s' x, sl_sw L = true -> i < sl_n L -> Inv L s ->
  rw_write_mem L i v s = (s', ROk x) -> x = [clookup i v (csc s)].
Proof.
  intros L i v s s' x Hsw Hi (E & Hm & Hh) H. unfold rw_write_mem, rw_write_struct in H. rewrite Hsw in H.
  destruct (nth 0 (fwr s) false); [discriminate|].
  assert (Hn : nth i (coerce (csc s) (set_nth i v (cst s))) 0%Z = clookup i v (csc s)).
  { unfold coerce. rewrite nth_coerce_from by (rewrite set_nth_length, E, Hm; exact Hi).
    rewrite nth_set_nth_eq by (rewrite E, Hm; exact Hi). reflexivity. }
  assert (Hc : length (coerce (csc s) (set_nth i v (cst s))) = sl_n L) by now rewrite coerce_length, set_nth_length, E.
  set (c := coerce (csc s) (set_nth i v (cst s))) in *.
  destruct (forallb (in_range L) c); [|discriminate].
  destruct (ann_struct_cb_spec (sl_n L) c (set_hw s c) Hc Hm) as (H1 & H2 & H3).
  change (hw (set_hw s c)) with c in H3.
  unfold rw_read_mem, rw_read_struct in H. destruct (sl_sr L).
  - destruct (nth 0 (frd (ann_struct_cb (sl_n L) c (set_hw s c))) false); [discriminate|].
    assert (Hx : [nth i (hw (ann_struct_cb (sl_n L) c (set_hw s c))) 0%Z] = x) by congruence.
    now rewrite <- Hx, H3, Hn.
  - assert (Hx : [nth i (cst (ann_struct_cb (sl_n L) c (set_hw s c))) 0%Z] = x) by congruence.
    now rewrite <- Hx, H1, Hn.
Qed.

(* a history is admissible when every operation is well formed, is not an assignment to the non-propagating side, and no
   generated struct loop is aborted after it changed a member cache; faults that abort a loop before any change, faults
   of direct member access and faults in the combined layout are all admissible *)
Fixpoint run_ok (L : layout) (s : state) (ops : list op) : Prop :=
  match ops with
  | [] => True
  | o :: r => op_wf L o /\ op_safe L o /\ partial_abort L s o = false /\ run_ok L (fst (step L s o)) r
  end.

Lemma fold_inv : forall L ops s, run_ok L s ops -> Inv L s -> Inv L (fold_left (fun s o => fst (step L s o)) ops s).
Proof.
  induction ops as [|o ops IH]; intros s Hr HI; simpl; auto.
  destruct Hr as (Hw & Hs & Hp & Hr). apply IH; auto. now apply step_inv.
Qed.

Lemma struct_agree : forall L ops, run_ok L (init L) ops ->
  let s := run L ops in
  length (cst s) = sl_n L /\ length (cmem s) = sl_n L /\ forall i, i < sl_n L -> nth i (cst s) 0%Z = nth i (cmem s) 0%Z.
Proof.
  intros L ops Hr. destruct (fold_inv L ops (init L) Hr (init_inv L)) as (E & Hm & Hh). simpl. unfold run.
  rewrite E. auto.
Qed.

(* the two statements of C18_struct_member_write_consistent *)
Lemma member_write_step : forall L s i v, sl_rw L = true -> i < sl_n L -> Inv L s ->
  let '(s', r) := step L s (WriteM i v) in
  cst s' = cmem s' /\ length (cmem s') = sl_n L /\
  match r with
  | ROk x => x = [nth i (cmem s') 0%Z] /\ x = [nth i (cst s') 0%Z] /\
             (sl_sr L = true -> cmem s' = hw s') /\
             (sl_sw L = true -> x = [clookup i v (csc s)])
  | RErr c => c = 1 \/ c = 3
  end.
Proof.
  intros L s i v Hrw Hi HI. simpl. destruct (in_range L v).
  - rewrite Hrw. pose proof (rw_write_mem_spec L i v s HI) as H.
    pose proof (rw_write_mem_reply L i v s) as Hr.
    destruct (rw_write_mem L i v s) as (s', r). destruct H as ((E & Hm & _) & H). split; [exact E|]. split; [exact Hm|].
    destruct r as [x|c]; [|exact H]. destruct H as (H1 & H2). split; [exact H1|]. split; [now rewrite E|].
    split; [exact H2|]. intros Hsw. exact (Hr s' x Hsw Hi HI eq_refl).
  - destruct HI as (E & Hm & _). auto.
Qed.

Lemma member_write_after_history : forall L ops i v, run_ok L (init L) ops -> sl_rw L = true -> i < sl_n L ->
  let s := run L (ops ++ [WriteM i v]) in
  length (cst s) = sl_n L /\ length (cmem s) = sl_n L /\ forall j, j < sl_n L -> nth j (cst s) 0%Z = nth j (cmem s) 0%Z.
Proof.
  intros L ops i v Hr Hrw Hi. unfold run. rewrite fold_left_app.
  set (s0 := fold_left (fun s o => fst (step L s o)) ops (init L)).
  change (fold_left (fun s o => fst (step L s o)) [WriteM i v] s0) with (fst (step L s0 (WriteM i v))).
  pose proof (fold_inv L ops (init L) Hr (init_inv L)) as HI. fold s0 in HI.
  pose proof (member_write_step L s0 i v Hrw Hi HI) as H.
  destruct (step L s0 (WriteM i v)) as (s', r). destruct H as (E & Hm & _). simpl fst. rewrite E. auto.
Qed.

(* without faults in the script nothing is ever aborted: the guard reduces to the two assignment classes *)
Definition no_faults (s : state) : Prop := (forall i, nth i (frd s) false = false) /\ (forall i, nth i (fwr s) false = false).

Lemma nr_read_all_no_fault : forall L idx s, no_faults s ->
  exists s' vs, nr_read_all L idx s = (s', Some vs) /\ no_faults s'.
Proof.
  induction idx as [|i idx IH]; intros s Hn; simpl; [eauto|].
  unfold nr_read_mem. destruct Hn as (Hr & Hw). rewrite Hr.
  destruct (nth i (sl_mr L) false).
  - destruct (IH (ann_mem true i (nth i (hw s) 0%Z) s)) as (s' & vs & H1 & H2); [split; auto|].
    rewrite H1. eauto.
  - destruct (IH s) as (s' & vs & H1 & H2); [split; auto|]. rewrite H1. eauto.
Qed.

Lemma nr_write_all_no_fault : forall L idx val s, no_faults s ->
  exists s' vs, nr_write_all L idx val s = (s', Some vs) /\ no_faults s'.
Proof.
  induction idx as [|i idx IH]; intros val s Hn; simpl; [eauto|].
  unfold nr_write_mem. destruct Hn as (Hr & Hw). rewrite Hw, andb_false_r.
  destruct (IH val (ann_mem true i (nth i val 0%Z)
              (if nth i (sl_mw L) false then set_hw s (set_nth i (nth i val 0%Z) (hw s)) else s)))
    as (s' & vs & H1 & H2).
  { destruct (nth i (sl_mw L) false); split; auto. }
  rewrite H1. eauto.
Qed.

Lemma no_fault_no_abort : forall L s o, no_faults s -> partial_abort L s o = false.
Proof.
  intros L s o Hn. destruct o; simpl; auto.
  - destruct (nr_read_all_no_fault L (seq 0 (sl_n L)) s Hn) as (s' & vs & H & _). rewrite H. apply andb_false_r.
  - destruct (nr_write_all_no_fault L (seq 0 (sl_n L)) v s Hn) as (s' & vs & H & _). rewrite H. apply andb_false_r.
Qed.
