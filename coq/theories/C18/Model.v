(* C18 - executable models of the four "linked parameter" mechanisms of frappy.  No proofs in this file.
     Struct   : frappy/extparams.py StructParam (__set_name__, finish) + the read/write wrappers and
                announceUpdate/callbacks of frappy/modulebase.py
     FloatEnum: frappy/extparams.py FloatEnumParam (__init__, __set_name__, __get__, trigger_setter, finish)
     Limits   : frappy/params.py Limit.set_datatype, modulebase.py generated check_<p> / checkLimits,
                datatypes.py LimitsType.validate
     Control  : frappy/mixins.py HasControlledBy / HasOutputModule
   Values are integers (struct members, limits, targets) or half units (float values of FloatEnum: python value = z/2).
   An update event is (parameter id, exported value as a list of numbers).  omit_unchanged_within = 0. *)
From Coq Require Import List Arith ZArith Bool.
Import ListNotations.

Definition ev := (nat * list Z)%type.
Inductive res := ROk (v : list Z) | RErr (code : nat).     (* code 1: a SECoP RangeError, 9: operation not available *)

Fixpoint set_nth {A} (i : nat) (v : A) (l : list A) : list A :=
  match l, i with
  | [], _ => []
  | _ :: r, O => v :: r
  | x :: r, S i' => x :: set_nth i' v r
  end.

Definition zb (b : bool) : Z := if b then 1%Z else 0%Z.

(* ------------------------------------------------------------------------------------------------ *)
(* Struct parameter with member parameters                                                          *)
(* ------------------------------------------------------------------------------------------------ *)
Module St.

(* sl_rw: the class has read_<struct> or write_<struct> (hasStructRW); sl_sr / sl_sw: which of them the user wrote.
   Without combined methods: sl_mr / sl_mw say which members have a user read_ / write_ method.
   The fake hardware holds one number per member; user methods read it / store into it and return what they stored.
   Fault script of the fake driver: frd i / fwr i = the user read_ / write_ method of member i raises (HardwareError on
   read, RangeError on write); in the combined layout entry 0 is the fault flag of read_<struct> / write_<struct>. *)
Record layout := { sl_n : nat; sl_rw : bool; sl_sr : bool; sl_sw : bool; sl_mr : list bool; sl_mw : list bool;
                   sl_lo : Z; sl_hi : Z }.

(* est / emem: the struct / member i carries the read error of a fault (readerror is a HardwareError);
   csc: coercion script of the fake hardware behind the user written write_<struct> (first matching entry):
   (member i, requested value a, b) = the hardware stores b when a is requested for member i (it rounds to its resolution,
   clamps to what it can do); no entry: the requested value is stored.  write_<struct> returns what the hardware holds. *)
Record state := { hw : list Z; cst : list Z; cmem : list Z; frd : list bool; fwr : list bool;
                  est : bool; emem : list bool; csc : list (nat * Z * Z); evs : list ev }.   (* evs newest first *)

Definition set_hw s v := {| hw := v; cst := cst s; cmem := cmem s; frd := frd s; fwr := fwr s; est := est s; emem := emem s; csc := csc s; evs := evs s |}.
Definition set_cst s v := {| hw := hw s; cst := v; cmem := cmem s; frd := frd s; fwr := fwr s; est := false; emem := emem s; csc := csc s; evs := evs s |}.
Definition set_cmem s (i : nat) v := {| hw := hw s; cst := cst s; cmem := v; frd := frd s; fwr := fwr s; est := est s;
                                        emem := set_nth i false (emem s); csc := csc s; evs := evs s |}.
Definition set_faults s r w := {| hw := hw s; cst := cst s; cmem := cmem s; frd := r; fwr := w; est := est s; emem := emem s; csc := csc s; evs := evs s |}.
Definition set_csc s l := {| hw := hw s; cst := cst s; cmem := cmem s; frd := frd s; fwr := fwr s; est := est s; emem := emem s; csc := l; evs := evs s |}.
Definition emit s (p : nat) (v : list Z) :=
  {| hw := hw s; cst := cst s; cmem := cmem s; frd := frd s; fwr := fwr s; est := est s; emem := emem s; csc := csc s; evs := (p, v) :: evs s |}.

(* what the hardware stores when [v] is requested for member [i] *)
Fixpoint clookup (i : nat) (v : Z) (l : list (nat * Z * Z)) : Z :=
  match l with
  | [] => v
  | (j, a, b) :: r => if Nat.eqb i j && Z.eqb v a then b else clookup i v r
  end.
Fixpoint coerce_from (k : nat) (l : list (nat * Z * Z)) (val : list Z) : list Z :=
  match val with [] => [] | v :: r => clookup k v l :: coerce_from (S k) l r end.
Definition coerce (l : list (nat * Z * Z)) (val : list Z) : list Z := coerce_from 0 l val.

(* parameter ids: 0 the struct, S i member i; an error update of parameter p is the event (100 + p, []) *)

(* announceUpdate(member i, v) when no callback propagates to the struct (combined layout, or insideRW > 0);
   a value update clears the read error *)
Definition ann_mem_quiet (i : nat) (v : Z) (s : state) : state :=
  emit (set_cmem s i (set_nth i v (cmem s))) (S i) [v].

(* announceUpdate(member i, v) in the layout without combined methods, insideRW = 0: the callback registered by
   StructParam.finish copies the struct value, replaces the member and assigns the struct (which has no callbacks);
   callbacks run before the update of the member itself is sent *)
Definition ann_mem_cb (i : nat) (v : Z) (s : state) : state :=
  let s1 := set_cmem s i (set_nth i v (cmem s)) in
  let prev := set_nth i v (cst s1) in
  emit (emit (set_cst s1 prev) 0 prev) (S i) [v].

Definition ann_mem (quiet : bool) := if quiet then ann_mem_quiet else ann_mem_cb.

(* announceUpdate(p, err=e): nothing at all for a repeated error; otherwise readerror is stored, the callbacks are
   called with (None, err) - both StructParam callbacks raise inside (swallowed) or are skipped - and the error update is sent *)
Definition ann_err_mem (i : nat) (s : state) : state :=
  if nth i (emem s) false then s
  else emit {| hw := hw s; cst := cst s; cmem := cmem s; frd := frd s; fwr := fwr s; est := est s;
               emem := set_nth i true (emem s); csc := csc s; evs := evs s |} (100 + S i) [].
Definition ann_err_struct (s : state) : state :=
  if est s then s
  else emit {| hw := hw s; cst := cst s; cmem := cmem s; frd := frd s; fwr := fwr s; est := true;
               emem := emem s; csc := csc s; evs := evs s |} 100 [].

(* announceUpdate(struct, v) without callbacks (layout without combined methods) *)
Definition ann_struct_quiet (v : list Z) (s : state) : state := emit (set_cst s v) 0 v.

Fixpoint assign_members (idx : list nat) (v : list Z) (s : state) : state :=
  match idx with
  | [] => s
  | i :: r => assign_members r v (ann_mem_quiet i (nth i v 0%Z) s)
  end.

(* announceUpdate(struct, v) in the combined layout: the callback assigns every member from the struct value *)
Definition ann_struct_cb (n : nat) (v : list Z) (s : state) : state :=
  emit (assign_members (seq 0 n) v (set_cst s v)) 0 v.

(* --- layout without combined methods; None = the method raised --- *)
(* wrapped read_<member>: user method reads the hardware and the wrapper announces; a raising user method makes the
   wrapper announce the error; without user method the wrapper returns the cached value *)
Definition nr_read_mem (L : layout) (quiet : bool) (i : nat) (s : state) : state * option Z :=
  if nth i (sl_mr L) false
  then if nth i (frd s) false then (ann_err_mem i s, None)
       else let v := nth i (hw s) 0%Z in (ann_mem quiet i v s, Some v)
  else (s, Some (nth i (cmem s) 0%Z)).

(* wrapped write_<member> (value already validated); a raising user method changes nothing *)
Definition nr_write_mem (L : layout) (quiet : bool) (i : nat) (v : Z) (s : state) : state * option Z :=
  if nth i (sl_mw L) false && nth i (fwr s) false then (s, None)
  else
    let s1 := if nth i (sl_mw L) false then set_hw s (set_nth i v (hw s)) else s in
    (ann_mem quiet i v s1, Some v).

(* generated struct_read_func / struct_write_func: insideRW += 1, one call per member in order, dict of the results;
   the first raising member aborts the loop (try/finally restores insideRW, so the counter is not part of the state) *)
Fixpoint nr_read_all (L : layout) (idx : list nat) (s : state) : state * option (list Z) :=
  match idx with
  | [] => (s, Some [])
  | i :: r => match nr_read_mem L true i s with
              | (s1, None) => (s1, None)
              | (s1, Some v) => match nr_read_all L r s1 with
                                | (s2, None) => (s2, None)
                                | (s2, Some vs) => (s2, Some (v :: vs))
                                end
              end
  end.

Fixpoint nr_write_all (L : layout) (idx : list nat) (val : list Z) (s : state) : state * option (list Z) :=
  match idx with
  | [] => (s, Some [])
  | i :: r => match nr_write_mem L true i (nth i val 0%Z) s with
              | (s1, None) => (s1, None)
              | (s1, Some v) => match nr_write_all L r val s1 with
                                | (s2, None) => (s2, None)
                                | (s2, Some vs) => (s2, Some (v :: vs))
                                end
              end
  end.

(* the wrapper of read_<struct> announces the error of an aborted read on the struct as well *)
Definition nr_read_struct (L : layout) (s : state) : state * option (list Z) :=
  match nr_read_all L (seq 0 (sl_n L)) s with
  | (s1, Some vs) => (ann_struct_quiet vs s1, Some vs)
  | (s1, None) => (ann_err_struct s1, None)
  end.

Definition nr_write_struct (L : layout) (val : list Z) (s : state) : state * option (list Z) :=
  match nr_write_all L (seq 0 (sl_n L)) val s with
  | (s1, Some vs) => (ann_struct_quiet vs s1, Some vs)
  | (s1, None) => (s1, None)
  end.

Definition in_range (L : layout) (v : Z) : bool := (sl_lo L <=? v)%Z && (v <=? sl_hi L)%Z.

(* --- combined layout --- *)
Definition rw_read_struct (L : layout) (s : state) : state * option (list Z) :=
  if sl_sr L then
    if nth 0 (frd s) false then (ann_err_struct s, None)
    else let v := hw s in (ann_struct_cb (sl_n L) v s, Some v)
  else (s, Some (cst s)).

(* wrapped write_<struct> (value already validated).  User method: raises per fault script (nothing changes), else the
   hardware stores the COERCED members and the method returns what the hardware holds; the wrapper validates the returned
   dict (a member outside its range: RangeError after the hardware was set, nothing announced) and announces it.
   Without user write_<struct> (only read_<struct> was written) the wrapper announces the requested value. *)
Definition rw_write_struct (L : layout) (val : list Z) (s : state) : state * option (list Z) :=
  if sl_sw L then
    if nth 0 (fwr s) false then (s, None)
    else
      let c := coerce (csc s) val in
      let s1 := set_hw s c in
      if forallb (in_range L) c then (ann_struct_cb (sl_n L) c s1, Some c) else (s1, None)
  else (ann_struct_cb (sl_n L) val s, Some val).

(* generated rfunc: read_<struct>()[member], then the wrapper announces the member (value or error) *)
Definition rw_read_mem (L : layout) (i : nat) (s : state) : state * option Z :=
  match rw_read_struct L s with
  | (s1, Some d) => let v := nth i d 0%Z in (ann_mem_quiet i v s1, Some v)
  | (s1, None) => (ann_err_mem i s1, None)
  end.

(* generated wfunc: copy of the cached struct with the member replaced -> write_<struct>; RETURNS read_<member>(), i.e.
   the value read back after the write (not the requested one: write_<struct> may have coerced it); the wrapper of
   write_<member> announces the returned value.  Result: the value, or the error code *)
Definition rw_write_mem (L : layout) (i : nat) (v : Z) (s : state) : state * res :=
  let d := set_nth i v (cst s) in
  match rw_write_struct L d s with
  | (s1, None) => (s1, RErr 1)
  | (s1, Some _) =>
      match rw_read_mem L i s1 with
      | (s2, None) => (s2, RErr 3)
      | (s2, Some r) => (ann_mem_quiet i r s2, ROk [r])
      end
  end.

Inductive op :=
| ReadS | ReadM (i : nat)                   (* read through the wrapped read_ method (client or driver) *)
| WriteS (v : list Z) | WriteM (i : nat) (v : Z)
| SetS (v : list Z) | SetM (i : nat) (v : Z)   (* driver assignment  self.<param> = v *)
| Hw (v : list Z)                           (* the hardware changes by itself *)
| Fault (rd wr : list bool)                 (* the fault script of the fake driver changes *)
| Coerce (l : list (nat * Z * Z)).          (* the coercion script of the fake hardware changes *)

Definition res_list (r : option (list Z)) (code : nat) : res := match r with Some v => ROk v | None => RErr code end.
Definition res_one (r : option Z) (code : nat) : res := match r with Some v => ROk [v] | None => RErr code end.

(* code 3: HardwareError of a read fault; code 1: RangeError (datatype or write fault) *)
Definition step (L : layout) (s : state) (o : op) : state * res :=
  match o with
  | ReadS => let '(s1, v) := (if sl_rw L then rw_read_struct L s else nr_read_struct L s) in (s1, res_list v 3)
  | ReadM i => let '(s1, v) := (if sl_rw L then rw_read_mem L i s else nr_read_mem L false i s) in (s1, res_one v 3)
  | WriteS v =>
      if forallb (in_range L) v then
        let '(s1, r) := (if sl_rw L then rw_write_struct L v s else nr_write_struct L v s) in (s1, res_list r 1)
      else (s, RErr 1)
  | WriteM i v =>
      if in_range L v then
        if sl_rw L then rw_write_mem L i v s
        else let '(s1, r) := nr_write_mem L false i v s in (s1, res_one r 1)
      else (s, RErr 1)
  | SetS v => ((if sl_rw L then ann_struct_cb (sl_n L) v s else ann_struct_quiet v s), ROk [])
  | SetM i v => ((if sl_rw L then ann_mem_quiet i v s else ann_mem_cb i v s), ROk [])
  | Hw v => (set_hw s v, ROk [])
  | Fault r w => (set_faults s r w, ROk [])
  | Coerce l => (set_csc s l, ROk [])
  end.

Fixpoint zl_eqb (a b : list Z) : bool :=
  match a, b with
  | [], [] => true
  | x :: a', y :: b' => Z.eqb x y && zl_eqb a' b'
  | _, _ => false
  end.

(* the generated struct read / write loop was aborted by a raising member AFTER the cache of an earlier member of the
   same loop had changed (the finding class of partially executed struct access) *)
Definition partial_abort (L : layout) (s : state) (o : op) : bool :=
  match o with
  | ReadS => negb (sl_rw L) &&
             match nr_read_all L (seq 0 (sl_n L)) s with (s1, None) => negb (zl_eqb (cmem s1) (cmem s)) | _ => false end
  | WriteS v => negb (sl_rw L) && forallb (in_range L) v &&
             match nr_write_all L (seq 0 (sl_n L)) v s with (s1, None) => negb (zl_eqb (cmem s1) (cmem s)) | _ => false end
  | _ => false
  end.

Definition init (L : layout) : state :=
  let z := repeat 0%Z (sl_n L) in
  {| hw := z; cst := z; cmem := z; frd := []; fwr := []; est := false; emem := repeat false (sl_n L); csc := []; evs := [] |}.

Definition run (L : layout) (ops : list op) : state := fold_left (fun s o => fst (step L s o)) ops (init L).

End St.

(* ------------------------------------------------------------------------------------------------ *)
(* Float parameter bound to an enumerated index                                                     *)
(* ------------------------------------------------------------------------------------------------ *)
Module Fe.

(* one element of the labels argument: optional explicit index, the value (explicit third element of the tuple
   or, fl_explicit = false, the number python parsed out of the label text) *)
Record label := { fl_idx : option Z; fl_explicit : bool; fl_val : Z }.

(* f_ri: the user wrote read_<idx> (reads the hardware index); f_wi: 0 no write_<idx>, 1 user method stores and
   returns None, 2 user method stores and returns the stored index, 3 (or more) user method follows the script of the
   fake driver (state field scr, first matching entry): requested index k -> Some k' : the hardware sets k' instead (a range
   that is locked out falls back to another one), the method stores and returns k'; -> None : the method raises
   (HardwareError) before anything is stored; no entry: k is taken over *)
Record layout := { f_labels : list label; f_ri : bool; f_wi : nat }.

Fixpoint indices (next : Z) (ls : list label) : list Z :=
  match ls with
  | [] => []
  | l :: r => let i := match fl_idx l with Some i => i | None => next end in i :: indices (i + 1)%Z r
  end.

(* valuedict in insertion order: explicit values first (first loop of __init__), parsed ones afterwards *)
Definition vdict (L : layout) : list (Z * Z) :=
  let prs := combine (indices 0%Z (f_labels L)) (f_labels L) in
  map (fun p => (fst p, fl_val (snd p))) (filter (fun p => fl_explicit (snd p)) prs) ++
  map (fun p => (fst p, fl_val (snd p))) (filter (fun p => negb (fl_explicit (snd p))) prs).

Fixpoint vlookup (k : Z) (d : list (Z * Z)) : option Z :=
  match d with [] => None | (k', v) :: r => if Z.eqb k k' then Some v else vlookup k r end.

Definition vmin (d : list (Z * Z)) : Z :=
  match d with [] => 0%Z | (_, v) :: r => fold_left (fun a p => Z.min a (snd p)) r v end.
Definition vmax (d : list (Z * Z)) : Z :=
  match d with [] => 0%Z | (_, v) :: r => fold_left (fun a p => Z.max a (snd p)) r v end.

(* python min(vdict, key=lambda i: abs(vdict[i] - value)): the first key with minimal distance *)
Fixpoint closest_from (v bk bd : Z) (d : list (Z * Z)) : Z :=
  match d with
  | [] => bk
  | (k, x) :: r => if (Z.abs (x - v) <? bd)%Z then closest_from v k (Z.abs (x - v)) r else closest_from v bk bd r
  end.
Definition closest (v : Z) (d : list (Z * Z)) : Z :=
  match d with [] => 0%Z | (k, x) :: r => closest_from v k (Z.abs (x - v)) r end.

Record state := { ci : Z; cf : Z; hwi : Z; scr : list (Z * option Z); evs : list ev }.
(* parameter ids: 0 the float parameter, 1 the index parameter *)

Definition set_hwi (s : state) (k : Z) : state := {| ci := ci s; cf := cf s; hwi := k; scr := scr s; evs := evs s |}.
Definition set_scr (s : state) (l : list (Z * option Z)) : state :=
  {| ci := ci s; cf := cf s; hwi := hwi s; scr := l; evs := evs s |}.

(* FloatEnumParam.__get__ : valuedict[index parameter value] *)
Definition shown (L : layout) (s : state) : Z := match vlookup (ci s) (vdict L) with Some v => v | None => 0%Z end.

(* announceUpdate(idx, k): store, callback trigger_setter announces the float parameter with its derived value,
   then the index update is sent *)
Definition ann_idx (L : layout) (k : Z) (s : state) : state :=
  let s1 := {| ci := k; cf := cf s; hwi := hwi s; scr := scr s; evs := evs s |} in
  let f := shown L s1 in
  {| ci := k; cf := f; hwi := hwi s; scr := scr s; evs := (1, [k]) :: (0, [f]) :: evs s |}.

Definition ann_float (v : Z) (s : state) : state :=
  {| ci := ci s; cf := v; hwi := hwi s; scr := scr s; evs := (0, [v]) :: evs s |}.

Fixpoint slookup (k : Z) (l : list (Z * option Z)) : option (option Z) :=
  match l with [] => None | (k', a) :: r => if Z.eqb k k' then Some a else slookup k r end.

(* the user method write_<idx>(k) of the fake driver: None = it raised, Some (state, index it stored = what the wrapper
   announces: the returned index, or the requested one when the method returns None / does not exist) *)
Definition drv_write (L : layout) (k : Z) (s : state) : option (state * Z) :=
  match f_wi L with
  | 0 => Some (s, k)
  | 1 | 2 => Some (set_hwi s k, k)
  | _ => match slookup k (scr s) with
         | None => Some (set_hwi s k, k)
         | Some (Some k') => Some (set_hwi s k', k')
         | Some None => None
         end
  end.

(* wrapped write_<idx>: a raising user method changes nothing (the wrapper re-raises before announcing); otherwise the
   index really set is announced and returned *)
Definition write_idx (L : layout) (k : Z) (s : state) : state * option Z :=
  match drv_write L k s with
  | None => (s, None)
  | Some (s1, k') => (ann_idx L k' s1, Some k')
  end.

Inductive op :=
| WriteF (v : Z) | WriteI (k : Z)
| ReadF (client : bool)       (* client: the reply is the cached value; driver: the value read_<float>() returns *)
| ReadI
| SetI (k : Z) | SetF (v : Z)  (* driver assignments (SetI = the driver announces the index) *)
| HwI (k : Z)
| Script (l : list (Z * option Z)).   (* the script of the fake driver changes *)

(* code 1: RangeError of the datatype, code 3: HardwareError raised by the scripted write_<idx> *)
Definition step (L : layout) (s : state) (o : op) : state * res :=
  let d := vdict L in
  match o with
  | WriteF v =>
      (* generated write_<float>: write_<idx>(closest index); return getattr(mobj, <float>), i.e. the table value of
         the index that is current AFTER write_<idx>; the wrapper announces the returned value *)
      if (v <? vmin d)%Z || (vmax d <? v)%Z then (s, RErr 1)
      else match write_idx L (closest v d) s with
           | (s1, None) => (s1, RErr 3)
           | (s1, Some _) => let r := shown L s1 in (ann_float r s1, ROk [r])
           end
  | WriteI k => match write_idx L k s with
                | (s1, None) => (s1, RErr 3)
                | (s1, Some k') => (s1, ROk [k'])
                end
  | ReadF client => (s, ROk [if client then cf s else shown L s])
  | ReadI => if f_ri L then (ann_idx L (hwi s) s, ROk [hwi s]) else (s, ROk [ci s])
  | SetI k => (ann_idx L k s, ROk [])
  | SetF v => (ann_float v s, ROk [])
  | HwI k => (set_hwi s k, ROk [])
  | Script l => (set_scr s l, ROk [])
  end.

(* initial caches: index = first enum member, float = FloatRange(min, max).default *)
Definition init (L : layout) : state :=
  let d := vdict L in
  let i0 := match indices 0%Z (f_labels L) with i :: _ => i | [] => 0%Z end in
  {| ci := i0; cf := if (vmin d <=? 0)%Z && (0 <=? vmax d)%Z then 0%Z else vmin d; hwi := i0; scr := []; evs := [] |}.

Definition run (L : layout) (ops : list op) : state := fold_left (fun s o => fst (step L s o)) ops (init L).

End Fe.

(* ------------------------------------------------------------------------------------------------ *)
(* Limit parameters                                                                                 *)
(* ------------------------------------------------------------------------------------------------ *)
Module Li.

(* The module class and its ancestors, in MRO order (most derived first; the classes of frappy itself define nothing that
   concerns a and are left out).  One class:
     c_acc    it derives from HasAccessibles, i.e. __init_subclass__ runs when the class is created (false: a plain mixin);
     c_param  it defines the base parameter a;
     c_user   the programmer wrote check_a in this class: 0 no; 1 a plausibility test only (raises RangeError when
              value % 4 == 3, returns None); 2 (or more) the plausibility test followed by self.checkLimits(value, 'a')
              (what the docstring of checkLimits asks for when no automatic call is wanted);
     c_min / c_max / c_lim   it defines a_min / a_max / a_limits = Limit(). *)
Record cls := { c_acc : bool; c_param : bool; c_user : nat; c_min : bool; c_max : bool; c_lim : bool }.

(* base parameter a with range [l_lo, l_hi]; rng is a LimitsType parameter defined next to a *)
Record layout := { l_lo : Z; l_hi : Z; l_classes : list cls }.

(* a_min / a_max / a_limits is an accessible of the module *)
Definition l_min (L : layout) : bool := existsb c_min (l_classes L).
Definition l_max (L : layout) : bool := existsb c_max (l_classes L).
Definition l_lim (L : layout) : bool := existsb c_lim (l_classes L).

Record state := { va : Z; vmin : Z; vmax : Z; vlim : Z * Z; vrng : Z * Z; evs : list ev }.
(* parameter ids: 0 a, 1 a_min, 2 a_max, 3 a_limits, 4 rng *)

Definition in_base (L : layout) (v : Z) : bool := (l_lo L <=? v)%Z && (v <=? l_hi L)%Z.

(* Module.checkLimits(value, 'a'): True = no RangeError.  The a_limits test (if the parameter exists) is followed by
   the a_min / a_max tests (no return in between) *)
Definition check_limits (L : layout) (s : state) (v : Z) : bool :=
  (if l_lim L then (fst (vlim s) <=? v)%Z && (v <=? snd (vlim s))%Z else true) &&
  (if l_min L && l_max L && (vmax s <? vmin s)%Z then false
   else negb (l_min L && (v <? vmin s)%Z) && negb (l_max L && (vmax s <? v)%Z)).

(* ---- which check_a functions the write wrapper calls: HasAccessibles.__init_subclass__, for every class of the hierarchy ----
   inst j = the generated  lambda self, value: self.checkLimits(value, 'a')  has been put into the __dict__ of class j *)
Inductive postfix := PLim | PMin | PMax.                (* for postfix in ('_limits', '_min', '_max') *)
Definition defines (pf : postfix) (c : cls) : bool :=
  match pf with PLim => c_lim c | PMin => c_min c | PMax => c_max c end.

Definition cls0 : cls := {| c_acc := false; c_param := false; c_user := 0; c_min := false; c_max := false; c_lim := false |}.

(* base = next(b for b in reversed(cls.__mro__) if limname in b.__dict__): the LAST class of the list l (positions k, k+1, ...)
   that defines the limit; None: limname is not an accessible of the class *)
Fixpoint last_def (pf : postfix) (l : list cls) (k : nat) : option nat :=
  match l with
  | [] => None
  | c :: r => match last_def pf r (S k) with
              | Some j => Some j
              | None => if defines pf c then Some k else None
              end
  end.

(* cname in base.__dict__ : a user written check_a, or the generated one put there earlier *)
Definition in_dict (cs : list cls) (inst : list bool) (j : nat) : bool :=
  negb (Nat.eqb (c_user (nth j cs cls0)) 0) || nth j inst false.

(* body of the postfix loop for the class at position k (its MRO is the list from k on):
   if limname in accessibles: base = ...; if cname not in base.__dict__: setattr(base, cname, <generated check>) *)
Definition treat_postfix (cs : list cls) (k : nat) (inst : list bool) (pf : postfix) : list bool :=
  match last_def pf (skipn k cs) k with
  | Some j => if in_dict cs inst j then inst else set_nth j true inst
  | None => inst
  end.

(* __init_subclass__ of the class at position k: the loop over the accessibles reaches pname = a only when a is an accessible
   of this class *)
Definition init_subclass (cs : list cls) (inst : list bool) (k : nat) : list bool :=
  if c_acc (nth k cs cls0) && existsb c_param (skipn k cs)
  then fold_left (treat_postfix cs k) [PLim; PMin; PMax] inst
  else inst.

(* the classes are created from the most ancestral one to the module class *)
Definition install (cs : list cls) : list bool :=
  fold_left (init_subclass cs) (rev (seq 0 (length cs))) (repeat false (length cs)).

Inductive check := CkAuto | CkUser (kind : nat).

(* cfuncs = tuple(filter(None, (b.__dict__.get(cname) for b in cls.__mro__))) of the module class (created last) *)
Definition chain_at (cs : list cls) (inst : list bool) (j : nat) : list check :=
  match c_user (nth j cs cls0) with
  | 0 => if nth j inst false then [CkAuto] else []
  | S k => [CkUser (S k)]
  end.
Definition chain (cs : list cls) : list check := flat_map (chain_at cs (install cs)) (seq 0 (length cs)).

Definition plausible (v : Z) : bool := negb (Z.eqb (Z.modulo v 4) 3).

Definition pass (L : layout) (s : state) (v : Z) (c : check) : bool :=
  match c with
  | CkAuto => check_limits L s v
  | CkUser 0 => true
  | CkUser 1 => plausible v
  | CkUser _ => plausible v && check_limits L s v
  end.

(* for c in check_funcs: if c(self, value): break  -- no check function of the modelled kinds returns a true value, so
   every one of them is called; the first one that raises refuses the write *)
Definition run_checks (L : layout) (s : state) (v : Z) : bool := forallb (pass L s v) (chain (l_classes L)).

Inductive op :=
| WriteA (v : Z) | WriteMin (v : Z) | WriteMax (v : Z) | WriteLim (lo hi : Z) | WriteRng (lo hi : Z)
| SetMin (v : Z) | SetMax (v : Z) | SetLim (lo hi : Z).     (* driver assignments to limit parameters: not range checked *)

Definition upd (s : state) (p : nat) (a mn mx : Z) (lim rng : Z * Z) (e : list Z) : state :=
  {| va := a; vmin := mn; vmax := mx; vlim := lim; vrng := rng; evs := (p, e) :: evs s |}.

Definition step (L : layout) (s : state) (o : op) : state * res :=
  match o with
  | WriteA v =>
      if in_base L v && run_checks L s v
      then (upd s 0 v (vmin s) (vmax s) (vlim s) (vrng s) [v], ROk [v]) else (s, RErr 1)
  | WriteMin v =>
      if negb (l_min L) then (s, RErr 9) else
      if in_base L v then (upd s 1 (va s) v (vmax s) (vlim s) (vrng s) [v], ROk [v]) else (s, RErr 1)
  | WriteMax v =>
      if negb (l_max L) then (s, RErr 9) else
      if in_base L v then (upd s 2 (va s) (vmin s) v (vlim s) (vrng s) [v], ROk [v]) else (s, RErr 1)
  | WriteLim lo hi =>
      if negb (l_lim L) then (s, RErr 9) else
      if in_base L lo && in_base L hi          (* the datatype is TupleOf(base, base): order is not checked *)
      then (upd s 3 (va s) (vmin s) (vmax s) (lo, hi) (vrng s) [lo; hi], ROk [lo; hi]) else (s, RErr 1)
  | WriteRng lo hi =>
      if in_base L lo && in_base L hi && negb (hi <? lo)%Z      (* LimitsType.validate *)
      then (upd s 4 (va s) (vmin s) (vmax s) (vlim s) (lo, hi) [lo; hi], ROk [lo; hi]) else (s, RErr 1)
  | SetMin v => if l_min L then (upd s 1 (va s) v (vmax s) (vlim s) (vrng s) [v], ROk []) else (s, RErr 9)
  | SetMax v => if l_max L then (upd s 2 (va s) (vmin s) v (vlim s) (vrng s) [v], ROk []) else (s, RErr 9)
  | SetLim lo hi => if l_lim L then (upd s 3 (va s) (vmin s) (vmax s) (lo, hi) (vrng s) [lo; hi], ROk []) else (s, RErr 9)
  end.

(* Limit.set_datatype: defaults are the bounds of the base datatype *)
Definition init (L : layout) : state :=
  {| va := 0%Z; vmin := l_lo L; vmax := l_hi L; vlim := (l_lo L, l_hi L); vrng := (0%Z, 0%Z); evs := [] |}.

Definition run (L : layout) (ops : list op) : state := fold_left (fun s o => fst (step L s o)) ops (init L).

End Li.

(* ------------------------------------------------------------------------------------------------ *)
(* Control hand-over                                                                                *)
(* ------------------------------------------------------------------------------------------------ *)
Module Co.

(* controllers attached to one output; controller j is the one registered j-th (controlled_by member S j).
   kinds j: what cj.set_control_active(False) does besides clearing the flag:
     0 nothing; 1 it first writes the safe value 0 to the output's target (the output then calls self_controlled in the
     middle of whatever is going on, as frappy_psi.picontrol does); 2 it raises (HardwareError) while cfail j is set *)
Record state := { by_ : nat; act : list bool; otarget : Z; ctarget : list Z; cfail : list bool; evs : list ev }.
(* parameter ids: 0 out.controlled_by, 1 out.target, 10+2j cj.control_active, 11+2j cj.target *)

Definition off (j : nat) (s : state) : state :=       (* self.control_active = False *)
  {| by_ := by_ s; act := set_nth j false (act s); otarget := otarget s; ctarget := ctarget s; cfail := cfail s;
     evs := (10 + 2 * j, [0%Z]) :: evs s |}.

(* the output's wrapped write_target when controlled_by is already self: self_controlled does nothing *)
Definition out_write_idle (v : Z) (s : state) : state :=
  {| by_ := by_ s; act := act s; otarget := v; ctarget := ctarget s; cfail := cfail s; evs := (1, [v]) :: evs s |}.

Definition name_self (s : state) : state :=           (* self.controlled_by = 0 *)
  {| by_ := 0; act := act s; otarget := otarget s; ctarget := ctarget s; cfail := cfail s; evs := (0, [0%Z]) :: evs s |}.

(* the loop over the registered deactivate_control callbacks, in registration order, except [skip];
   f j = cj.set_control_active(False), called only when cj.control_active is set; false = it raised (the loop is left) *)
Fixpoint dloop (f : nat -> state -> state * bool) (skip : option nat) (idx : list nat) (s : state) : state * bool :=
  match idx with
  | [] => (s, true)
  | j :: r =>
      if (match skip with Some i => Nat.eqb i j | None => false end) || negb (nth j (act s) false)
      then dloop f skip r s
      else match f j s with
           | (s1, true) => dloop f skip r s1
           | (s1, false) => (s1, false)
           end
  end.

(* set_control_active(False) while the output names self (inside self_controlled): a nested write of the output's
   target finds controlled_by = 0 *)
Definition set_inactive0 (kinds : list nat) (j : nat) (s : state) : state * bool :=
  match nth j kinds 0 with
  | 1 => (off j (out_write_idle 0%Z s), true)
  | 2 => if nth j (cfail s) false then (s, false) else (off j s, true)
  | _ => (off j s, true)
  end.

(* the output's wrapped write_target: user method calls self_controlled, then the wrapper announces the target *)
Definition out_write (kinds : list nat) (v : Z) (s : state) : state * bool :=
  match by_ s with
  | O => (out_write_idle v s, true)
  | S _ =>
      match dloop (set_inactive0 kinds) None (seq 0 (length kinds)) (name_self s) with
      | (s1, true) => (out_write_idle v s1, true)
      | (s1, false) => (s1, false)
      end
  end.

(* set_control_active(False) in general *)
Definition set_inactive1 (kinds : list nat) (j : nat) (s : state) : state * bool :=
  match nth j kinds 0 with
  | 1 => match out_write kinds 0%Z s with
         | (s1, true) => (off j s1, true)
         | (s1, false) => (s1, false)
         end
  | _ => set_inactive0 kinds j s
  end.

Inductive op :=
| WriteT (i : nat) (v : Z)      (* write target of controller i: user write_target calls activate_control *)
| WriteO (v : Z)                (* write target of the output: user write_target calls self_controlled *)
| UpdT (i : nat) (v : Z)        (* controller i calls out.update_target(name, v) *)
| CFault (f : list bool).       (* the fault script changes *)

Definition step (kinds : list nat) (s : state) (o : op) : state * res :=
  match o with
  | WriteT i v =>
      (* activate_control: every other input is deactivated first, then out.controlled_by = name, then
         set_control_active(True); finally the wrapper announces target *)
      match dloop (set_inactive1 kinds) (Some i) (seq 0 (length kinds)) s with
      | (s1, true) =>
          ({| by_ := S i; act := set_nth i true (act s1); otarget := otarget s1; ctarget := set_nth i v (ctarget s1);
              cfail := cfail s1;
              evs := (11 + 2 * i, [v]) :: (10 + 2 * i, [1%Z]) :: (0, [Z.of_nat (S i)]) :: evs s1 |}, ROk [v])
      | (s1, false) => (s1, RErr 3)
      end
  | WriteO v =>
      match out_write kinds v s with
      | (s1, true) => (s1, ROk [v])
      | (s1, false) => (s1, RErr 3)
      end
  | UpdT i v =>
      (* inputCallbacks.get(self.controlled_by) never finds an entry (keys are names, the key offered is the enum
         member, hashed by its number), so nobody is switched off; controlled_by is not changed *)
      (out_write_idle v s, ROk [])
  | CFault f =>
      ({| by_ := by_ s; act := act s; otarget := otarget s; ctarget := ctarget s; cfail := f; evs := evs s |}, ROk [])
  end.

Definition init (kinds : list nat) : state :=
  let n := length kinds in
  {| by_ := 0; act := repeat false n; otarget := 0%Z; ctarget := repeat 0%Z n; cfail := []; evs := [] |}.

Definition run (kinds : list nat) (ops : list op) : state := fold_left (fun s o => fst (step kinds s o)) ops (init kinds).

End Co.

(* ------------------------------------------------------------------------------------------------ *)
(* A node with SEVERAL output modules, each with its own controllers                                 *)
(* ------------------------------------------------------------------------------------------------ *)
Module Mo.

(* layout: one list of controller kinds per output module.  register_input creates inputCallbacks on the INSTANCE
   (source fact input_callbacks_per_instance), so every loop over the registered callbacks of output k reaches the
   controllers of output k only: an operation addressed to output k is Co.step on the k-th component.
   Events of output k carry the parameter id of Co plus 100 * k. *)
Record state := { outs : list Co.state; log : list ev }.

Definition tag (k : nat) (e : ev) : ev := (fst e + 100 * k, snd e).
Definition co0 : Co.state := Co.init [].

Definition step (Ls : list (list nat)) (s : state) (ko : nat * Co.op) : state * res :=
  let '(k, o) := ko in
  if k <? length (outs s) then
    let c := nth k (outs s) co0 in
    let '(c', r) := Co.step (nth k Ls []) c o in
    let fresh := firstn (length (Co.evs c') - length (Co.evs c)) (Co.evs c') in
    ({| outs := set_nth k c' (outs s); log := map (tag k) fresh ++ log s |}, r)
  else (s, RErr 9).

Definition init (Ls : list (list nat)) : state := {| outs := map Co.init Ls; log := [] |}.
Definition run (Ls : list (list nat)) (ops : list (nat * Co.op)) : state :=
  fold_left (fun s o => fst (step Ls s o)) ops (init Ls).

(* the operations of a history that are addressed to output k *)
Fixpoint ops_for (k : nat) (ops : list (nat * Co.op)) : list Co.op :=
  match ops with
  | [] => []
  | (k', o) :: r => if Nat.eqb k' k then o :: ops_for k r else ops_for k r
  end.

End Mo.

(* ------------------------------------------------------------------------------------------------ *)
(* Two threads on one module with a struct parameter (accessLock)                                    *)
(* ------------------------------------------------------------------------------------------------ *)
Module Cs.

(* Every wrapped read_ / write_ method is  [acquire accessLock; body; release]  (source fact
   read_wrapper_announces_inside_access_lock: the announceUpdate calls are inside the with statement).
   A thread works through its program; per operation it makes three moves:
     phase 0 -> 1  acquire (only when nobody holds the lock; otherwise the thread stays blocked = the move is a stutter)
     phase 1 -> 2  first part of the body; for read_<struct> of the layout without combined methods this is the
                   collection of the members (nr_read_all), the result is kept in [pend]; for every other operation
                   it is the whole body
     phase 2 -> 0  rest of the body (read_<struct>: announceUpdate of the collected dict, or of the error), release,
                   the operation is appended to the linearisation [lin]
   A schedule is a list of thread choices (false = thread A, true = thread B). *)
Record thread := { todo : list St.op; phase : nat; pend : option (list Z) }.
Record state := { sst : St.state; holder : option bool; ta : thread; tb : thread; lin : list St.op }.

Definition split_read (L : St.layout) (o : St.op) : bool :=
  match o with St.ReadS => negb (St.sl_rw L) | _ => false end.

Definition collect (L : St.layout) (o : St.op) (s : St.state) : St.state * option (list Z) :=
  if split_read L o then St.nr_read_all L (seq 0 (St.sl_n L)) s else (fst (St.step L s o), None).

Definition finish (L : St.layout) (o : St.op) (p : option (list Z)) (s : St.state) : St.state :=
  if split_read L o then match p with Some vs => St.ann_struct_quiet vs s | None => St.ann_err_struct s end else s.

Definition get (c : state) (t : bool) : thread := if t then tb c else ta c.
Definition put (c : state) (t : bool) (th : thread) (s : St.state) (h : option bool) (l : list St.op) : state :=
  if t then {| sst := s; holder := h; ta := ta c; tb := th; lin := l |}
  else {| sst := s; holder := h; ta := th; tb := tb c; lin := l |}.

Definition move (L : St.layout) (c : state) (t : bool) : state :=
  let th := get c t in
  match todo th with
  | [] => c
  | o :: rest =>
      match phase th with
      | 0 => match holder c with
             | None => put c t {| todo := todo th; phase := 1; pend := None |} (sst c) (Some t) (lin c)
             | Some _ => c
             end
      | 1 => let '(s1, p) := collect L o (sst c) in
             put c t {| todo := todo th; phase := 2; pend := p |} s1 (holder c) (lin c)
      | _ => put c t {| todo := rest; phase := 0; pend := None |} (finish L o (pend th) (sst c)) None (o :: lin c)
      end
  end.

Definition init (L : St.layout) (pa pb : list St.op) : state :=
  {| sst := St.init L; holder := None; ta := {| todo := pa; phase := 0; pend := None |};
     tb := {| todo := pb; phase := 0; pend := None |}; lin := [] |}.

Definition run (L : St.layout) (pa pb : list St.op) (sched : list bool) : state :=
  fold_left (move L) sched (init L pa pb).

Definition quiescent (c : state) : bool :=
  match todo (ta c), todo (tb c) with [], [] => true | _, _ => false end.

End Cs.
