(* C18 - two threads, accessLock: mutual exclusion invariant; every schedule is a serial execution of the operations
   in the order in which the lock was released *)
From Coq Require Import List Arith ZArith Bool Lia.
Import ListNotations.
Require Import FV.C18.Model FV.C18.LemmasSt.
Import Cs.

Lemma run_snoc : forall L ops o, St.run L (ops ++ [o]) = fst (St.step L (St.run L ops) o).
Proof. intros. unfold St.run. now rewrite fold_left_app. Qed.

(* the two halves of the body are the body *)
Lemma split_ok : forall L o s, finish L o (snd (collect L o s)) (fst (collect L o s)) = fst (St.step L s o).
Proof.
  intros L o s. unfold collect, finish. destruct (split_read L o) eqn:E; [|reflexivity].
  destruct o; simpl in E; try discriminate. apply negb_true_iff in E. simpl. rewrite E.
  unfold St.nr_read_struct. destruct (St.nr_read_all L (seq 0 (St.sl_n L)) s) as (s1, [vs|]); reflexivity.
Qed.

Section PutGet.
  Variables (c : state) (t : bool) (th : thread) (s : St.state) (h : option bool) (l : list St.op).
  Lemma get_put : get (put c t th s h l) t = th.  Proof. destruct t; reflexivity. Qed.
  Lemma get_put_other : get (put c t th s h l) (negb t) = get c (negb t).  Proof. destruct t; reflexivity. Qed.
  Lemma sst_put : sst (put c t th s h l) = s.  Proof. destruct t; reflexivity. Qed.
  Lemma holder_put : holder (put c t th s h l) = h.  Proof. destruct t; reflexivity. Qed.
  Lemma lin_put : lin (put c t th s h l) = l.  Proof. destruct t; reflexivity. Qed.
End PutGet.

(* nobody holds the lock: both threads are outside and the module state is the serial run of the linearisation;
   thread t holds it: the other thread is outside, t is at an operation o, and either has not touched the state yet or
   finishing o gives the serial run extended by o *)
Definition Inv (L : St.layout) (c : state) : Prop :=
  match holder c with
  | None => (forall u, phase (get c u) = 0) /\ sst c = St.run L (rev (lin c))
  | Some t => phase (get c (negb t)) = 0 /\
      exists o rest, todo (get c t) = o :: rest /\
        ((phase (get c t) = 1 /\ sst c = St.run L (rev (lin c))) \/
         (phase (get c t) = 2 /\ finish L o (pend (get c t)) (sst c) = St.run L (rev (o :: lin c))))
  end.

Lemma init_inv : forall L pa pb, Inv L (init L pa pb).
Proof. intros. unfold Inv; simpl. split; [intros [|]; reflexivity|reflexivity]. Qed.

Lemma inside_holds : forall L c t, Inv L c -> phase (get c t) <> 0 -> holder c = Some t.
Proof.
  intros L c t HI Hp. unfold Inv in HI. destruct (holder c) as [u|].
  - destruct HI as (H0 & _). destruct t, u; simpl in *; congruence.
  - destruct HI as (H0 & _). now rewrite H0 in Hp.
Qed.

Lemma move_inv : forall L c t, Inv L c -> Inv L (move L c t).
Proof.
  intros L c t HI. unfold move. destruct (todo (get c t)) as [|o rest] eqn:Et; [exact HI|].
  destruct (phase (get c t)) as [|[|n]] eqn:Ep.
  - destruct (holder c) eqn:Eh; [exact HI|]. unfold Inv in *. rewrite Eh in HI. destruct HI as (H0 & Hs).
    rewrite holder_put, get_put_other, get_put, sst_put, lin_put. split; [apply H0|].
    exists o, rest. simpl. split; [reflexivity|]. left. auto.
  - assert (Hh : holder c = Some t) by (apply (inside_holds L); [exact HI|rewrite Ep; discriminate]).
    pose proof (split_ok L o (sst c)) as Hsp. destruct (collect L o (sst c)) as (s1, p). simpl in Hsp.
    unfold Inv in *. rewrite Hh in HI. destruct HI as (H0 & o' & rest' & Ht & Hc).
    rewrite Et in Ht. injection Ht as <- <-.
    rewrite holder_put, Hh, get_put_other, get_put, sst_put, lin_put. split; [exact H0|].
    exists o, rest. simpl. split; [reflexivity|]. right. split; [reflexivity|].
    destruct Hc as [(_ & Hs)|(Hp & _)]; [|rewrite Ep in Hp; discriminate].
    simpl rev. rewrite run_snoc, <- Hs. exact Hsp.
  - assert (Hh : holder c = Some t) by (apply (inside_holds L); [exact HI|rewrite Ep; discriminate]).
    unfold Inv in *. rewrite Hh in HI. destruct HI as (H0 & o' & rest' & Ht & Hc).
    rewrite Et in Ht. injection Ht as <- <-.
    rewrite holder_put, sst_put, lin_put.
    destruct Hc as [(Hp & _)|(Hp & Hf)]; [rewrite Ep in Hp; discriminate|].
    split; [|exact Hf].
    intros u. destruct (Bool.bool_dec u t) as [->|Hne].
    + now rewrite get_put.
    + assert (u = negb t) as -> by (destruct u, t; simpl; congruence). rewrite get_put_other. exact H0.
Qed.

Lemma run_inv : forall L pa pb sched, Inv L (run L pa pb sched).
Proof.
  intros L pa pb sched. unfold run. generalize (init_inv L pa pb). generalize (init L pa pb).
  induction sched as [|t r IH]; intros c HI; simpl; auto. apply IH. now apply move_inv.
Qed.

(* consequences of the invariant *)
Lemma mutual_exclusion : forall L c, Inv L c ->
  (forall t u, phase (get c t) <> 0 -> phase (get c u) <> 0 -> t = u) /\
  (holder c = None <-> forall t, phase (get c t) = 0).
Proof.
  intros L c HI. split.
  - intros t u Ht Hu. pose proof (inside_holds L c t HI Ht). pose proof (inside_holds L c u HI Hu). congruence.
  - split.
    + intros Hn. unfold Inv in HI. rewrite Hn in HI. apply HI.
    + intros H0. unfold Inv in HI. destruct (holder c) as [t|]; [|reflexivity].
      destruct HI as (_ & o & rest & _ & [(Hp & _)|(Hp & _)]); rewrite H0 in Hp; discriminate.
Qed.

Lemma quiescent_free : forall L c, Inv L c -> quiescent c = true -> holder c = None.
Proof.
  intros L c HI Hq. unfold Inv in HI. destruct (holder c) as [t|]; [|reflexivity].
  destruct HI as (_ & o & rest & Ht & _). unfold quiescent in Hq.
  destruct t; simpl in Ht; rewrite Ht in Hq; [destruct (todo (ta c))|]; discriminate.
Qed.

Lemma serial_when_free : forall L c, Inv L c -> holder c = None -> sst c = St.run L (rev (lin c)).
Proof. intros L c HI Hn. unfold Inv in HI. rewrite Hn in HI. apply HI. Qed.
