(* C18 - witnesses of the places where the pinned code (faithfully modelled) violates the property.
   Each corresponds to one open entry of findings/C18.json and to the guard of the positive theorem. *)
From Coq Require Import List Arith ZArith Bool Lia.
Import ListNotations.
Require Import FV.C18.Model FV.C18.LemmasSt FV.C18.LemmasFe FV.C18.LemmasLi FV.C18.LemmasCo.

(* layout without combined read/write methods: the driver assigns the struct, the members keep their old values *)
Definition L_members : St.layout :=
  {| St.sl_n := 1; St.sl_rw := false; St.sl_sr := false; St.sl_sw := false; St.sl_mr := [true]; St.sl_mw := [true];
     St.sl_lo := (-100)%Z; St.sl_hi := 100%Z |}.
Theorem C18_refuted_struct_assign_without_combined_methods :
  exists L ops, Forall (LemmasSt.op_wf L) ops /\ nth 0 (St.cst (St.run L ops)) 0%Z <> nth 0 (St.cmem (St.run L ops)) 0%Z.
Proof. exists L_members, [St.SetS [5%Z]]. split; [repeat constructor|]. vm_compute. discriminate. Qed.

(* combined layout: the driver assigns a member, the struct keeps its old value *)
Definition L_combined : St.layout :=
  {| St.sl_n := 1; St.sl_rw := true; St.sl_sr := true; St.sl_sw := true; St.sl_mr := [false]; St.sl_mw := [false];
     St.sl_lo := (-100)%Z; St.sl_hi := 100%Z |}.
Theorem C18_refuted_member_assign_with_combined_methods :
  exists L ops, Forall (LemmasSt.op_wf L) ops /\ nth 0 (St.cst (St.run L ops)) 0%Z <> nth 0 (St.cmem (St.run L ops)) 0%Z.
Proof. exists L_combined, [St.SetM 0 5%Z]. split; [repeat constructor|]. vm_compute. discriminate. Qed.

(* a descending table ('1', '0.5'): index 0 means 1.0, but the cache of the fresh module holds the datatype default 0.5 *)
Definition L_desc : Fe.layout :=
  {| Fe.f_labels := [ {| Fe.fl_idx := None; Fe.fl_explicit := false; Fe.fl_val := 2%Z |};
                      {| Fe.fl_idx := None; Fe.fl_explicit := false; Fe.fl_val := 1%Z |} ];
     Fe.f_ri := false; Fe.f_wi := 0 |}.
Theorem C18_refuted_floatenum_initial_cache : exists L, ~ LemmasFe.consistent L (Fe.init L).
Proof. exists L_desc. vm_compute. discriminate. Qed.

(* the driver assigns the float parameter itself: the cache no longer belongs to the index *)
Theorem C18_refuted_floatenum_assign_float :
  exists L pre v, LemmasFe.consistent L (Fe.run L pre) /\ ~ LemmasFe.consistent L (Fe.run L (pre ++ [Fe.SetF v])).
Proof. exists L_desc, [Fe.SetI 0%Z], 1%Z. split; vm_compute; [reflexivity|discriminate]. Qed.

(* generated write_<struct>: the second member write raises after the first member was written *)
Definition L_two : St.layout :=
  {| St.sl_n := 2; St.sl_rw := false; St.sl_sr := false; St.sl_sw := false; St.sl_mr := [true; true]; St.sl_mw := [true; true];
     St.sl_lo := (-100)%Z; St.sl_hi := 100%Z |}.
Theorem C18_refuted_struct_write_partial_failure :
  exists L ops, Forall (LemmasSt.op_wf L) ops /\ Forall (LemmasSt.op_safe L) ops /\
    St.est (St.run L ops) = false /\ nth 0 (St.cst (St.run L ops)) 0%Z <> nth 0 (St.cmem (St.run L ops)) 0%Z.
Proof.
  exists L_two, [St.Fault [] [false; true]; St.WriteS [5%Z; 6%Z]].
  split; [repeat constructor|]. split; [repeat constructor|]. vm_compute. split; [reflexivity|discriminate].
Qed.

(* generated read_<struct>: the second member read raises after the first member was refreshed; the struct is in error
   state; the next update of the other member republishes the struct with the stale first member *)
Theorem C18_refuted_struct_read_partial_failure :
  exists L ops, Forall (LemmasSt.op_wf L) ops /\ Forall (LemmasSt.op_safe L) ops /\
    St.est (St.run L ops) = false /\ nth 0 (St.cst (St.run L ops)) 0%Z <> nth 0 (St.cmem (St.run L ops)) 0%Z.
Proof.
  exists L_two, [St.Hw [5%Z; 6%Z]; St.Fault [false; true] []; St.ReadS; St.Fault [] []; St.ReadM 1].
  split; [repeat constructor|]. split; [repeat constructor|]. vm_compute. split; [reflexivity|discriminate].
Qed.

(* the output's own target is written while the switch-off of the controlling module raises: self_controlled has
   already set controlled_by = self, the controller stays marked *)
Theorem C18_refuted_self_controlled_switch_off_fails :
  exists kinds ops, Forall (LemmasCo.op_wf kinds) ops /\
    Co.by_ (Co.run kinds ops) = 0 /\ nth 0 (Co.act (Co.run kinds ops)) false = true.
Proof.
  exists [2], [Co.WriteT 0 1%Z; Co.CFault [true]; Co.WriteO 2%Z].
  split; [repeat constructor|]. vm_compute. split; reflexivity.
Qed.
