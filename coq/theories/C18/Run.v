(* C18 - correspondence driver: a case carries a layout, an operation history and what the implementation
   did after each operation (result, update events in order, cached values of all parameters);
   check_case re-runs the model and compares everything. *)
From Coq Require Import List Arith ZArith Bool.
Import ListNotations.
Require Import FV.Base.Util FV.Gen.C18 FV.C18.Model.

Definition zl_eqb := list_eqb Z.eqb.
Definition ev_eqb (a b : ev) : bool := Nat.eqb (fst a) (fst b) && zl_eqb (snd a) (snd b).
Definition res_eqb (a b : res) : bool :=
  match a, b with
  | ROk x, ROk y => zl_eqb x y
  | RErr x, RErr y => Nat.eqb x y
  | _, _ => false
  end.

Record obs := { o_res : res; o_evs : list ev; o_snap : list (list Z) }.

Section Generic.
  Context {S O : Type}.
  Variable step : S -> O -> S * res.
  Variable evs_of : S -> list ev.
  Variable snap : S -> list (list Z).

  Definition obs_ok (before after : S) (r : res) (o : obs) : bool :=
    let n := length (evs_of after) - length (evs_of before) in
    res_eqb r (o_res o)
    && list_eqb ev_eqb (rev (firstn n (evs_of after))) (o_evs o)
    && list_eqb zl_eqb (snap after) (o_snap o).

  Fixpoint run_check (s : S) (ops : list O) (os : list obs) : bool :=
    match ops, os with
    | [], [] => true
    | o :: ops', ob :: os' =>
        let '(s', r) := step s o in obs_ok s s' r ob && run_check s' ops' os'
    | _, _ => false
    end.

  Fixpoint run_trace (s : S) (ops : list O) : list (res * list (list Z)) :=
    match ops with
    | [] => []
    | o :: ops' => let '(s', r) := step s o in (r, snap s') :: run_trace s' ops'
    end.
End Generic.

Definition st_snap (s : St.state) : list (list Z) := [St.cst s; St.cmem s; zb (St.est s) :: map zb (St.emem s)].
Definition fe_snap (L : Fe.layout) (s : Fe.state) : list (list Z) := [[Fe.cf s]; [Fe.ci s]; [Fe.shown L s]].
Definition li_snap (s : Li.state) : list (list Z) :=
  [[Li.va s]; [Li.vmin s]; [Li.vmax s]; [fst (Li.vlim s); snd (Li.vlim s)]; [fst (Li.vrng s); snd (Li.vrng s)]].
Definition co_snap (s : Co.state) : list (list Z) :=
  [[Z.of_nat (Co.by_ s)]; map zb (Co.act s); [Co.otarget s]; Co.ctarget s].

Definition mo_snap (s : Mo.state) : list (list Z) := flat_map co_snap (Mo.outs s).

(* a case: the initial snapshot observed on the freshly built module, then one observation per operation *)
Inductive case :=
| CaseSt (L : St.layout) (ops : list St.op) (init : list (list Z)) (os : list obs)
| CaseFe (L : Fe.layout) (ops : list Fe.op) (init : list (list Z)) (os : list obs)
| CaseLi (L : Li.layout) (ops : list Li.op) (init : list (list Z)) (os : list obs)
| CaseCo (kinds : list nat) (ops : list Co.op) (init : list (list Z)) (os : list obs)
(* a node with several outputs: operations are addressed (output number, operation) *)
| CaseMo (Ls : list (list nat)) (ops : list (nat * Co.op)) (init : list (list Z)) (os : list obs)
(* two threads on a struct module: programs of thread A / B, the schedule (three moves per operation, in the order in
   which the implementation's threads got the accessLock), snapshot and complete update stream at quiescence *)
| CaseCs (L : St.layout) (pa pb : list St.op) (sched : list bool) (init : list (list Z)) (final : list (list Z))
         (evs : list ev).

Definition check_case (c : case) : bool :=
  match c with
  | CaseSt L ops i os =>
      list_eqb zl_eqb (st_snap (St.init L)) i && run_check (St.step L) St.evs st_snap (St.init L) ops os
  | CaseFe L ops i os =>
      list_eqb zl_eqb (fe_snap L (Fe.init L)) i && run_check (Fe.step L) Fe.evs (fe_snap L) (Fe.init L) ops os
  | CaseLi L ops i os =>
      list_eqb zl_eqb (li_snap (Li.init L)) i && run_check (Li.step L) Li.evs li_snap (Li.init L) ops os
  | CaseCo k ops i os =>
      list_eqb zl_eqb (co_snap (Co.init k)) i && run_check (Co.step k) Co.evs co_snap (Co.init k) ops os
  | CaseMo Ls ops i os =>
      list_eqb zl_eqb (mo_snap (Mo.init Ls)) i && run_check (Mo.step Ls) Mo.log mo_snap (Mo.init Ls) ops os
  | CaseCs L pa pb sched i final evs =>
      let c := Cs.run L pa pb sched in
      list_eqb zl_eqb (st_snap (St.init L)) i && Cs.quiescent c
      && list_eqb zl_eqb (st_snap (Cs.sst c)) final && list_eqb ev_eqb (rev (St.evs (Cs.sst c))) evs
  end.

(* what the model does, for diagnosis in replay files *)
Definition model_result (c : case) : list (res * list (list Z)) :=
  match c with
  | CaseSt L ops _ _ => run_trace (St.step L) st_snap (St.init L) ops
  | CaseFe L ops _ _ => run_trace (Fe.step L) (fe_snap L) (Fe.init L) ops
  | CaseLi L ops _ _ => run_trace (Li.step L) li_snap (Li.init L) ops
  | CaseCo k ops _ _ => run_trace (Co.step k) co_snap (Co.init k) ops
  | CaseMo Ls ops _ _ => run_trace (Mo.step Ls) mo_snap (Mo.init Ls) ops
  | CaseCs L pa pb sched _ _ _ =>
      let c := Cs.run L pa pb sched in
      [(ROk (map (fun e => Z.of_nat (fst e)) (rev (St.evs (Cs.sst c)))), st_snap (Cs.sst c))]
  end.
