(* C18 - several output modules: frame theorem (operations on one output leave every other output alone) *)
From Coq Require Import List Arith ZArith Bool Lia.
Import ListNotations.
Require Import FV.C18.Model FV.C18.LemmasCo.
Import Mo.

Lemma set_nth_length : forall A (l : list A) i v, length (set_nth i v l) = length l.
Proof. induction l as [|x l IH]; intros [|i] v; simpl; auto. Qed.

Lemma nth_set_nth_eq : forall A (l : list A) i v d, i < length l -> nth i (set_nth i v l) d = v.
Proof. induction l as [|x l IH]; intros [|i] v d H; simpl in *; try lia; auto. apply IH. lia. Qed.

Lemma nth_set_nth_neq : forall A (l : list A) i j v d, i <> j -> nth j (set_nth i v l) d = nth j l d.
Proof. induction l as [|x l IH]; intros [|i] [|j] v d H; simpl; auto; try lia. Qed.

(* one step: the addressed component makes the Co step, every other component is untouched *)
Lemma step_frame : forall Ls s k o k', k' <> k -> nth k' (outs (fst (step Ls s (k, o)))) co0 = nth k' (outs s) co0.
Proof.
  intros Ls s k o k' H. unfold step. destruct (k <? length (outs s)); [|reflexivity].
  destruct (Co.step (nth k Ls []) (nth k (outs s) co0) o) as (c', r). simpl. apply nth_set_nth_neq. auto.
Qed.

Lemma step_own : forall Ls s k o, k < length (outs s) ->
  nth k (outs (fst (step Ls s (k, o)))) co0 = fst (Co.step (nth k Ls []) (nth k (outs s) co0) o).
Proof.
  intros Ls s k o H. unfold step. apply Nat.ltb_lt in H as H'. rewrite H'.
  destruct (Co.step (nth k Ls []) (nth k (outs s) co0) o) as (c', r). simpl. now apply nth_set_nth_eq.
Qed.

Lemma step_length : forall Ls s ko, length (outs (fst (step Ls s ko))) = length (outs s).
Proof.
  intros Ls s (k, o). unfold step. destruct (k <? length (outs s)); [|reflexivity].
  destruct (Co.step (nth k Ls []) (nth k (outs s) co0) o) as (c', r). simpl. apply set_nth_length.
Qed.

(* every history: component k of the node = the single output model run on the operations addressed to k *)
Lemma fold_proj : forall Ls ops s k, k < length (outs s) ->
  nth k (outs (fold_left (fun s o => fst (step Ls s o)) ops s)) co0 =
  fold_left (fun c o => fst (Co.step (nth k Ls []) c o)) (ops_for k ops) (nth k (outs s) co0).
Proof.
  induction ops as [|(k', o) ops IH]; intros s k H; [reflexivity|].
  cbn [fold_left ops_for].
  rewrite IH by (rewrite step_length; exact H).
  destruct (Nat.eqb k' k) eqn:E.
  - apply Nat.eqb_eq in E. subst k'. cbn [fold_left]. now rewrite step_own.
  - apply Nat.eqb_neq in E. rewrite step_frame by auto. reflexivity.
Qed.

Lemma run_proj : forall Ls ops k, k < length Ls ->
  nth k (outs (run Ls ops)) co0 = Co.run (nth k Ls []) (ops_for k ops).
Proof.
  intros Ls ops k H. unfold run, Co.run. rewrite fold_proj by (simpl; now rewrite map_length).
  f_equal. simpl. change co0 with (Co.init []). now rewrite map_nth.
Qed.

(* a history that contains nothing for output k leaves it in its initial state; more generally two histories with
   the same operations for k agree on k whatever they do to the other outputs *)
Lemma run_independent : forall Ls ops ops' k, k < length Ls -> ops_for k ops = ops_for k ops' ->
  nth k (outs (run Ls ops)) co0 = nth k (outs (run Ls ops')) co0.
Proof. intros. rewrite !run_proj by auto. congruence. Qed.
