(* C18 - vacuity audit.  Every theorem of Properties.v that has premises is APPLIED at a concrete instance: a layout of the
   kind the harness generates (harness/props/C18.py gen_*_layout; Run.check_case starts every case at St.init / Fe.init /
   Li.init / Co.init of such a layout - C18 has no oracles, environments or Section variables with laws), a history of
   10..19 operations that reaches the state, and - where the conclusion is a case distinction - one instance per branch, with
   a computed companion example saying which branch is taken.  All premises are closed by vm_compute / reflexivity / lia or by
   the invariant lemma applied to a computed run_ok.
   Kinds of premises met: (1) run_ok guards evaluated along the run (St, Co) - closed by computation on histories that contain
   faults, refused operations and aborted loops; (2) invariants of reachable states (LemmasSt.Inv, LemmasCo.Inv) - closed by
   fold_inv from the computed run_ok; (3) decidable layout conditions (layout_wf, vdict <> [], consistent init, 0 in the base
   range); (4) premises about reachable states that an invariant might contradict (inverted_in_force, failing controller in
   control, no_faults) - each shown at a state reached by client requests only.  Nothing vacuous was found. *)
From Coq Require Import List Arith ZArith Bool Lia.
Import ListNotations.
Require Import FV.C18.Model FV.C18.LemmasSt FV.C18.LemmasFe FV.C18.LemmasLi FV.C18.LemmasCo FV.C18.Refuted.
Require Import FV.C18.Properties.
Local Open Scope Z_scope.

(* ------------------------------------------------------------------------------------------------ *)
(* STRUCT                                                                                           *)
(* ------------------------------------------------------------------------------------------------ *)
(* layout without combined methods, 3 members, mixed user methods (member 0: write only, 1: read only, 2: both) *)
Definition LS3 : St.layout :=
  {| St.sl_n := 3; St.sl_rw := false; St.sl_sr := false; St.sl_sw := false;
     St.sl_mr := [false; true; true]; St.sl_mw := [true; false; true]; St.sl_lo := (-100); St.sl_hi := 100 |}.

(* 15 operations: hardware change, complete struct read / write, member write, propagating driver assignment, then a fault
   script under which a direct member read raises (HardwareError), a direct member write raises (RangeError), the generated
   struct read is aborted at member 1 BEFORE any cache changed (member 0 has no read method), a struct write is refused by
   the datatype, a struct write is aborted at member 2 after members 0 and 1 were written with the values they already
   had; faults cleared, hardware change, member read, struct write *)
Definition opsS3 : list St.op :=
  [St.Hw [5; 6; 7]; St.ReadS; St.WriteS [1; 2; 3]; St.WriteM 1 9; St.SetM 2 4;
   St.Fault [false; true; false] [false; false; true]; St.ReadM 1; St.WriteM 2 8; St.ReadS;
   St.WriteS [1; 200; 3]; St.WriteS [1; 9; 3]; St.Fault [] []; St.Hw [11; 12; 13]; St.ReadM 2; St.WriteS [21; 22; 23]].

Example C18_nonvacuous_run_ok_S3 : LemmasSt.run_ok LS3 (St.init LS3) opsS3.
Proof. vm_compute. repeat split; lia. Qed.

(* the results of the 15 operations: 5 of them fail, with both error codes *)
Fixpoint st_results (L : St.layout) (s : St.state) (ops : list St.op) : list res :=
  match ops with [] => [] | o :: r => let '(s', x) := St.step L s o in x :: st_results L s' r end.
Example C18_S3_results :
  st_results LS3 (St.init LS3) opsS3 =
  [ROk []; ROk [0; 6; 7]; ROk [1; 2; 3]; ROk [9]; ROk []; ROk []; RErr 3; RErr 1; RErr 3; RErr 1; RErr 1; ROk []; ROk [];
   ROk [13]; ROk [21; 22; 23]] /\
  (let s := St.run LS3 (firstn 11 opsS3) in (St.cst s, St.cmem s, St.hw s, St.est s, St.emem s)
     = ([1; 9; 4], [1; 9; 4], [1; 6; 3], true, [false; false; false])).
Proof. vm_compute. split; reflexivity. Qed.

Example C18_struct_agree_applies_S3 :
  let s := St.run LS3 opsS3 in
  length (St.cst s) = St.sl_n LS3 /\ length (St.cmem s) = St.sl_n LS3 /\
  forall i, (i < St.sl_n LS3)%nat -> nth i (St.cst s) 0 = nth i (St.cmem s) 0.
Proof. apply C18_struct_agree_except_unpropagated_assign_and_partial_abort. exact C18_nonvacuous_run_ok_S3. Qed.

(* combined layout (read_<struct> and write_<struct> written by the programmer), 2 members *)
Definition LC2 : St.layout :=
  {| St.sl_n := 2; St.sl_rw := true; St.sl_sr := true; St.sl_sw := true;
     St.sl_mr := [false; false]; St.sl_mw := [false; false]; St.sl_lo := (-100); St.sl_hi := 100 |}.

(* 14 operations: hardware change, member read, coercion script, coerced struct write, propagating driver assignment,
   read_<struct> raising (struct read and member read fail), write_<struct> raising (struct write and member write fail),
   a member write whose coerced value leaves the range (RangeError after the hardware was set), a coerced member write *)
Definition opsC2 : list St.op :=
  [St.Hw [5; 6]; St.ReadM 1; St.Coerce [(0%nat, 7, 5); (1%nat, 50, 200)]; St.WriteS [7; 8]; St.SetS [1; 2];
   St.Fault [true] []; St.ReadS; St.ReadM 0; St.Fault [] [true]; St.WriteS [3; 4]; St.WriteM 0 3; St.Fault [] [];
   St.WriteM 1 50; St.WriteM 0 7].

Example C18_nonvacuous_run_ok_C2 : LemmasSt.run_ok LC2 (St.init LC2) opsC2.
Proof. vm_compute. repeat split; lia. Qed.

Example C18_C2_results :
  st_results LC2 (St.init LC2) opsC2 =
  [ROk []; ROk [6]; ROk []; ROk [5; 8]; ROk []; ROk []; RErr 3; RErr 3; ROk []; RErr 1; RErr 1; ROk []; RErr 1; ROk [5]] /\
  (let s := St.run LC2 opsC2 in (St.cst s, St.cmem s, St.hw s) = ([5; 2], [5; 2], [5; 2])).
Proof. vm_compute. split; reflexivity. Qed.

Example C18_struct_agree_applies_C2 :
  let s := St.run LC2 opsC2 in
  length (St.cst s) = St.sl_n LC2 /\ length (St.cmem s) = St.sl_n LC2 /\
  forall i, (i < St.sl_n LC2)%nat -> nth i (St.cst s) 0 = nth i (St.cmem s) 0.
Proof. apply C18_struct_agree_except_unpropagated_assign_and_partial_abort. exact C18_nonvacuous_run_ok_C2. Qed.

(* C18_no_fault_no_partial_abort: the premise no_faults is a universally quantified statement about the two fault lists of
   the state; it holds in the state reached by the first 5 operations of opsS3 (no script yet) and in the state after the
   whole history (script set, then cleared); an explicit all-false script of the right length satisfies it as well *)
Example C18_nonvacuous_no_faults :
  LemmasSt.no_faults (St.run LS3 (firstn 5 opsS3)) /\ LemmasSt.no_faults (St.run LS3 opsS3) /\
  LemmasSt.no_faults (St.run LS3 (opsS3 ++ [St.Fault [false; false; false] [false; false; false]])).
Proof.
  split; [|split]; split; intros i; vm_compute; do 4 (destruct i as [|i]; [reflexivity|]); reflexivity.
Qed.

Example C18_no_fault_no_partial_abort_applies :
  St.partial_abort LS3 (St.run LS3 opsS3) St.ReadS = false /\
  St.partial_abort LS3 (St.run LS3 (firstn 5 opsS3)) (St.WriteS [30; 31; 32]) = false.
Proof.
  split; apply C18_no_fault_no_partial_abort.
  - exact (proj1 (proj2 C18_nonvacuous_no_faults)).
  - exact (proj1 C18_nonvacuous_no_faults).
Qed.
(* ... while the guard is not identically false: with the fault script of opsS3 a struct write that changes member 0 first
   IS a partial abort (this is the finding class, excluded by run_ok) *)
Example C18_partial_abort_happens :
  St.partial_abort LS3 (St.run LS3 (firstn 9 opsS3)) (St.WriteS [2; 9; 3]) = true.
Proof. vm_compute. reflexivity. Qed.

(* C18_struct_member_write_consistent, first part: premises sl_rw L = true, i < sl_n L, Inv L s.  Inv at a reachable state
   follows from the computed run_ok *)
Lemma inv_of_run_ok : forall L ops, LemmasSt.run_ok L (St.init L) ops -> LemmasSt.Inv L (St.run L ops).
Proof. intros L ops H. exact (LemmasSt.fold_inv L ops (St.init L) H (LemmasSt.init_inv L)). Qed.

Lemma run_ok_firstn : forall L n ops s, LemmasSt.run_ok L s ops -> LemmasSt.run_ok L s (firstn n ops).
Proof.
  intros L n. induction n as [|n IH]; intros [|o ops] s H; simpl; auto.
  destruct H as (H1 & H2 & H3 & H4). auto.
Qed.

Definition member_write_concl (L : St.layout) (s : St.state) (i : nat) (v : Z) : Prop :=
  let '(s', r) := St.step L s (St.WriteM i v) in
  St.cst s' = St.cmem s' /\ length (St.cmem s') = St.sl_n L /\
  match r with
  | ROk x => x = [nth i (St.cmem s') 0] /\ x = [nth i (St.cst s') 0] /\
             (St.sl_sr L = true -> St.cmem s' = St.hw s') /\
             (St.sl_sw L = true -> x = [St.clookup i v (St.csc s)])
  | RErr c => c = 1%nat \/ c = 3%nat
  end.

(* the four outcomes of a member write in the combined layout, each from a state reached by a prefix of opsC2:
   coerced write accepted (ROk [5] for the request 7), write_<struct> raises (RErr 1), coerced value outside the range
   (RErr 1), read back raises (RErr 3) *)
Example C18_struct_member_write_applies :
  member_write_concl LC2 (St.run LC2 (firstn 13 opsC2)) 0 7 /\
  member_write_concl LC2 (St.run LC2 (firstn 10 opsC2)) 0 3 /\
  member_write_concl LC2 (St.run LC2 (firstn 12 opsC2)) 1 50 /\
  member_write_concl LC2 (St.run LC2 (firstn 6 opsC2)) 1 4.
Proof.
  split; [|split; [|split]];
    (apply (proj1 C18_struct_member_write_consistent);
     [reflexivity | simpl; lia | apply inv_of_run_ok, run_ok_firstn, C18_nonvacuous_run_ok_C2]).
Qed.
Example C18_struct_member_write_branches :
  snd (St.step LC2 (St.run LC2 (firstn 13 opsC2)) (St.WriteM 0 7)) = ROk [5] /\
  snd (St.step LC2 (St.run LC2 (firstn 10 opsC2)) (St.WriteM 0 3)) = RErr 1 /\
  snd (St.step LC2 (St.run LC2 (firstn 12 opsC2)) (St.WriteM 1 50)) = RErr 1 /\
  snd (St.step LC2 (St.run LC2 (firstn 6 opsC2)) (St.WriteM 1 4)) = RErr 3.
Proof. vm_compute. repeat split; reflexivity. Qed.

(* the inner premises sl_sr L = true / sl_sw L = true of the ROk branch: both hold in LC2; a layout with only read_<struct>
   and one with only write_<struct> (the other two shapes the harness generates) *)
Definition LC2r : St.layout :=
  {| St.sl_n := 2; St.sl_rw := true; St.sl_sr := true; St.sl_sw := false;
     St.sl_mr := [false; false]; St.sl_mw := [false; false]; St.sl_lo := (-100); St.sl_hi := 100 |}.
Definition LC2w : St.layout :=
  {| St.sl_n := 2; St.sl_rw := true; St.sl_sr := false; St.sl_sw := true;
     St.sl_mr := [false; false]; St.sl_mw := [false; false]; St.sl_lo := (-100); St.sl_hi := 100 |}.
Definition opsC2x : list St.op := [St.Hw [5; 6]; St.ReadS; St.Coerce [(1%nat, 9, 10)]; St.WriteS [3; 4]; St.Hw [7; 8]].
Example C18_struct_member_write_applies_other_layouts :
  member_write_concl LC2r (St.run LC2r opsC2x) 1 9 /\ member_write_concl LC2w (St.run LC2w opsC2x) 1 9 /\
  snd (St.step LC2r (St.run LC2r opsC2x) (St.WriteM 1 9)) = ROk [8] /\
  snd (St.step LC2w (St.run LC2w opsC2x) (St.WriteM 1 9)) = ROk [10].
Proof.
  split; [|split; [|vm_compute; split; reflexivity]];
    (apply (proj1 C18_struct_member_write_consistent);
     [reflexivity | simpl; lia | apply inv_of_run_ok; vm_compute; repeat split; lia]).
Qed.

(* second part: admissible history followed by a member write *)
Example C18_struct_member_write_after_history_applies :
  let s := St.run LC2 (opsC2 ++ [St.WriteM 1 50]) in
  length (St.cst s) = St.sl_n LC2 /\ length (St.cmem s) = St.sl_n LC2 /\
  forall j, (j < St.sl_n LC2)%nat -> nth j (St.cst s) 0 = nth j (St.cmem s) 0.
Proof.
  apply (proj2 C18_struct_member_write_consistent); [exact C18_nonvacuous_run_ok_C2 | reflexivity | simpl; lia].
Qed.

(* ------------------------------------------------------------------------------------------------ *)
(* FLOAT / ENUM                                                                                     *)
(* ------------------------------------------------------------------------------------------------ *)
Definition lab (i : option Z) (e : bool) (v : Z) : Fe.label := {| Fe.fl_idx := i; Fe.fl_explicit := e; Fe.fl_val := v |}.

(* ascending positive table ('0.5', (2, 'L1', 2.0), '5'): one explicit index, one explicit value, user read_<idx> and a
   scripted write_<idx>.  valuedict = {2: 4, 0: 1, 3: 10} (half units), datatype default = min = value of index 0, so the
   cache of the fresh module is consistent (the premise of C18_floatenum_value_from_consistent_init; it is false for
   descending tables - Refuted.C18_refuted_floatenum_initial_cache - and true for every table whose first label carries
   the smallest value of a positive table or the value 0, which gen_fe_layout produces with style asc) *)
Definition LFa : Fe.layout :=
  {| Fe.f_labels := [lab None false 1; lab (Some 2) true 4; lab None false 10]; Fe.f_ri := true; Fe.f_wi := 3 |}.

(* 13 operations without assignment to the float parameter: write taken over, script (index 3 locked out -> 0, index 0
   refused), coerced write, refused write (HardwareError), write outside the table (RangeError), hardware change picked
   up by read_<idx>, index writes (one raising), reads by client and driver, driver announcement of the index, write *)
Definition opsFa : list Fe.op :=
  [Fe.WriteF 5; Fe.Script [(3, Some 0); (0, None)]; Fe.WriteF 9; Fe.WriteF 2; Fe.WriteF 11; Fe.HwI 3; Fe.ReadI;
   Fe.WriteI 2; Fe.WriteI 0; Fe.ReadF true; Fe.ReadF false; Fe.SetI 0; Fe.WriteF 3].

Fixpoint fe_results (L : Fe.layout) (s : Fe.state) (ops : list Fe.op) : list (res * Z * Z) :=
  match ops with [] => [] | o :: r => let '(s', x) := Fe.step L s o in (x, Fe.ci s', Fe.cf s') :: fe_results L s' r end.

Example C18_nonvacuous_consistent_init :
  Fe.vdict LFa = [(2, 4); (0, 1); (3, 10)] /\ LemmasFe.consistent LFa (Fe.init LFa) /\
  forallb (fun o => negb (LemmasFe.is_setf o)) opsFa = true.
Proof. vm_compute. repeat split; reflexivity. Qed.

Example C18_Fa_results :
  fe_results LFa (Fe.init LFa) opsFa =
  [(ROk [4], 2, 4); (ROk [], 2, 4); (ROk [1], 0, 1); (RErr 3, 0, 1); (RErr 1, 0, 1); (ROk [], 0, 1); (ROk [3], 3, 10);
   (ROk [2], 2, 4); (RErr 3, 2, 4); (ROk [4], 2, 4); (ROk [4], 2, 4); (ROk [], 0, 1); (ROk [4], 2, 4)].
Proof. vm_compute. reflexivity. Qed.

Example C18_floatenum_value_from_consistent_init_applies :
  Fe.cf (Fe.run LFa opsFa) = Fe.shown LFa (Fe.run LFa opsFa) /\
  Fe.cf (Fe.run LFa (firstn 7 opsFa)) = Fe.shown LFa (Fe.run LFa (firstn 7 opsFa)).
Proof.
  split; apply C18_floatenum_value_from_consistent_init;
    try exact (proj1 (proj2 C18_nonvacuous_consistent_init)); vm_compute; reflexivity.
Qed.

(* descending table ('5', '2', ('L2', 0.5)), no read_<idx>, scripted write_<idx>: the fresh cache is NOT consistent (cache 0.5,
   index 0 means 5.0); the driver also assigns the float parameter first.  The index is announced by the 4th operation - a
   float write that the driver coerces from index 1 to index 2 - and six more operations follow (none a float assignment):
   hardware change, read, write outside the range, script change, refused write, index write *)
Definition LFd : Fe.layout :=
  {| Fe.f_labels := [lab None false 10; lab None false 4; lab None true 1]; Fe.f_ri := false; Fe.f_wi := 3 |}.
Definition preFd : list Fe.op := [Fe.SetF 7; Fe.Script [(1, Some 2)]; Fe.ReadF true].
Definition postFd : list Fe.op :=
  [Fe.HwI 0; Fe.ReadI; Fe.WriteF 100; Fe.Script [(0, None)]; Fe.WriteF 10; Fe.WriteI 1].

Example C18_nonvacuous_establishes :
  ~ LemmasFe.consistent LFd (Fe.init LFd) /\ ~ LemmasFe.consistent LFd (Fe.run LFd preFd) /\
  LemmasFe.establishes LFd (Fe.run LFd preFd) (Fe.WriteF 5) = true /\
  forallb (fun o => negb (LemmasFe.is_setf o)) postFd = true /\
  fe_results LFd (Fe.init LFd) (preFd ++ Fe.WriteF 5 :: postFd) =
  [(ROk [], 0, 7); (ROk [], 0, 7); (ROk [7], 0, 7); (ROk [1], 2, 1); (ROk [], 2, 1); (ROk [2], 2, 1); (RErr 1, 2, 1);
   (ROk [], 2, 1); (RErr 3, 2, 1); (ROk [1], 1, 4)].
Proof. vm_compute. repeat split; try reflexivity; discriminate. Qed.

Example C18_floatenum_value_after_index_update_applies :
  Fe.cf (Fe.run LFd (preFd ++ Fe.WriteF 5 :: postFd)) = Fe.shown LFd (Fe.run LFd (preFd ++ Fe.WriteF 5 :: postFd)).
Proof. apply C18_floatenum_value_after_index_update; vm_compute; reflexivity. Qed.

(* the other establishing operations: read_<idx> of LFa (f_ri = true), an index write the driver accepts, SetI - each after
   a float assignment that made the cache wrong *)
Example C18_floatenum_value_after_index_update_applies_other_ops :
  (let h := [Fe.HwI 3; Fe.SetF 7] ++ Fe.ReadI :: [Fe.ReadF true] in Fe.cf (Fe.run LFa h) = Fe.shown LFa (Fe.run LFa h)) /\
  (let h := [Fe.SetF 7] ++ Fe.WriteI 3 :: [Fe.ReadF true; Fe.ReadI] in Fe.cf (Fe.run LFa h) = Fe.shown LFa (Fe.run LFa h)) /\
  (let h := [Fe.SetF 7; Fe.ReadI] ++ Fe.SetI 2 :: [Fe.WriteF 100] in Fe.cf (Fe.run LFd h) = Fe.shown LFd (Fe.run LFd h)) /\
  ~ LemmasFe.consistent LFa (Fe.run LFa [Fe.HwI 3; Fe.SetF 7]) /\ ~ LemmasFe.consistent LFd (Fe.run LFd [Fe.SetF 7; Fe.ReadI]).
Proof.
  split; [|split; [|split]]; try (apply C18_floatenum_value_after_index_update; vm_compute; reflexivity).
  vm_compute. split; discriminate.
Qed.

(* C18_closest: the only premise is vdict L <> [] (a FloatEnumParam has at least one label).  The conclusion at the four
   kinds of state / value: request taken over, request coerced by the script, request refused by the script, value outside
   the table *)
Definition closest_concl (L : Fe.layout) (s : Fe.state) (v : Z) : Prop :=
  (let '(s', r) := Fe.step L s (Fe.WriteF v) in
   let k := Fe.closest v (Fe.vdict L) in
   if ((v <? Fe.vmin (Fe.vdict L)) || (Fe.vmax (Fe.vdict L) <? v))%Z
   then s' = s /\ r = RErr 1
   else if LemmasFe.drv_ok L s k
        then r = ROk [Fe.shown L s'] /\ Fe.cf s' = Fe.shown L s' /\
             Fe.evs s' = (0%nat, [Fe.shown L s']) :: (1%nat, [Fe.ci s']) :: (0%nat, [Fe.shown L s']) :: Fe.evs s /\
             (LemmasFe.takes_over L s k = true -> Fe.ci s' = k)
        else s' = s /\ r = RErr 3) /\
  (exists x, In (Fe.closest v (Fe.vdict L), x) (Fe.vdict L) /\
             forall j y, In (j, y) (Fe.vdict L) -> (Z.abs (x - v) <= Z.abs (y - v))%Z) /\
  (forall j y, In (j, y) (Fe.vdict L) -> (Fe.vmin (Fe.vdict L) <= y <= Fe.vmax (Fe.vdict L))%Z).

Example C18_closest_applies :
  let s := Fe.run LFa (firstn 2 opsFa) in
  closest_concl LFa s 5 /\ closest_concl LFa s 9 /\ closest_concl LFa s 2 /\ closest_concl LFa s 11 /\
  closest_concl LFd (Fe.run LFd preFd) 7.
Proof.
  cbv zeta. unfold closest_concl.
  split; [|split; [|split; [|split]]]; apply C18_closest; vm_compute; discriminate.
Qed.
(* which branch each of them is: (in range, driver accepts, takes over) and the closest index / the index really set *)
Example C18_closest_branches :
  let s := Fe.run LFa (firstn 2 opsFa) in
  let d := Fe.vdict LFa in
  let info v := (Fe.closest v d, LemmasFe.drv_ok LFa s (Fe.closest v d), LemmasFe.takes_over LFa s (Fe.closest v d),
                 snd (Fe.step LFa s (Fe.WriteF v)), Fe.ci (fst (Fe.step LFa s (Fe.WriteF v)))) in
  info 5 = (2, true, true, ROk [4], 2) /\ info 9 = (3, true, false, ROk [1], 0) /\
  info 2 = (0, false, false, RErr 3, 2) /\ snd (Fe.step LFa s (Fe.WriteF 11)) = RErr 1 /\
  (* a tie: 7 is as far from 10 (index 0) as from 4 (index 1); python's min takes the first key of the dict, here index 0 *)
  Fe.closest 7 (Fe.vdict LFd) = 0 /\ Fe.vdict LFd = [(2, 1); (0, 10); (1, 4)].
Proof. vm_compute. repeat split; reflexivity. Qed.

(* C18_floatenum_write_consistent: part 1 has no premise (instances for the three outcomes); parts 2 and 3 have the premises
   of the two theorems above *)
Definition write_concl (L : Fe.layout) (s : Fe.state) (v : Z) : Prop :=
  let '(s', r) := Fe.step L s (Fe.WriteF v) in
  match r with
  | ROk x => Fe.cf s' = Fe.shown L s' /\ x = [Fe.shown L s']
  | RErr c => s' = s /\ (c = 1%nat \/ c = 3%nat)
  end.
Example C18_floatenum_write_consistent_applies :
  (let s := Fe.run LFd preFd in write_concl LFd s 5 /\ write_concl LFd s 100 /\
     write_concl LFd (Fe.run LFd (preFd ++ [Fe.Script [(0, None)]])) 10) /\
  (let s := Fe.run LFd (preFd ++ Fe.WriteF 5 :: postFd ++ [Fe.WriteF 1]) in Fe.cf s = Fe.shown LFd s) /\
  (let s := Fe.run LFa (opsFa ++ [Fe.WriteF 2]) in Fe.cf s = Fe.shown LFa s).
Proof.
  split; [|split].
  - cbv zeta. unfold write_concl. split; [|split]; apply (proj1 C18_floatenum_write_consistent).
  - apply (proj1 (proj2 C18_floatenum_write_consistent)); vm_compute; reflexivity.
  - apply (proj2 (proj2 C18_floatenum_write_consistent));
      [exact (proj1 (proj2 C18_nonvacuous_consistent_init)) | vm_compute; reflexivity].
Qed.
Example C18_floatenum_write_branches :
  let s := Fe.run LFd preFd in
  snd (Fe.step LFd s (Fe.WriteF 5)) = ROk [1] /\ snd (Fe.step LFd s (Fe.WriteF 100)) = RErr 1 /\
  snd (Fe.step LFd (Fe.run LFd (preFd ++ [Fe.Script [(0, None)]])) (Fe.WriteF 10)) = RErr 3 /\
  snd (Fe.step LFd (Fe.run LFd (preFd ++ Fe.WriteF 5 :: postFd)) (Fe.WriteF 1)) = ROk [1] /\
  snd (Fe.step LFa (Fe.run LFa opsFa) (Fe.WriteF 2)) = RErr 3.
Proof. vm_compute. repeat split; reflexivity. Qed.

(* ------------------------------------------------------------------------------------------------ *)
(* LIMITS                                                                                           *)
(* ------------------------------------------------------------------------------------------------ *)
(* three classes, MRO order: the module class (own check_a that calls checkLimits itself, defines a_min and a_limits), a plain
   mixin (not a HasAccessibles; defines a_max), the base class (defines a, check_a = plausibility test only).  gen_li_layout
   builds it with shape random.  All three limit parameters exist; the chain of check functions is user(2), generated, user(1) *)
Definition LL3 : Li.layout :=
  {| Li.l_lo := -10; Li.l_hi := 10;
     Li.l_classes := [K true false 2 true false true; K false false 0 false true false; K true true 1 false false false] |}.

Example C18_nonvacuous_layout_wf : LemmasLi.layout_wf LL3.
Proof. split; [eexists; eexists; split; reflexivity | split; reflexivity]. Qed.

Example C18_LL3_shape :
  Li.chain (Li.l_classes LL3) = [Li.CkUser 2; Li.CkAuto; Li.CkUser 1] /\
  (Li.l_lim LL3, Li.l_min LL3, Li.l_max LL3, LemmasLi.any_user LL3) = (true, true, true, true).
Proof. vm_compute. split; reflexivity. Qed.

(* 19 operations: the three limits narrowed by write requests; a written: accepted, refused by a_max, refused by a_limits, refused
   by the datatype, refused by the plausibility test alone (3 is inside every limit); rng written in order and inverted; driver
   assignment of a_max beyond the base range; a accepted again; a_max outside the base range refused; a_limits written INVERTED
   (accepted: the tuple datatype does not check the order) - every write of a is refused from then on; the driver resets
   a_limits; a_min above a_max by two write requests - again every write of a is refused *)
Definition opsL : list Li.op :=
  [Li.WriteMin (-4); Li.WriteMax 6; Li.WriteLim (-2) 8; Li.WriteA 5; Li.WriteA 7; Li.WriteA (-3); Li.WriteA 11; Li.WriteA 3;
   Li.WriteRng 1 3; Li.WriteRng 3 1; Li.SetMax 20; Li.WriteA 8; Li.WriteMax 11; Li.WriteLim 5 2; Li.WriteA 4;
   Li.SetLim (-20) 20; Li.WriteMin 9; Li.WriteMax 1; Li.WriteA 4].
Fixpoint li_results (L : Li.layout) (s : Li.state) (ops : list Li.op) : list res :=
  match ops with [] => [] | o :: r => let '(s', x) := Li.step L s o in x :: li_results L s' r end.
Example C18_L_results :
  li_results LL3 (Li.init LL3) opsL =
  [ROk [-4]; ROk [6]; ROk [-2; 8]; ROk [5]; RErr 1; RErr 1; RErr 1; RErr 1; ROk [1; 3]; RErr 1; ROk []; ROk [8]; RErr 1;
   ROk [5; 2]; RErr 1; ROk []; ROk [9]; ROk [1]; RErr 1] /\
  (let s := Li.run LL3 (firstn 3 opsL) in (Li.vmin s, Li.vmax s, Li.vlim s) = (-4, 6, (-2, 8))).
Proof. vm_compute. split; reflexivity. Qed.

(* C18_limits_respected, first part.  Premises: layout_wf L and the equation  step L s (WriteA v) = (s', result)  for an
   arbitrary s' - satisfiable by construction; instances for an accepted and three refused writes from the state reached by
   the first three operations *)
Example C18_limits_respected_applies_accepted :
  let s := Li.run LL3 (firstn 3 opsL) in
  let s' := fst (Li.step LL3 s (Li.WriteA 5)) in
  LemmasLi.within_all LL3 s 5 /\ Li.va s' = 5 /\ [5] = [5].
Proof.
  cbv zeta.
  apply (proj1 (proj1 C18_limits_respected LL3 (Li.run LL3 (firstn 3 opsL)) 5 _ C18_nonvacuous_layout_wf) [5]).
  vm_compute. reflexivity.
Qed.
Example C18_limits_respected_applies_refused :
  let s := Li.run LL3 (firstn 3 opsL) in
  (fst (Li.step LL3 s (Li.WriteA 7)) = s /\ 1%nat = 1%nat) /\ (fst (Li.step LL3 s (Li.WriteA (-3))) = s /\ 1%nat = 1%nat) /\
  (fst (Li.step LL3 s (Li.WriteA 11)) = s /\ 1%nat = 1%nat) /\ (fst (Li.step LL3 s (Li.WriteA 3)) = s /\ 1%nat = 1%nat).
Proof.
  cbv zeta.
  pose proof (fun v => proj2 (proj1 C18_limits_respected LL3 (Li.run LL3 (firstn 3 opsL)) v
                                 (fst (Li.step LL3 (Li.run LL3 (firstn 3 opsL)) (Li.WriteA v))) C18_nonvacuous_layout_wf) 1%nat) as H.
  split; [|split; [|split]]; apply H; vm_compute; reflexivity.
Qed.
(* within_all is not trivially true at this instance: all three implications have a true premise (C18_LL3_shape) and the
   bounds are the narrowed ones *)
Example C18_limits_respected_within_all_is_strict :
  let s := Li.run LL3 (firstn 3 opsL) in
  ~ LemmasLi.within_all LL3 s 7 /\ ~ LemmasLi.within_all LL3 s (-3) /\ ~ LemmasLi.within_all LL3 s 11.
Proof.
  cbv zeta. split; [|split]; intros (H0 & H1 & H2 & H3); vm_compute in H0, H1, H2, H3.
  - specialize (H3 eq_refl). apply H3. reflexivity.
  - specialize (H1 eq_refl). destruct H1 as (H1 & _). apply H1. reflexivity.
  - destruct H0 as (_ & H0). apply H0. reflexivity.
Qed.

(* second part, both directions of the equivalence; the inner premise any_user L = true holds in LL3 *)
Example C18_limits_verdict_applies :
  let s := Li.run LL3 (firstn 3 opsL) in
  (exists s', Li.step LL3 s (Li.WriteA 5) = (s', ROk [5])) /\
  (Li.in_base LL3 5 = true /\ Li.check_limits LL3 s 5 = true /\ (LemmasLi.any_user LL3 = true -> Li.plausible 5 = true)) /\
  ~ (exists s', Li.step LL3 s (Li.WriteA 3) = (s', ROk [3])).
Proof.
  cbv zeta. split; [|split].
  - apply (proj2 C18_limits_respected LL3 _ 5 C18_nonvacuous_layout_wf). vm_compute. repeat split; reflexivity.
  - apply (proj2 C18_limits_respected LL3 _ 5 C18_nonvacuous_layout_wf). eexists. vm_compute. reflexivity.
  - intros H. apply (proj2 C18_limits_respected LL3 _ 3 C18_nonvacuous_layout_wf) in H.
    destruct H as (_ & _ & H). specialize (H eq_refl). vm_compute in H. discriminate.
Qed.

(* C18_inverted_refused, first part: layout_wf L together with inverted_in_force L s at REACHABLE states - the inverted a_limits
   after 14 operations (written by a client), a_min > a_max after 18 operations (two client writes) *)
Example C18_nonvacuous_inverted_in_force :
  LemmasLi.inverted_in_force LL3 (Li.run LL3 (firstn 14 opsL)) /\ LemmasLi.inverted_in_force LL3 (Li.run LL3 (firstn 18 opsL)) /\
  ~ LemmasLi.inverted_in_force LL3 (Li.run LL3 (firstn 3 opsL)).
Proof.
  split; [|split].
  - left. vm_compute. split; reflexivity.
  - right. vm_compute. repeat split; reflexivity.
  - intros [(_ & H) | (_ & _ & H)]; vm_compute in H; discriminate.
Qed.
Example C18_inverted_refused_applies :
  (let s := Li.run LL3 (firstn 14 opsL) in Li.step LL3 s (Li.WriteA 4) = (s, RErr 1)) /\
  (let s := Li.run LL3 (firstn 18 opsL) in Li.step LL3 s (Li.WriteA 4) = (s, RErr 1)) /\
  (let s := Li.run LL3 (firstn 9 opsL) in Li.step LL3 s (Li.WriteRng 3 1) = (s, RErr 1)) /\
  (let s := Li.run LL3 opsL in fst (Li.vrng s) <= snd (Li.vrng s)) /\ Li.vrng (Li.run LL3 opsL) = (1, 3).
Proof.
  split; [|split; [|split; [|split]]].
  - apply (proj1 C18_inverted_refused); [exact C18_nonvacuous_layout_wf | exact (proj1 C18_nonvacuous_inverted_in_force)].
  - apply (proj1 C18_inverted_refused);
      [exact C18_nonvacuous_layout_wf | exact (proj1 (proj2 C18_nonvacuous_inverted_in_force))].
  - apply (proj1 (proj2 C18_inverted_refused)). lia.
  - apply (proj2 (proj2 C18_inverted_refused)).
  - vm_compute. reflexivity.
Qed.

(* C18_limits_in_base_range: 0 inside the base range (true for the five ranges of gen_li_layout), no driver assignment *)
Definition opsLw : list Li.op := filter (fun o => negb (LemmasLi.is_set o)) opsL.
Example C18_limits_in_base_range_applies :
  length opsLw = 17%nat /\ LemmasLi.limits_in_base LL3 (Li.run LL3 opsLw) /\
  (let s := Li.run LL3 opsLw in (Li.va s, Li.vmin s, Li.vmax s, Li.vlim s) = (5, 9, 1, (5, 2))) /\
  ~ LemmasLi.limits_in_base LL3 (Li.run LL3 opsL).
Proof.
  split; [reflexivity|]. split; [|split].
  - apply C18_limits_in_base_range; [simpl; lia | vm_compute; reflexivity].
  - vm_compute. reflexivity.
  - intros (_ & _ & H & _). vm_compute in H. destruct H as (H & _). apply H. reflexivity.
Qed.

(* ------------------------------------------------------------------------------------------------ *)
(* CONTROL                                                                                          *)
(* ------------------------------------------------------------------------------------------------ *)
(* three controllers on one output: 0 writes the safe value to the output's target when switched off, 1 raises in its
   switch-off while its fault flag is set, 2 is plain (one of the layouts of exhaustive_cases; gen_co_layout draws kinds
   from 0, 1, 2) *)
Definition KC : list nat := [1%nat; 2%nat; 0%nat].

(* 15 operations: every controller takes over at least once (through the raising kind while it does not fail, through the
   safe-value writer, through the plain one), update_target calls, the fault flag of controller 1 set while it controls:
   take-over by controller 0 REFUSED, controller 1 rewrites its own target; flag cleared; the output's own target written
   while controller 1 controls (switched off, output names self), while nobody controls, and while the safe-value writer
   controls *)
Definition opsK : list Co.op :=
  [Co.WriteT 1 3; Co.UpdT 1 4; Co.WriteT 0 5; Co.WriteT 2 6; Co.CFault [false; true; false]; Co.WriteT 1 7; Co.WriteT 0 8;
   Co.WriteT 1 9; Co.CFault [false; false; false]; Co.WriteO 9; Co.WriteO 2; Co.WriteT 0 1; Co.WriteO 3; Co.WriteT 2 2;
   Co.UpdT 0 7].

Example C18_nonvacuous_run_ok_K : LemmasCo.run_ok KC (Co.init KC) opsK.
Proof. vm_compute. repeat split; lia. Qed.

Fixpoint co_results (s : Co.state) (ops : list Co.op) : list (res * nat * list bool) :=
  match ops with [] => [] | o :: r => let '(s', x) := Co.step KC s o in (x, Co.by_ s', Co.act s') :: co_results s' r end.
Example C18_K_results :
  co_results (Co.init KC) opsK =
  [(ROk [3], 2%nat, [false; true; false]); (ROk [], 2%nat, [false; true; false]); (ROk [5], 1%nat, [true; false; false]);
   (ROk [6], 3%nat, [false; false; true]); (ROk [], 3%nat, [false; false; true]); (ROk [7], 2%nat, [false; true; false]);
   (RErr 3, 2%nat, [false; true; false]); (ROk [9], 2%nat, [false; true; false]); (ROk [], 2%nat, [false; true; false]);
   (ROk [9], 0%nat, [false; false; false]); (ROk [2], 0%nat, [false; false; false]); (ROk [1], 1%nat, [true; false; false]);
   (ROk [3], 0%nat, [false; false; false]); (ROk [2], 3%nat, [false; false; true]); (ROk [], 3%nat, [false; false; true])].
Proof. vm_compute. reflexivity. Qed.

Example C18_single_controller_applies :
  let s := Co.run KC opsK in
  (forall j k, nth j (Co.act s) false = true -> nth k (Co.act s) false = true -> j = k) /\
  (forall j, nth j (Co.act s) false = true <-> Co.by_ s = S j) /\
  (Co.by_ s = 0%nat <-> forall j, nth j (Co.act s) false = false) /\
  (Co.by_ s <= length KC)%nat /\ length (Co.act s) = length KC.
Proof. apply C18_single_controller_except_failing_self_controlled. exact C18_nonvacuous_run_ok_K. Qed.

(* the guard of run_ok is not identically false: after 7 operations (controller 1 controls, its fault flag set) a write of
   the output's target is the finding class *)
Example C18_self_controlled_fails_happens :
  LemmasCo.self_controlled_fails KC (Co.run KC (firstn 7 opsK)) (Co.WriteO 1) = true.
Proof. vm_compute. reflexivity. Qed.

(* Inv at reachable states from the computed run_ok *)
Lemma co_run_ok_firstn : forall n ops s, LemmasCo.run_ok KC s ops -> LemmasCo.run_ok KC s (firstn n ops).
Proof.
  induction n as [|n IH]; intros [|o ops] s H; simpl; auto.
  destruct H as (H1 & H2 & H3). auto.
Qed.
Lemma co_inv_prefix : forall n, LemmasCo.Inv KC (Co.run KC (firstn n opsK)).
Proof.
  intros n.
  exact (LemmasCo.fold_inv KC (firstn n opsK) (Co.init KC) (co_run_ok_firstn n opsK _ C18_nonvacuous_run_ok_K)
           (LemmasCo.init_inv KC)).
Qed.

(* C18_takeover_switches_previous_off_or_is_refused: premises i < length kinds and Inv kinds s.  Five instances:
   nobody controls; the safe-value writer controls (nested write of the output's target in the middle of the take-over); the
   failing controller controls and another one asks (REFUSED, the RErr branch with its existential); the failing controller
   rewrites its own target (no switch-off needed); the same controller after its flag was cleared is switched off *)
Definition takeover_concl (s : Co.state) (i : nat) (v : Z) : Prop :=
  let '(s', r) := Co.step KC s (Co.WriteT i v) in
  match r with
  | ROk _ => Co.by_ s' = S i /\ (forall j, nth j (Co.act s') false = true <-> j = i)
  | RErr _ => s' = s /\ exists j, Co.by_ s = S j /\ j <> i /\ LemmasCo.failing KC s j = true
  end.
Example C18_takeover_applies :
  takeover_concl (Co.run KC (firstn 0 opsK)) 1 3 /\ takeover_concl (Co.run KC (firstn 3 opsK)) 2 6 /\
  takeover_concl (Co.run KC (firstn 6 opsK)) 0 8 /\ takeover_concl (Co.run KC (firstn 6 opsK)) 1 9 /\
  takeover_concl (Co.run KC (firstn 9 opsK)) 2 5.
Proof.
  unfold takeover_concl.
  split; [|split; [|split; [|split]]];
    (apply C18_takeover_switches_previous_off_or_is_refused; [simpl; lia | apply co_inv_prefix]).
Qed.
Example C18_takeover_branches :
  snd (Co.step KC (Co.run KC (firstn 3 opsK)) (Co.WriteT 2 6)) = ROk [6] /\
  snd (Co.step KC (Co.run KC (firstn 6 opsK)) (Co.WriteT 0 8)) = RErr 3 /\
  snd (Co.step KC (Co.run KC (firstn 6 opsK)) (Co.WriteT 1 9)) = ROk [9] /\
  snd (Co.step KC (Co.run KC (firstn 9 opsK)) (Co.WriteT 2 5)) = ROk [5] /\
  (let s := Co.run KC (firstn 6 opsK) in (Co.by_ s, Co.act s, LemmasCo.failing KC s 1) = (2%nat, [false; true; false], true)).
Proof. vm_compute. repeat split; reflexivity. Qed.

(* C18_control_step_invariant: premises op_wf, self_controlled_fails = false, Inv - for each kind of operation, in particular
   the output's own write while a controller of each kind controls (kind 2 with its flag cleared) *)
Example C18_control_step_invariant_applies :
  LemmasCo.Inv KC (fst (Co.step KC (Co.run KC (firstn 9 opsK)) (Co.WriteO 9))) /\
  LemmasCo.Inv KC (fst (Co.step KC (Co.run KC (firstn 12 opsK)) (Co.WriteO 3))) /\
  LemmasCo.Inv KC (fst (Co.step KC (Co.run KC (firstn 14 opsK)) (Co.WriteO 3))) /\
  LemmasCo.Inv KC (fst (Co.step KC (Co.run KC (firstn 6 opsK)) (Co.WriteT 0 8))) /\
  LemmasCo.Inv KC (fst (Co.step KC (Co.run KC (firstn 6 opsK)) (Co.UpdT 2 1))) /\
  LemmasCo.Inv KC (fst (Co.step KC (Co.run KC (firstn 4 opsK)) (Co.CFault [true; true; true]))).
Proof.
  split; [|split; [|split; [|split; [|split]]]];
    (apply C18_control_step_invariant; [simpl; try lia; exact I | vm_compute; reflexivity | apply co_inv_prefix]).
Qed.
Example C18_control_step_invariant_states :
  (let s := Co.run KC (firstn 9 opsK) in (Co.by_ s, nth 1 KC 0%nat, LemmasCo.failing KC s 1) = (2%nat, 2%nat, false)) /\
  (let s := Co.run KC (firstn 12 opsK) in (Co.by_ s, nth 0 KC 0%nat) = (1%nat, 1%nat)) /\
  (let s := Co.run KC (firstn 14 opsK) in (Co.by_ s, nth 2 KC 0%nat) = (3%nat, 0%nat)).
Proof. vm_compute. repeat split; reflexivity. Qed.

(* the same premise after the 17 client requests alone (no driver assignment anywhere in the history): both disjuncts hold *)
Example C18_inverted_refused_applies_client_only :
  let s := Li.run LL3 opsLw in
  (Li.l_lim LL3 = true /\ snd (Li.vlim s) < fst (Li.vlim s)) /\
  (Li.l_min LL3 = true /\ Li.l_max LL3 = true /\ Li.vmax s < Li.vmin s) /\
  Li.step LL3 s (Li.WriteA 0) = (s, RErr 1).
Proof.
  cbv zeta. split; [|split].
  - vm_compute. split; reflexivity.
  - vm_compute. repeat split; reflexivity.
  - apply (proj1 C18_inverted_refused); [exact C18_nonvacuous_layout_wf|]. left. vm_compute. split; reflexivity.
Qed.

(* C18_source_facts has no premises (a conjunction of the facts regenerated from /repo into Gen/C18.v, closed by reflexivity). *)

Print Assumptions C18_struct_agree_applies_S3.
Print Assumptions C18_struct_agree_applies_C2.
Print Assumptions C18_no_fault_no_partial_abort_applies.
Print Assumptions C18_struct_member_write_applies.
Print Assumptions C18_struct_member_write_applies_other_layouts.
Print Assumptions C18_struct_member_write_after_history_applies.
Print Assumptions C18_floatenum_value_from_consistent_init_applies.
Print Assumptions C18_floatenum_value_after_index_update_applies.
Print Assumptions C18_floatenum_value_after_index_update_applies_other_ops.
Print Assumptions C18_closest_applies.
Print Assumptions C18_floatenum_write_consistent_applies.
Print Assumptions C18_limits_respected_applies_accepted.
Print Assumptions C18_limits_respected_applies_refused.
Print Assumptions C18_limits_verdict_applies.
Print Assumptions C18_inverted_refused_applies.
Print Assumptions C18_limits_in_base_range_applies.
Print Assumptions C18_single_controller_applies.
Print Assumptions C18_takeover_applies.
Print Assumptions C18_control_step_invariant_applies.
