(* C18 - control hand-over: at most one controller is marked, the output names exactly that one *)
From Coq Require Import List Arith ZArith Bool Lia.
Import ListNotations.
Require Import FV.C18.Model.
Import Co.

Lemma nth_set_nth : forall (l : list bool) i k v, i < length l ->
  nth k (set_nth i v l) false = if Nat.eqb k i then v else nth k l false.
Proof.
  induction l as [|x l IH]; intros i k v Hi; simpl in *; [lia|].
  destruct i, k; simpl; auto. apply IH. lia.
Qed.

Lemma set_nth_len : forall A (l : list A) i v, length (set_nth i v l) = length l.
Proof. induction l; destruct i; simpl; intros; auto. Qed.

(* the deactivate callbacks: afterwards only the skipped input can still be marked *)
Local Opaque Nat.add Nat.mul.
Lemma deact_spec : forall skip a j0,
  let '(a', e) := deact skip j0 a in
  length a' = length a /\
  (forall k, nth k a' false = nth k a false && (match skip with Some i => Nat.eqb i (j0 + k) | None => false end)) /\
  (forall k, nth k a false = true -> skip <> Some (j0 + k) -> In (10 + 2 * (j0 + k), [0%Z]) e).
Proof.
  intros skip. induction a as [|b a IH]; intros j0; simpl.
  - split; auto. split; intros k; destruct k; simpl; auto; discriminate.
  - specialize (IH (S j0)). destruct (deact skip (S j0) a) as [r' e]. destruct IH as (Hl & Hn & He).
    destruct (b && negb (match skip with Some i => Nat.eqb i j0 | None => false end)) eqn:E; simpl.
    + apply andb_prop in E. destruct E as (-> & E). apply negb_true_iff in E.
      split; [now rewrite Hl|]. split.
      * intros [|k]; simpl.
        -- rewrite Nat.add_0_r. destruct skip; auto.
        -- rewrite Hn. now replace (S j0 + k) with (j0 + S k) by lia.
      * intros [|k] Hk Hs; simpl in Hk.
        -- left. now rewrite Nat.add_0_r.
        -- right. replace (j0 + S k) with (S j0 + k) by lia. apply He; auto.
           replace (S j0 + k) with (j0 + S k) by lia. exact Hs.
    + split; [now rewrite Hl|]. split.
      * intros [|k]; simpl.
        -- rewrite Nat.add_0_r. destruct b; simpl in *; auto. destruct skip; [|discriminate].
           apply negb_false_iff in E. now rewrite E.
        -- rewrite Hn. now replace (S j0 + k) with (j0 + S k) by lia.
      * intros [|k] Hk Hs; simpl in *.
        -- subst b. simpl in E. apply negb_false_iff in E. destruct skip as [i|]; [|discriminate].
           apply Nat.eqb_eq in E. subst i. rewrite Nat.add_0_r in Hs. congruence.
        -- replace (j0 + S k) with (S j0 + k) by lia. apply He; auto.
           replace (S j0 + k) with (j0 + S k) by lia. exact Hs.
Qed.
Local Transparent Nat.add Nat.mul.

(* at most one controller is marked; the output names it; nobody marked <-> controlled_by = self *)
Definition Inv (n : nat) (s : state) : Prop :=
  length (act s) = n /\ by_ s <= n /\ forall j, nth j (act s) false = true <-> by_ s = S j.

Definition op_wf (n : nat) (o : op) : Prop :=
  match o with WriteT i _ => i < n | UpdT i _ => i < n | WriteO _ => True end.

Lemma nth_repeat_false : forall n j, nth j (repeat false n) false = false.
Proof. induction n; destruct j; simpl; auto. Qed.

Lemma init_inv : forall n, Inv n (init n).
Proof.
  intros n. unfold Inv, init; simpl. rewrite repeat_length. split; auto. split; [lia|].
  intros j. rewrite nth_repeat_false. split; discriminate.
Qed.

Lemma takeover : forall s i v, i < length (act s) ->
  let s' := fst (step s (WriteT i v)) in
  by_ s' = S i /\ length (act s') = length (act s) /\
  (forall j, nth j (act s') false = true <-> j = i) /\
  (forall j, j <> i -> nth j (act s) false = true -> In (10 + 2 * j, [0%Z]) (evs s')).
Proof.
  intros s i v Hi. simpl.
  pose proof (deact_spec (Some i) (act s) 0) as H. destruct (deact (Some i) 0 (act s)) as [a1 e1].
  destruct H as (Hl & Hn & He). simpl. split; auto. split; [now rewrite set_nth_len|]. split.
  - intros j. rewrite nth_set_nth by lia. destruct (Nat.eqb j i) eqn:E.
    + apply Nat.eqb_eq in E. tauto.
    + apply Nat.eqb_neq in E. rewrite Hn. simpl. split; [|tauto].
      intros H. apply andb_prop in H. destruct H as (_ & H). apply Nat.eqb_eq in H. congruence.
  - intros j Hj Ha. right. right. right. apply in_or_app. left. apply -> in_rev.
    apply (He j Ha). simpl. congruence.
Qed.

Lemma step_inv : forall n s o, op_wf n o -> Inv n s -> Inv n (fst (step s o)).
Proof.
  intros n s o Hw (Hl & Hb & Hi). destruct o as [i v | v | i v].
  - simpl in Hw. destruct (takeover s i v) as (H1 & H2 & H3 & _); [lia|].
    unfold Inv. rewrite H1, H2. split; auto. split; [lia|]. intros j. rewrite H3. split; congruence.
  - simpl. destruct (by_ s) eqn:Eb.
    + unfold Inv; simpl. repeat split; auto; try lia; apply Hi.
    + pose proof (deact_spec None (act s) 0) as H. destruct (deact None 0 (act s)) as [a1 e1].
      destruct H as (Hl1 & Hn & _). unfold Inv; simpl. split; [congruence|]. split; [lia|].
      intros j. rewrite Hn, andb_false_r. split; discriminate.
  - unfold Inv; simpl. auto.
Qed.

Lemma run_inv : forall n ops, Forall (op_wf n) ops -> Inv n (run n ops).
Proof.
  intros n ops. unfold run. generalize (init_inv n). generalize (init n).
  induction ops as [|o ops IH]; intros s HI Hw; simpl; auto.
  inversion Hw; subst. apply IH; auto. now apply step_inv.
Qed.

Lemma single_controller : forall n ops, Forall (op_wf n) ops ->
  let s := run n ops in
  (forall j k, nth j (act s) false = true -> nth k (act s) false = true -> j = k) /\
  (forall j, nth j (act s) false = true <-> by_ s = S j) /\
  (by_ s = 0 <-> forall j, nth j (act s) false = false) /\
  by_ s <= n /\ length (act s) = n.
Proof.
  intros n ops Hw. destruct (run_inv n ops Hw) as (Hl & Hb & Hi). simpl. repeat split; auto.
  - intros j k Hj Hk. apply Hi in Hj, Hk. congruence.
  - apply Hi.
  - apply Hi.
  - intros H0 j. destruct (nth j (act (run n ops)) false) eqn:E; auto. apply Hi in E. congruence.
  - intros Hall. destruct (by_ (run n ops)) eqn:E; auto.
    assert (H : nth n0 (act (run n ops)) false = true) by (apply Hi; reflexivity).
    rewrite Hall in H. discriminate.
Qed.

(* update_target never changes who controls *)
Lemma update_target_frame : forall s i v,
  by_ (fst (step s (UpdT i v))) = by_ s /\ act (fst (step s (UpdT i v))) = act s /\ otarget (fst (step s (UpdT i v))) = v.
Proof. intros; simpl; auto. Qed.

(* writing the output's own target leaves nobody marked and names self *)
Lemma self_controlled_spec : forall n s v, Inv n s ->
  by_ (fst (step s (WriteO v))) = 0 /\ forall j, nth j (act (fst (step s (WriteO v)))) false = false.
Proof.
  intros n s v HI. pose proof (step_inv n s (WriteO v) I HI) as (Hl & Hb & Hi).
  assert (E : by_ (fst (step s (WriteO v))) = 0).
  { simpl. destruct (by_ s); [reflexivity|]. destruct (deact None 0 (act s)). reflexivity. }
  split; auto. intros j. destruct (nth j (act (fst (step s (WriteO v)))) false) eqn:F; auto.
  apply Hi in F. congruence.
Qed.
