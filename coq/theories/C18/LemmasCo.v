(* C18 - control hand-over: at most one controller is marked, the output names exactly that one; with controllers whose
   switch-off writes the output's target (kind 1) or may raise (kind 2) *)
From Coq Require Import List Arith ZArith Bool Lia.
Import ListNotations.
Require Import FV.C18.Model.
Import Co.

Lemma nth_set_false : forall (l : list bool) j k,
  nth k (set_nth j false l) false = negb (Nat.eqb k j) && nth k l false.
Proof.
  induction l as [|x l IH]; intros j k; simpl.
  - destruct j, k; simpl; now rewrite ?andb_false_r.
  - destruct j, k; simpl; auto; apply IH.
Qed.

Lemma nth_set_true : forall (l : list bool) i k, i < length l ->
  nth k (set_nth i true l) false = Nat.eqb k i || nth k l false.
Proof.
  induction l as [|x l IH]; intros i k Hi; simpl in *; [lia|].
  destruct i, k; simpl; auto. apply IH. lia.
Qed.

Lemma set_nth_len : forall A (l : list A) i v, length (set_nth i v l) = length l.
Proof. induction l; destruct i; simpl; intros; auto. Qed.

Definition on (s : state) (k : nat) : bool := nth k (act s) false.
Definition others_off (s : state) (j : nat) : Prop := forall k, k <> j -> on s k = false.
Definition all_off (s : state) : Prop := forall k, on s k = false.

Lemma on_off : forall j s k, on (off j s) k = negb (Nat.eqb k j) && on s k.
Proof. intros. unfold on, off; simpl. apply nth_set_false. Qed.

Lemma off_single : forall s j, others_off s j -> all_off (off j s).
Proof.
  intros s j H k. rewrite on_off. destruct (Nat.eqb k j) eqn:E; simpl; auto.
  apply Nat.eqb_neq in E. auto.
Qed.

Section Loops.
  Variable f : nat -> state -> state * bool.

  Lemma dloop_inactive : forall skip idx s,
    (forall k, In k idx -> skip <> Some k -> on s k = false) -> dloop f skip idx s = (s, true).
  Proof.
    induction idx as [|j r IH]; intros s H; simpl; auto.
    destruct skip as [i|].
    - destruct (Nat.eqb i j) eqn:E; simpl.
      + apply IH. intros k Hk. apply H. now right.
      + apply Nat.eqb_neq in E. unfold on in H. rewrite (H j); [|now left|congruence]. simpl.
        apply IH. intros k Hk. apply H. now right.
    - simpl. unfold on in H. rewrite (H j); [|now left|discriminate]. simpl.
      apply IH. intros k Hk. apply H. now right.
  Qed.

  Lemma dloop_app : forall skip a b s,
    dloop f skip (a ++ b) s = match dloop f skip a s with (s1, true) => dloop f skip b s1 | (s1, false) => (s1, false) end.
  Proof.
    induction a as [|j a IH]; intros b s; simpl; auto.
    destruct ((match skip with Some i => Nat.eqb i j | None => false end) || negb (nth j (act s) false)); auto.
    destruct (f j s) as [s1 [|]]; auto.
  Qed.

  (* exactly one input is marked: the loop is the call of its switch-off *)
  Lemma dloop_single : forall skip n j0 s,
    j0 < n -> others_off s j0 -> on s j0 = true -> skip <> Some j0 ->
    others_off (fst (f j0 s)) j0 -> (snd (f j0 s) = true -> on (fst (f j0 s)) j0 = false) ->
    dloop f skip (seq 0 n) s = f j0 s.
  Proof.
    intros skip n j0 s Hj Ho Hon Hs Hf Hf0.
    replace n with (j0 + S (n - S j0)) by lia. rewrite seq_app, dloop_app. simpl.
    rewrite dloop_inactive.
    2:{ intros k Hk _. apply in_seq in Hk. apply Ho. lia. }
    assert (E : (match skip with Some i => Nat.eqb i j0 | None => false end) = false).
    { destruct skip as [i|]; auto. apply Nat.eqb_neq. congruence. }
    rewrite E. unfold on in Hon. rewrite Hon. simpl.
    destruct (f j0 s) as [s1 [|]] eqn:Ef; auto. simpl in *.
    apply dloop_inactive. intros k Hk _. apply in_seq in Hk.
    destruct (Nat.eq_dec k j0) as [->|Hne]; auto.
  Qed.
End Loops.

Section Kinds.
  Variable kinds : list nat.
  Let n := length kinds.

  Definition failing (s : state) (j : nat) : bool := Nat.eqb (nth j kinds 0) 2 && nth j (cfail s) false.

  (* switch-off of the only marked input while the output names self *)
  Lemma set_inactive0_single : forall s j, others_off s j ->
    if failing s j then set_inactive0 kinds j s = (s, false)
    else exists s1, set_inactive0 kinds j s = (s1, true) /\ all_off s1 /\ by_ s1 = by_ s /\
                    length (act s1) = length (act s) /\ cfail s1 = cfail s.
  Proof.
    intros s j Ho. unfold failing, set_inactive0.
    destruct (nth j kinds 0) as [|[|[|k]]]; simpl.
    - eexists; split; [reflexivity|]. split; [now apply off_single|]. simpl. now rewrite set_nth_len.
    - eexists; split; [reflexivity|]. split; [now apply (off_single (out_write_idle 0%Z s))|]. simpl. now rewrite set_nth_len.
    - destruct (nth j (cfail s) false); auto.
      eexists; split; [reflexivity|]. split; [now apply off_single|]. simpl. now rewrite set_nth_len.
    - eexists; split; [reflexivity|]. split; [now apply off_single|]. simpl. now rewrite set_nth_len.
  Qed.

  (* the output's write_target while exactly input j0 is marked and the output names somebody *)
  Lemma out_write_single : forall v s j0, j0 < n -> others_off s j0 -> on s j0 = true -> by_ s <> 0 ->
    if failing s j0 then out_write kinds v s = (name_self s, false)
    else exists s1, out_write kinds v s = (s1, true) /\ all_off s1 /\ by_ s1 = 0 /\
                    length (act s1) = length (act s) /\ cfail s1 = cfail s /\ otarget s1 = v.
  Proof.
    intros v s j0 Hj Ho Hon Hb. unfold out_write. destruct (by_ s) eqn:Eb; [congruence|].
    pose proof (set_inactive0_single (name_self s) j0 Ho) as H0.
    assert (Hd : dloop (set_inactive0 kinds) None (seq 0 n) (name_self s) = set_inactive0 kinds j0 (name_self s)).
    { apply dloop_single; auto; try discriminate.
      - unfold failing in H0. simpl in H0. fold (failing s j0) in H0. destruct (failing s j0).
        + rewrite H0. exact Ho.
        + destruct H0 as (s1 & -> & Ha & _). intros k _. apply Ha.
      - unfold failing in H0. simpl in H0. fold (failing s j0) in H0. destruct (failing s j0).
        + rewrite H0. discriminate.
        + destruct H0 as (s1 & -> & Ha & _). intros _. apply Ha. }
    fold n. rewrite Hd. unfold failing in H0. simpl in H0. fold (failing s j0) in H0. destruct (failing s j0).
    - rewrite H0. reflexivity.
    - destruct H0 as (s1 & -> & Ha & Hby & Hl & Hc). eexists. split; [reflexivity|].
      split; [exact Ha|]. simpl. auto.
  Qed.

  (* general switch-off of the only marked input *)
  Lemma set_inactive1_single : forall s j0, j0 < n -> others_off s j0 -> on s j0 = true -> by_ s <> 0 ->
    if failing s j0 then set_inactive1 kinds j0 s = (s, false)
    else exists s1, set_inactive1 kinds j0 s = (s1, true) /\ all_off s1 /\ length (act s1) = length (act s) /\
                    cfail s1 = cfail s.
  Proof.
    intros s j0 Hj Ho Hon Hb. unfold set_inactive1.
    pose proof (set_inactive0_single s j0 Ho) as H0.
    pose proof (out_write_single 0%Z s j0 Hj Ho Hon Hb) as H1.
    unfold failing in *. destruct (nth j0 kinds 0) as [|[|[|k]]] eqn:Ek; simpl in *.
    - destruct H0 as (s1 & E & Ha & _ & Hl & Hc). eauto.
    - destruct H1 as (s1 & -> & Ha & _ & Hl & Hc & _). eexists. split; [reflexivity|].
      split; [apply off_single; intros k _; apply Ha|]. simpl. now rewrite set_nth_len.
    - destruct (nth j0 (cfail s) false); auto. destruct H0 as (s1 & E & Ha & _ & Hl & Hc). eauto.
    - destruct H0 as (s1 & E & Ha & _ & Hl & Hc). eauto.
  Qed.

  (* at most one controller is marked; the output names it; nobody marked <-> controlled_by = self *)
  Definition Inv (s : state) : Prop :=
    length (act s) = n /\ by_ s <= n /\ forall j, on s j = true <-> by_ s = S j.

  Definition op_wf (o : op) : Prop :=
    match o with WriteT i _ => i < n | UpdT i _ => i < n | WriteO _ => True | CFault _ => True end.

  (* the finding class: the output's own target is written while the switch-off of the controlling module raises *)
  Definition self_controlled_fails (s : state) (o : op) : bool :=
    match o, by_ s with
    | WriteO _, S j => failing s j
    | _, _ => false
    end.

  Lemma nth_repeat_false : forall m j, nth j (repeat false m) false = false.
  Proof. induction m; destruct j; simpl; auto. Qed.

  Lemma init_inv : Inv (init kinds).
  Proof.
    unfold Inv, init, on; simpl. rewrite repeat_length. split; auto. split; [lia|].
    intros j. rewrite nth_repeat_false. split; discriminate.
  Qed.

  Lemma inv_single : forall s j0, Inv s -> by_ s = S j0 -> j0 < n /\ others_off s j0 /\ on s j0 = true.
  Proof.
    intros s j0 (Hl & Hb & Hi) E. split; [lia|]. split.
    - intros k Hk. destruct (on s k) eqn:F; auto. apply Hi in F. congruence.
    - now apply Hi.
  Qed.

  Lemma inv_idle : forall s, Inv s -> by_ s = 0 -> all_off s.
  Proof. intros s (Hl & Hb & Hi) E k. destruct (on s k) eqn:F; auto. apply Hi in F. congruence. Qed.

  (* the last part of activate_control on a state in which nobody else is marked *)
  Lemma activate_inv : forall s1 i v, i < n -> length (act s1) = n -> others_off s1 i ->
    Inv {| by_ := S i; act := set_nth i true (act s1); otarget := otarget s1; ctarget := set_nth i v (ctarget s1);
           cfail := cfail s1;
           evs := (11 + 2 * i, [v]) :: (10 + 2 * i, [1%Z]) :: (0, [Z.of_nat (S i)]) :: evs s1 |}.
  Proof.
    intros s1 i v Hi Hl Ho. unfold Inv, on; simpl. rewrite set_nth_len. split; auto. split; [lia|].
    intros j. rewrite nth_set_true by lia. destruct (Nat.eqb j i) eqn:E; simpl.
    - apply Nat.eqb_eq in E. subst. tauto.
    - apply Nat.eqb_neq in E. fold (on s1 j). rewrite (Ho j E). split; [discriminate|congruence].
  Qed.

  Lemma write_target_inv : forall s i v, i < n -> Inv s -> Inv (fst (step kinds s (WriteT i v))).
  Proof.
    intros s i v Hi HI. pose proof HI as (Hl & Hb & Hiff). simpl. fold n.
    destruct (by_ s) as [|j0] eqn:Eb.
    - rewrite dloop_inactive. 2:{ intros k _ _. now apply inv_idle. }
      simpl. apply activate_inv; auto. intros k _. now apply inv_idle.
    - destruct (inv_single s j0 HI Eb) as (Hj & Ho & Hon).
      destruct (Nat.eq_dec j0 i) as [->|Hne].
      + rewrite dloop_inactive. 2:{ intros k _ Hs. apply Ho. congruence. }
        simpl. apply activate_inv; auto.
      + assert (Hbn : by_ s <> 0) by lia.
        pose proof (set_inactive1_single s j0 Hj Ho Hon Hbn) as H1.
        assert (Hd : dloop (set_inactive1 kinds) (Some i) (seq 0 n) s = set_inactive1 kinds j0 s).
        { apply dloop_single; auto; try congruence.
          - destruct (failing s j0); [rewrite H1; exact Ho|]. destruct H1 as (s1 & -> & Ha & _). intros k _. apply Ha.
          - destruct (failing s j0); [rewrite H1; discriminate|]. destruct H1 as (s1 & -> & Ha & _). intros _. apply Ha. }
        rewrite Hd. destruct (failing s j0).
        * rewrite H1. exact HI.
        * destruct H1 as (s1 & -> & Ha & Hl1 & _). simpl. apply activate_inv; auto; [congruence|].
          intros k _. apply Ha.
  Qed.

  Lemma write_output_inv : forall s v, self_controlled_fails s (WriteO v) = false -> Inv s ->
    Inv (fst (step kinds s (WriteO v))).
  Proof.
    intros s v Hg HI. pose proof HI as (Hl & Hb & Hiff). simpl. simpl in Hg.
    destruct (by_ s) as [|j0] eqn:Eb.
    - unfold out_write. rewrite Eb. simpl. unfold Inv, on; simpl. rewrite Eb. auto.
    - destruct (inv_single s j0 HI Eb) as (Hj & Ho & Hon).
      assert (Hbn : by_ s <> 0) by lia.
      pose proof (out_write_single v s j0 Hj Ho Hon Hbn) as H1. rewrite Hg in H1.
      destruct H1 as (s1 & -> & Ha & Hb1 & Hl1 & _). simpl.
      unfold Inv. rewrite Hl1, Hb1. split; auto. split; [lia|]. intros j. rewrite Ha. split; discriminate.
  Qed.

  Lemma step_inv : forall s o, op_wf o -> self_controlled_fails s o = false -> Inv s -> Inv (fst (step kinds s o)).
  Proof.
    intros s o Hw Hg HI. destruct o as [i v | v | i v | fl].
    - now apply write_target_inv.
    - now apply write_output_inv.
    - exact HI.
    - exact HI.
  Qed.

  Fixpoint run_ok (s : state) (ops : list op) : Prop :=
    match ops with
    | [] => True
    | o :: r => op_wf o /\ self_controlled_fails s o = false /\ run_ok (fst (step kinds s o)) r
    end.

  Lemma fold_inv : forall ops s, run_ok s ops -> Inv s -> Inv (fold_left (fun s o => fst (step kinds s o)) ops s).
  Proof.
    induction ops as [|o ops IH]; intros s Hr HI; simpl; auto.
    destruct Hr as (Hw & Hg & Hr). apply IH; auto. now apply step_inv.
  Qed.

  Lemma single_controller : forall ops, run_ok (init kinds) ops ->
    let s := run kinds ops in
    (forall j k, nth j (act s) false = true -> nth k (act s) false = true -> j = k) /\
    (forall j, nth j (act s) false = true <-> by_ s = S j) /\
    (by_ s = 0 <-> forall j, nth j (act s) false = false) /\
    by_ s <= n /\ length (act s) = n.
  Proof.
    intros ops Hr. destruct (fold_inv ops (init kinds) Hr init_inv) as (Hl & Hb & Hi). simpl. unfold run.
    set (s := fold_left (fun s o => fst (step kinds s o)) ops (init kinds)) in *. unfold on in Hi.
    repeat split; auto.
    - intros j k Hj Hk. apply Hi in Hj, Hk. congruence.
    - apply Hi.
    - apply Hi.
    - intros H0 j. destruct (nth j (act s) false) eqn:E; auto. apply Hi in E. congruence.
    - intros Hall. destruct (by_ s) eqn:E; auto.
      assert (H : nth n0 (act s) false = true) by (apply Hi; reflexivity).
      rewrite Hall in H. discriminate.
  Qed.

  (* taking over in a consistent state: either the switch-off of the controlling module raised and NOTHING changed
     (refused take-over), or the new controller is the only one marked and the output names it *)
  Lemma takeover : forall s i v, i < n -> Inv s ->
    let '(s', r) := step kinds s (WriteT i v) in
    match r with
    | ROk _ => by_ s' = S i /\ (forall j, nth j (act s') false = true <-> j = i)
    | RErr _ => s' = s /\ exists j, by_ s = S j /\ j <> i /\ failing s j = true
    end.
  Proof.
    intros s i v Hi HI. pose proof (write_target_inv s i v Hi HI) as HI'.
    pose proof HI as (Hl & Hb & Hiff). simpl in *. fold n in HI'. fold n.
    destruct (by_ s) as [|j0] eqn:Eb.
    - rewrite dloop_inactive in *. 2,3: intros k _ _; now apply inv_idle.
      simpl in *. destruct HI' as (_ & _ & H). split; auto.
      intros j. unfold on in H. simpl in H. rewrite H. split; congruence.
    - destruct (inv_single s j0 HI Eb) as (Hj & Ho & Hon).
      destruct (Nat.eq_dec j0 i) as [->|Hne].
      + rewrite dloop_inactive in *. 2,3: intros k _ Hs; apply Ho; congruence.
        simpl in *. destruct HI' as (_ & _ & H). split; auto.
        intros j. unfold on in H. simpl in H. rewrite H. split; congruence.
      + assert (Hbn : by_ s <> 0) by lia.
        pose proof (set_inactive1_single s j0 Hj Ho Hon Hbn) as H1.
        assert (Hd : dloop (set_inactive1 kinds) (Some i) (seq 0 n) s = set_inactive1 kinds j0 s).
        { apply dloop_single; auto; try congruence.
          - destruct (failing s j0); [rewrite H1; exact Ho|]. destruct H1 as (s1 & -> & Ha & _). intros k _. apply Ha.
          - destruct (failing s j0); [rewrite H1; discriminate|]. destruct H1 as (s1 & -> & Ha & _). intros _. apply Ha. }
        rewrite Hd in *. destruct (failing s j0) eqn:Ef.
        * rewrite H1. split; auto. exists j0. auto.
        * destruct H1 as (s1 & E1 & Ha & Hl1 & _). rewrite E1 in *. simpl in *.
          destruct HI' as (_ & _ & H). split; auto.
          intros j. unfold on in H. simpl in H. rewrite H. split; congruence.
  Qed.

  (* from a consistent state the output's own write fails exactly in the finding class, and then the output already
     names self while the controller is still marked *)
  Lemma write_output_fails : forall s v j, Inv s -> by_ s = S j -> failing s j = true ->
    step kinds s (WriteO v) = (name_self s, RErr 3).
  Proof.
    intros s v j HI Eb Hf. destruct (inv_single s j HI Eb) as (Hj & Ho & Hon).
    assert (Hbn : by_ s <> 0) by lia.
    pose proof (out_write_single v s j Hj Ho Hon Hbn) as H1. rewrite Hf in H1. simpl. now rewrite H1.
  Qed.
End Kinds.
