(* C18 - property theorems only; each is closed by a lemma of Lemmas*.v.  Layouts, states and histories are
   universally quantified; the guards name exactly the finding classes proved in Refuted.v. *)
From Coq Require Import List Arith ZArith Bool Lia.
Import ListNotations.
Require Import FV.Gen.C18 FV.C18.Model FV.C18.LemmasSt FV.C18.LemmasFe FV.C18.LemmasLi FV.C18.LemmasCo FV.C18.LemmasMo FV.C18.LemmasCs FV.C18.Refuted.

(* obligations on the facts regenerated from /repo (Gen/C18.v) *)
Theorem C18_source_facts :
  struct_callbacks_shape = true /\ struct_generated_methods_shape = true /\
  struct_member_write_returns_readback = true /\
  floatenum_value_derived_from_index = true /\ floatenum_write_selects_closest = true /\
  floatenum_write_returns_current_value = true /\ floatenum_init_shape = true /\
  check_limits_shape = true /\ check_function_installed_for_limits = true /\
  limit_check_installed_per_class_dict = true /\ limit_postfixes = true /\
  limit_datatype_from_base = true /\ limitstype_refuses_inverted = true /\
  activate_control_shape = true /\ self_controlled_shape = true /\ update_target_lookup_by_member = true /\
  callbacks_before_update_sent = true /\
  input_callbacks_per_instance = true /\ read_wrapper_announces_inside_access_lock = true.
Proof. repeat split; reflexivity. Qed.

(* STRUCT.  Full statement: for every layout, every fault script and every history, struct and members agree member by
   member.  It fails (Refuted.v, four witnesses) for a driver assignment to the side from which no callback propagates and
   for a generated struct read / write loop that a raising member aborts after the cache of an earlier member changed.
   Proved for every other history (LemmasSt.run_ok: well formed operations, no such assignment, no such abort), in every
   layout: reads, writes, hardware changes, propagating assignments, and faults of the fake driver - raising member methods
   in direct access, raising first member (or any member before a change) inside the generated loops, raising combined
   methods.  The insideRW counter is restored by try/finally (source fact), which is why it is not part of the state. *)
Theorem C18_struct_agree_except_unpropagated_assign_and_partial_abort : forall L ops,
  LemmasSt.run_ok L (St.init L) ops ->
  let s := St.run L ops in
  length (St.cst s) = St.sl_n L /\ length (St.cmem s) = St.sl_n L /\
  forall i, i < St.sl_n L -> nth i (St.cst s) 0%Z = nth i (St.cmem s) 0%Z.
Proof. intros L ops Hr. exact (LemmasSt.struct_agree L ops Hr). Qed.

(* while the fault script is empty no loop is ever aborted (the guard above then only excludes the two assignments) *)
Theorem C18_no_fault_no_partial_abort : forall L s o, LemmasSt.no_faults s -> St.partial_abort L s o = false.
Proof. intros L s o H. exact (LemmasSt.no_fault_no_abort L s o H). Qed.

(* WRITE OF A MEMBER in the layout with combined read_<struct> / write_<struct>, for EVERY coercion script of the hardware
   behind write_<struct> (it rounds / clamps / replaces any member, also members that were not written), every fault script
   and every layout (both methods written, or only one of them).  The generated write_<member> is
   [write_<struct>(cached struct with the member replaced); return read_<member>()]:
   (1) from every state in which struct and members agree (so after every admitted history): they agree afterwards, whether
       the write succeeded or failed (RangeError: write_<struct> raised or answered outside the range; HardwareError: the
       read back raised); a successful write replies the value the member parameter now holds - the value READ BACK; with a
       user written read_<struct> struct = members = what the hardware holds; with a user written write_<struct> the reply is
       what the hardware made of the request (clookup), not the request;
   (2) after every admitted history (LemmasSt.run_ok: the guards of the open findings, as in the theorem above) followed by a
       member write: struct and members agree member by member. *)
Theorem C18_struct_member_write_consistent :
  (forall L s i v, St.sl_rw L = true -> i < St.sl_n L -> LemmasSt.Inv L s ->
     let '(s', r) := St.step L s (St.WriteM i v) in
     St.cst s' = St.cmem s' /\ length (St.cmem s') = St.sl_n L /\
     match r with
     | ROk x => x = [nth i (St.cmem s') 0%Z] /\ x = [nth i (St.cst s') 0%Z] /\
                (St.sl_sr L = true -> St.cmem s' = St.hw s') /\
                (St.sl_sw L = true -> x = [St.clookup i v (St.csc s)])
     | RErr c => c = 1 \/ c = 3
     end) /\
  (forall L ops i v, LemmasSt.run_ok L (St.init L) ops -> St.sl_rw L = true -> i < St.sl_n L ->
     let s := St.run L (ops ++ [St.WriteM i v]) in
     length (St.cst s) = St.sl_n L /\ length (St.cmem s) = St.sl_n L /\
     forall j, j < St.sl_n L -> nth j (St.cst s) 0%Z = nth j (St.cmem s) 0%Z).
Proof.
  split.
  - intros L s i v Hrw Hi HI. exact (LemmasSt.member_write_step L s i v Hrw Hi HI).
  - intros L ops i v Hr Hrw Hi. exact (LemmasSt.member_write_after_history L ops i v Hr Hrw Hi).
Qed.

(* FLOAT/ENUM.  Full statement: after every history the value given to clients is the table value of the index.
   It fails on the fresh module and after a driver assignment to the float parameter (Refuted.v);
   proved: (a) from a consistent initial cache, (b) from any state as soon as the index was announced once,
   for every later history without such an assignment. *)
Theorem C18_floatenum_value_from_consistent_init : forall L ops,
  LemmasFe.consistent L (Fe.init L) -> forallb (fun o => negb (LemmasFe.is_setf o)) ops = true ->
  Fe.cf (Fe.run L ops) = Fe.shown L (Fe.run L ops).
Proof. intros L ops H0 Hn. exact (LemmasFe.value_from_init L ops H0 Hn). Qed.

Theorem C18_floatenum_value_after_index_update : forall L pre o post,
  LemmasFe.establishes L (Fe.run L pre) o = true -> forallb (fun o => negb (LemmasFe.is_setf o)) post = true ->
  Fe.cf (Fe.run L (pre ++ o :: post)) = Fe.shown L (Fe.run L (pre ++ o :: post)).
Proof. intros L pre o post He Hn. exact (LemmasFe.value_after_index_update L pre o post He Hn). Qed.

(* WRITE OF THE FLOAT PARAMETER, every layout (also a driver-defined write_<idx> that follows an arbitrary script: takes the
   requested index over, sets ANOTHER index instead, or raises), from every state (so after every history):
   - a write outside the table range is refused (RangeError) without effect;
   - otherwise write_<idx> is asked for closest v, an index whose table value has minimal distance to v, and every table value
     is writable (inside the range);
   - if write_<idx> raises, the write fails (HardwareError) and NOTHING has changed;
   - otherwise the cached value, the reply and the updates sent (float, index, float) are the table value of the index that
     write_<idx> REALLY set; that index is the closest one whenever the driver takes the request over. *)
Theorem C18_closest : forall L s v, Fe.vdict L <> [] ->
  (let '(s', r) := Fe.step L s (Fe.WriteF v) in
   let k := Fe.closest v (Fe.vdict L) in
   if ((v <? Fe.vmin (Fe.vdict L)) || (Fe.vmax (Fe.vdict L) <? v))%Z
   then s' = s /\ r = RErr 1
   else if LemmasFe.drv_ok L s k
        then r = ROk [Fe.shown L s'] /\ Fe.cf s' = Fe.shown L s' /\
             Fe.evs s' = (0, [Fe.shown L s']) :: (1, [Fe.ci s']) :: (0, [Fe.shown L s']) :: Fe.evs s /\
             (LemmasFe.takes_over L s k = true -> Fe.ci s' = k)
        else s' = s /\ r = RErr 3) /\
  (exists x, In (Fe.closest v (Fe.vdict L), x) (Fe.vdict L) /\
             forall j y, In (j, y) (Fe.vdict L) -> (Z.abs (x - v) <= Z.abs (y - v))%Z) /\
  (forall j y, In (j, y) (Fe.vdict L) -> (Fe.vmin (Fe.vdict L) <= y <= Fe.vmax (Fe.vdict L))%Z).
Proof.
  intros L s v Hne. split; [|split].
  - pose proof (LemmasFe.write_float_spec L s v) as H. cbv zeta in H.
    destruct (Fe.step L s (Fe.WriteF v)) as (s', r). cbv zeta.
    destruct ((v <? Fe.vmin (Fe.vdict L)) || (Fe.vmax (Fe.vdict L) <? v))%Z; [exact H|].
    destruct (LemmasFe.drv_ok L s (Fe.closest v (Fe.vdict L))); [|exact H].
    destruct H as (H1 & H2 & H3 & H4). auto.
  - exact (LemmasFe.write_selects_closest L v Hne).
  - intros j y H. exact (LemmasFe.table_in_range (Fe.vdict L) j y H).
Qed.

(* after a write of the float parameter - successful or failed, whatever write_<idx> does with the request - the value
   belongs to the index: (1) from ANY state a successful write leaves cache = reply = table value of the current index and a
   failed one (RangeError of the datatype, or write_<idx> raised) leaves the state exactly as it was; (2) hence after every
   history in which the index was announced once and the float parameter was not assigned since (the guards of the two
   theorems above: the open findings floatenum-initial-cache and floatenum-assign-float), a further write of the float
   parameter - successful or not - ends with cache = valuedict[index]. *)
Theorem C18_floatenum_write_consistent :
  (forall L s v, let '(s', r) := Fe.step L s (Fe.WriteF v) in
     match r with
     | ROk x => Fe.cf s' = Fe.shown L s' /\ x = [Fe.shown L s']
     | RErr c => s' = s /\ (c = 1 \/ c = 3)
     end) /\
  (forall L pre o post v,
     LemmasFe.establishes L (Fe.run L pre) o = true -> forallb (fun o => negb (LemmasFe.is_setf o)) post = true ->
     let s := Fe.run L (pre ++ o :: post ++ [Fe.WriteF v]) in Fe.cf s = Fe.shown L s) /\
  (forall L ops v,
     LemmasFe.consistent L (Fe.init L) -> forallb (fun o => negb (LemmasFe.is_setf o)) ops = true ->
     let s := Fe.run L (ops ++ [Fe.WriteF v]) in Fe.cf s = Fe.shown L s).
Proof.
  split; [exact LemmasFe.write_float_consistent|]. split.
  - intros L pre o post v He Hn. exact (LemmasFe.write_float_after_history L pre o post v He Hn).
  - intros L ops v H0 Hn. apply LemmasFe.value_from_init; auto. rewrite forallb_app, Hn. reflexivity.
Qed.

(* LIMITS.  For every class layout of the module - which class of the hierarchy defines the parameter, which classes (also
   plain mixins, also several) define a_min / a_max / a_limits as Limit(), which classes carry a check_a written by the
   programmer - with the list of check functions DERIVED as HasAccessibles.__init_subclass__ derives it (class by class,
   `check_a not in base.__dict__`), and from every state (so after every history, including driver assignments to the limits):
   an accepted write lies inside the datatype range and inside EVERY limit parameter of the module and is stored; a refused
   write changes nothing.  LemmasLi.layout_wf: the module class derives from Module, a is an accessible, and a check_a written
   in the very class that defines a limit parameter calls checkLimits itself (it replaces the generated one by design).
   (Until e1c174f a_limits shadowed a_min / a_max; the guard and the witness are gone.)
   Second part: the verdict is the same in every class layout - accepted iff inside the datatype range, accepted by checkLimits
   and (if a check_a exists anywhere) by the plausibility test of the programmer. *)
Theorem C18_limits_respected :
  (forall L s v s', LemmasLi.layout_wf L ->
     (forall r, Li.step L s (Li.WriteA v) = (s', ROk r) -> LemmasLi.within_all L s v /\ Li.va s' = v /\ r = [v]) /\
     (forall c, Li.step L s (Li.WriteA v) = (s', RErr c) -> s' = s /\ c = 1)) /\
  (forall L s v, LemmasLi.layout_wf L ->
     ((exists s', Li.step L s (Li.WriteA v) = (s', ROk [v])) <->
      Li.in_base L v = true /\ Li.check_limits L s v = true /\ (LemmasLi.any_user L = true -> Li.plausible v = true))).
Proof.
  split.
  - intros L s v s' Hwf. split.
    + intros r H. exact (LemmasLi.write_accepted_within_all L s v s' r Hwf H).
    + intros c H. exact (LemmasLi.write_refused_unchanged L s v s' c H).
  - intros L s v Hwf. exact (LemmasLi.write_verdict_layout_independent L s v Hwf).
Qed.

(* an inverted pair in force (a_limits hi < lo, or a_min > a_max, in any class layout) refuses every write of the base parameter; a LimitsType
   parameter refuses an inverted pair and never holds one, whatever the history *)
Theorem C18_inverted_refused :
  (forall L s v, LemmasLi.layout_wf L -> LemmasLi.inverted_in_force L s -> Li.step L s (Li.WriteA v) = (s, RErr 1)) /\
  (forall L s lo hi, (hi < lo)%Z -> Li.step L s (Li.WriteRng lo hi) = (s, RErr 1)) /\
  (forall L ops, (fst (Li.vrng (Li.run L ops)) <= snd (Li.vrng (Li.run L ops)))%Z).
Proof.
  split; [exact LemmasLi.inverted_refuses_all|]. split; [exact LemmasLi.rng_inverted_refused|].
  exact LemmasLi.run_rng_ordered.
Qed.

(* limits set through write requests only stay inside the base range *)
Theorem C18_limits_in_base_range : forall L ops, (Li.l_lo L <= 0 <= Li.l_hi L)%Z ->
  forallb (fun o => negb (LemmasLi.is_set o)) ops = true -> LemmasLi.limits_in_base L (Li.run L ops).
Proof. intros L ops H0 Hn. exact (LemmasLi.run_limits_in_base L ops H0 Hn). Qed.

(* CONTROL.  Controllers of three kinds: plain; switch-off first writes the safe value to the output's target (the output
   calls self_controlled in the middle of the take-over); switch-off raises while its fault flag is set.
   Full statement: after every history at most one controller is marked, the output names exactly the marked one, and names
   self iff nobody is marked.  It fails (Refuted.v) when the output's own target is written while the switch-off of the
   controlling module raises.  Proved for every other history of target writes (controllers, output), update_target calls
   and fault script changes - including every take-over through a safe-value writer and every refused take-over. *)
Theorem C18_single_controller_except_failing_self_controlled : forall kinds ops,
  LemmasCo.run_ok kinds (Co.init kinds) ops ->
  let s := Co.run kinds ops in
  (forall j k, nth j (Co.act s) false = true -> nth k (Co.act s) false = true -> j = k) /\
  (forall j, nth j (Co.act s) false = true <-> Co.by_ s = S j) /\
  (Co.by_ s = 0 <-> forall j, nth j (Co.act s) false = false) /\
  Co.by_ s <= length kinds /\ length (Co.act s) = length kinds.
Proof. intros kinds ops Hr. exact (LemmasCo.single_controller kinds ops Hr). Qed.

(* taking over from any consistent state (so: any reachable one): either the new controller is the only one marked and the
   output names it, or the switch-off of the previous controller raised, the take-over is refused and NOTHING has changed *)
Theorem C18_takeover_switches_previous_off_or_is_refused : forall kinds s i v, i < length kinds -> LemmasCo.Inv kinds s ->
  let '(s', r) := Co.step kinds s (Co.WriteT i v) in
  match r with
  | ROk _ => Co.by_ s' = S i /\ (forall j, nth j (Co.act s') false = true <-> j = i)
  | RErr _ => s' = s /\ exists j, Co.by_ s = S j /\ j <> i /\ LemmasCo.failing kinds s j = true
  end.
Proof. intros kinds s i v Hi HI. exact (LemmasCo.takeover kinds s i v Hi HI). Qed.

(* every single step keeps the invariant (this is what makes the order inside activate_control matter) *)
Theorem C18_control_step_invariant : forall kinds s o,
  LemmasCo.op_wf kinds o -> LemmasCo.self_controlled_fails kinds s o = false -> LemmasCo.Inv kinds s ->
  LemmasCo.Inv kinds (fst (Co.step kinds s o)).
Proof. intros kinds s o Hw Hg HI. exact (LemmasCo.step_inv kinds s o Hw Hg HI). Qed.

(* non-vacuity: concrete histories *)
Example C18_demo_struct :
  let s := St.run Refuted.L_combined [St.Hw [7%Z]; St.WriteM 0 3%Z] in (St.cst s, St.cmem s, St.hw s) = ([3%Z], [3%Z], [3%Z]).
Proof. vm_compute. reflexivity. Qed.
Example C18_demo_floatenum :
  let s := Fe.run Refuted.L_desc [Fe.WriteF 1%Z] in (Fe.ci s, Fe.cf s, rev (Fe.evs s)) = (1%Z, 1%Z, [(0, [1%Z]); (1, [1%Z]); (0, [1%Z])]).
Proof. vm_compute. reflexivity. Qed.
(* a driver-defined write_<idx> that answers with index 0 when index 1 is requested: the float write of 0.5 (closest: index 1)
   ends with index 0 and value, reply and updates of index 0 (1.0); when it raises nothing changes *)
Definition L_scripted : Fe.layout :=
  {| Fe.f_labels := Fe.f_labels Refuted.L_desc; Fe.f_ri := false; Fe.f_wi := 3 |}.
Example C18_demo_floatenum_coerced :
  let '(s, r) := Fe.step L_scripted (Fe.run L_scripted [Fe.SetI 1%Z; Fe.Script [(1%Z, Some 0%Z)]]) (Fe.WriteF 1%Z) in
  (r, Fe.ci s, Fe.cf s, Fe.hwi s, firstn 3 (Fe.evs s)) = (ROk [2%Z], 0%Z, 2%Z, 0%Z, [(0, [2%Z]); (1, [0%Z]); (0, [2%Z])]) /\
  Fe.step L_scripted (Fe.run L_scripted [Fe.SetI 0%Z; Fe.Script [(1%Z, None)]]) (Fe.WriteF 1%Z)
  = (Fe.run L_scripted [Fe.SetI 0%Z; Fe.Script [(1%Z, None)]], RErr 3).
Proof. vm_compute. split; reflexivity. Qed.
Example C18_demo_control :
  let s := Co.run [0; 0; 0] [Co.WriteT 0 1%Z; Co.WriteT 2 5%Z] in
  (Co.by_ s, Co.act s) = (3, [false; false; true]) /\ In (10, [0%Z]) (Co.evs s).
Proof. vm_compute. split; [reflexivity|]. right. right. right. left. reflexivity. Qed.
(* take-over from a safe-value writer: the output went through controlled_by = self and target 0 in the middle *)
Example C18_demo_control_safe_writer :
  let s := Co.run [1; 0] [Co.WriteT 0 1%Z; Co.WriteT 1 5%Z] in
  (Co.by_ s, Co.act s, Co.otarget s) = (2, [false; true], 0%Z) /\
  rev (firstn 8 (Co.evs s)) = [(0, [0%Z]); (1, [0%Z]); (10, [0%Z]); (1, [0%Z]); (10, [0%Z]); (0, [2%Z]); (12, [1%Z]); (13, [5%Z])].
Proof. vm_compute. split; reflexivity. Qed.
(* refused take-over, and a fault inside a generated struct read that is admissible (first member raises) *)
Example C18_demo_control_refused :
  let s := Co.run [2; 0] [Co.WriteT 0 1%Z; Co.CFault [true]; Co.WriteT 1 5%Z] in (Co.by_ s, Co.act s) = (1, [true; false]).
Proof. vm_compute. reflexivity. Qed.
Example C18_demo_struct_fault :
  LemmasSt.run_ok Refuted.L_two (St.init Refuted.L_two)
    [St.Hw [5%Z; 6%Z]; St.Fault [true; false] []; St.ReadS; St.Fault [] []; St.WriteM 1 3%Z] /\
  St.cst (St.run Refuted.L_two [St.Hw [5%Z; 6%Z]; St.Fault [true; false] []; St.ReadS; St.Fault [] []; St.WriteM 1 3%Z]) = [0%Z; 3%Z].
Proof. vm_compute. repeat split; lia. Qed.

(* class layouts.  An ancestor defines a together with its own check_a, a subclass adds a_min / a_max: the generated limit check
   is put on the subclass (check_a is inherited, but not in the __dict__ of the subclass) and stands before the inherited one *)
Definition K (acc par : bool) (u : nat) (mn mx lm : bool) : Li.cls :=
  {| Li.c_acc := acc; Li.c_param := par; Li.c_user := u; Li.c_min := mn; Li.c_max := mx; Li.c_lim := lm |}.
Definition L_sub : Li.layout :=
  {| Li.l_lo := (-10)%Z; Li.l_hi := 10%Z; Li.l_classes := [K true false 0 true true false; K true true 1 false false false] |}.
Example C18_demo_limits_in_subclass :
  Li.chain (Li.l_classes L_sub) = [Li.CkAuto; Li.CkUser 1] /\ LemmasLi.layout_wf L_sub /\
  let s := Li.run L_sub [Li.WriteMin 0%Z] in
  snd (Li.step L_sub s (Li.WriteA (-6)%Z)) = RErr 1 /\ snd (Li.step L_sub s (Li.WriteA 5%Z)) = ROk [5%Z] /\
  snd (Li.step L_sub s (Li.WriteA 7%Z)) = RErr 1.
Proof. vm_compute. repeat split; eauto. Qed.
(* test_limit_inheritance of the repository: limits in a plain mixin between the module class and the base class, both with
   a check_a; and limits split over two classes (each gets a generated check) *)
Example C18_demo_limits_in_mixin :
  Li.chain [K true false 1 false false false; K false false 0 true true false; K true true 1 false false false]
    = [Li.CkUser 1; Li.CkAuto; Li.CkUser 1] /\
  Li.chain [K true false 0 false true false; K true true 0 true false false] = [Li.CkAuto; Li.CkAuto].
Proof. vm_compute. split; reflexivity. Qed.
(* the guard of layout_wf is needed: a check_a written in the class that defines the limit and not calling checkLimits replaces
   the generated check (by design), the limit is then not tested at all *)
Example C18_demo_user_check_next_to_limit_replaces_generated_check :
  let L := {| Li.l_lo := (-10)%Z; Li.l_hi := 10%Z; Li.l_classes := [K true true 1 true false false] |} in
  Li.chain (Li.l_classes L) = [Li.CkUser 1] /\
  snd (Li.step L (Li.run L [Li.WriteMin 0%Z]) (Li.WriteA (-6)%Z)) = ROk [(-6)%Z].
Proof. vm_compute. split; reflexivity. Qed.
(* a member write through a write_<struct> whose hardware takes 5 when 7 is asked for member 0: reply, member, struct and
   hardware all show 5 *)
Example C18_demo_struct_member_write_coerced :
  let '(s, r) := St.step Refuted.L_combined (St.run Refuted.L_combined [St.Coerce [(0, 7%Z, 5%Z)]]) (St.WriteM 0 7%Z) in
  (r, St.cst s, St.cmem s, St.hw s, rev (St.evs s)) = (ROk [5%Z], [5%Z], [5%Z], [5%Z],
     [(1, [5%Z]); (0, [5%Z]); (1, [5%Z]); (0, [5%Z]); (1, [5%Z]); (1, [5%Z])]).
Proof. vm_compute. reflexivity. Qed.

(* SEVERAL OUTPUT MODULES on one node, each with its own controllers (any number of outputs, any controller kinds, any
   history of addressed operations - take-overs, manual writes, update_target calls, fault changes - interleaved at will):
   (1) frame: one operation addressed to output k leaves the complete control state of every other output k' untouched
       (controlled_by, the control_active flags and targets of ITS controllers, its update stream);
   (2) after every history the state of output k is the state of the single-output model run on the operations addressed
       to k alone, so two histories that agree on k agree on its state whatever happens on the other outputs;
   (3) hence per output: at most one controller marked, the output names exactly that one, self iff nobody (for the
       histories admitted for that output by LemmasCo.run_ok, the guard being the open finding of failing switch-off).
   This rests on the source fact input_callbacks_per_instance (the callback dict is created per output instance). *)
Theorem C18_control_outputs_independent : forall Ls,
  (forall s k o k', k' <> k ->
     nth k' (Mo.outs (fst (Mo.step Ls s (k, o)))) Mo.co0 = nth k' (Mo.outs s) Mo.co0) /\
  (forall ops k, k < length Ls ->
     nth k (Mo.outs (Mo.run Ls ops)) Mo.co0 = Co.run (nth k Ls []) (Mo.ops_for k ops)) /\
  (forall ops ops' k, k < length Ls -> Mo.ops_for k ops = Mo.ops_for k ops' ->
     nth k (Mo.outs (Mo.run Ls ops)) Mo.co0 = nth k (Mo.outs (Mo.run Ls ops')) Mo.co0) /\
  (forall ops k, k < length Ls ->
     LemmasCo.run_ok (nth k Ls []) (Co.init (nth k Ls [])) (Mo.ops_for k ops) ->
     let s := nth k (Mo.outs (Mo.run Ls ops)) Mo.co0 in
     (forall j j', nth j (Co.act s) false = true -> nth j' (Co.act s) false = true -> j = j') /\
     (forall j, nth j (Co.act s) false = true <-> Co.by_ s = S j) /\
     (Co.by_ s = 0 <-> forall j, nth j (Co.act s) false = false)).
Proof.
  intros Ls. split; [intros; now apply LemmasMo.step_frame|]. split; [intros; now apply LemmasMo.run_proj|].
  split; [intros; now apply LemmasMo.run_independent|].
  intros ops k Hk Hr. cbv zeta. rewrite LemmasMo.run_proj by exact Hk.
  destruct (LemmasCo.single_controller _ _ Hr) as (H1 & H2 & H3 & _). auto.
Qed.

(* TWO THREADS on a module with a struct parameter.  Every wrapped read_ / write_ method is
   [acquire accessLock; body; release]; read_<struct> of the layout without combined methods is split in its two halves
   (collect the members / announce the collected dict) with a possible thread switch in between and at every lock
   operation.  For EVERY pair of programs and EVERY schedule:
   (1) mutual exclusion: at most one thread is inside a body, and exactly the lock holder is;
   (2) while the lock is free (in particular at quiescence) the module state is the state of the SERIAL execution of the
       completed operations in the order in which the lock was released - so between the collection and the announcement
       of read_<struct> no write of the other thread took place;
   (3) therefore struct and members agree member by member whenever the lock is free, under the guard of the
       sequential theorem applied to that serial history.
   Rests on the source fact read_wrapper_announces_inside_access_lock. *)
Theorem C18_struct_read_atomic : forall L pa pb sched,
  let c := Cs.run L pa pb sched in
  (forall t u, Cs.phase (Cs.get c t) <> 0 -> Cs.phase (Cs.get c u) <> 0 -> t = u) /\
  (Cs.holder c = None <-> forall t, Cs.phase (Cs.get c t) = 0) /\
  (Cs.quiescent c = true -> Cs.holder c = None) /\
  (Cs.holder c = None -> Cs.sst c = St.run L (rev (Cs.lin c))) /\
  (Cs.holder c = None -> LemmasSt.run_ok L (St.init L) (rev (Cs.lin c)) ->
     length (St.cst (Cs.sst c)) = St.sl_n L /\ length (St.cmem (Cs.sst c)) = St.sl_n L /\
     forall i, i < St.sl_n L -> nth i (St.cst (Cs.sst c)) 0%Z = nth i (St.cmem (Cs.sst c)) 0%Z).
Proof.
  intros L pa pb sched c. pose proof (LemmasCs.run_inv L pa pb sched) as HI. fold c in HI.
  destruct (LemmasCs.mutual_exclusion L c HI) as (H1 & H2).
  split; [exact H1|]. split; [exact H2|]. split; [exact (LemmasCs.quiescent_free L c HI)|].
  split; [exact (LemmasCs.serial_when_free L c HI)|].
  intros Hn Hr. rewrite (LemmasCs.serial_when_free L c HI Hn). exact (LemmasSt.struct_agree L _ Hr).
Qed.

(* non-vacuity: read_st of thread A and write_a 9 of thread B, layout without combined methods, hardware member a;
   B chosen between the two halves of the read stays blocked: the result is the serial run [ReadS; WriteM 0 9] *)
Example C18_demo_struct_read_atomic :
  let L := {| St.sl_n := 2; St.sl_rw := false; St.sl_sr := false; St.sl_sw := false; St.sl_mr := [true; true];
              St.sl_mw := [true; true]; St.sl_lo := (-100)%Z; St.sl_hi := 100%Z |} in
  let c := Cs.run L [St.ReadS] [St.WriteM 0 9%Z] [false; false; true; true; false; true; true; true] in
  Cs.quiescent c = true /\ rev (Cs.lin c) = [St.ReadS; St.WriteM 0 9%Z] /\
  St.cst (Cs.sst c) = [9%Z; 0%Z] /\ St.cmem (Cs.sst c) = [9%Z; 0%Z].
Proof. vm_compute. repeat split; reflexivity. Qed.

(* non-vacuity: two outputs; b (output 1) takes control, then a take-over and a manual write on output 0 *)
Example C18_demo_outputs_independent :
  let s := Mo.run [[0; 0]; [0]] [(1, Co.WriteT 0 1%Z); (0, Co.WriteT 0 2%Z); (0, Co.WriteT 1 3%Z); (0, Co.WriteO 4%Z)] in
  map Co.by_ (Mo.outs s) = [0; 1] /\ map Co.act (Mo.outs s) = [[false; false]; [true]].
Proof. vm_compute. split; reflexivity. Qed.

Print Assumptions C18_source_facts.
Print Assumptions C18_control_outputs_independent.
Print Assumptions C18_struct_read_atomic.
Print Assumptions C18_struct_agree_except_unpropagated_assign_and_partial_abort.
Print Assumptions C18_no_fault_no_partial_abort.
Print Assumptions C18_struct_member_write_consistent.
Print Assumptions C18_floatenum_value_from_consistent_init.
Print Assumptions C18_floatenum_value_after_index_update.
Print Assumptions C18_closest.
Print Assumptions C18_floatenum_write_consistent.
Print Assumptions C18_limits_respected.
Print Assumptions C18_inverted_refused.
Print Assumptions C18_limits_in_base_range.
Print Assumptions C18_single_controller_except_failing_self_controlled.
Print Assumptions C18_takeover_switches_previous_off_or_is_refused.
Print Assumptions C18_control_step_invariant.
Print Assumptions Refuted.C18_refuted_struct_assign_without_combined_methods.
Print Assumptions Refuted.C18_refuted_member_assign_with_combined_methods.
Print Assumptions Refuted.C18_refuted_floatenum_initial_cache.
Print Assumptions Refuted.C18_refuted_floatenum_assign_float.
Print Assumptions Refuted.C18_refuted_struct_write_partial_failure.
Print Assumptions Refuted.C18_refuted_struct_read_partial_failure.
Print Assumptions Refuted.C18_refuted_self_controlled_switch_off_fails.
