(* C18 - property theorems only; each is closed by a lemma of Lemmas*.v.  Layouts, states and histories are
   universally quantified; the guards name exactly the finding classes proved in Refuted.v. *)
From Coq Require Import List Arith ZArith Bool Lia.
Import ListNotations.
Require Import FV.Gen.C18 FV.C18.Model FV.C18.LemmasSt FV.C18.LemmasFe FV.C18.LemmasLi FV.C18.LemmasCo FV.C18.Refuted.

(* obligations on the facts regenerated from /repo (Gen/C18.v) *)
Theorem C18_source_facts :
  struct_callbacks_shape = true /\ struct_generated_methods_shape = true /\
  floatenum_value_derived_from_index = true /\ floatenum_write_selects_closest = true /\ floatenum_init_shape = true /\
  check_limits_shape = true /\ check_function_installed_for_limits = true /\ limit_postfixes = true /\
  limit_datatype_from_base = true /\ limitstype_refuses_inverted = true /\
  activate_control_shape = true /\ self_controlled_shape = true /\ update_target_lookup_by_member = true /\
  callbacks_before_update_sent = true.
Proof. repeat split; reflexivity. Qed.

(* STRUCT.  Full statement: for every layout and every history, struct and members agree member by member.
   It fails for a driver assignment to the side from which no callback propagates (Refuted.v, two witnesses);
   proved: every history of reads, writes, hardware changes and the propagating assignments, in every layout
   (combined methods: both / read only / write only; per-member methods: any subset) *)
Theorem C18_struct_agree_except_unpropagated_assign : forall L ops,
  Forall (LemmasSt.op_wf L) ops -> Forall (LemmasSt.op_safe L) ops ->
  let s := St.run L ops in
  length (St.cst s) = St.sl_n L /\ length (St.cmem s) = St.sl_n L /\
  forall i, i < St.sl_n L -> nth i (St.cst s) 0%Z = nth i (St.cmem s) 0%Z.
Proof. intros L ops Hw Hs. exact (LemmasSt.struct_agree L ops Hw Hs). Qed.

(* FLOAT/ENUM.  Full statement: after every history the value given to clients is the table value of the index.
   It fails on the fresh module and after a driver assignment to the float parameter (Refuted.v);
   proved: (a) from a consistent initial cache, (b) from any state as soon as the index was announced once,
   for every later history without such an assignment. *)
Theorem C18_floatenum_value_from_consistent_init : forall L ops,
  LemmasFe.consistent L (Fe.init L) -> forallb (fun o => negb (LemmasFe.is_setf o)) ops = true ->
  Fe.cf (Fe.run L ops) = Fe.shown L (Fe.run L ops).
Proof. intros L ops H0 Hn. exact (LemmasFe.value_from_init L ops H0 Hn). Qed.

Theorem C18_floatenum_value_after_index_update : forall L pre o post,
  LemmasFe.establishes L (Fe.run L pre) o = true -> forallb (fun o => negb (LemmasFe.is_setf o)) post = true ->
  Fe.cf (Fe.run L (pre ++ o :: post)) = Fe.shown L (Fe.run L (pre ++ o :: post)).
Proof. intros L pre o post He Hn. exact (LemmasFe.value_after_index_update L pre o post He Hn). Qed.

(* a write outside the table range is refused without effect; an accepted write selects an index whose value is
   at minimal distance, returns and caches that value; every table value is writable (inside the range) *)
Theorem C18_closest : forall L s v, Fe.vdict L <> [] ->
  (let '(s', r) := Fe.step L s (Fe.WriteF v) in
   if ((v <? Fe.vmin (Fe.vdict L)) || (Fe.vmax (Fe.vdict L) <? v))%Z
   then s' = s /\ r = RErr 1
   else r = ROk [Fe.shown L s'] /\ Fe.cf s' = Fe.shown L s' /\
        exists x, In (Fe.ci s', x) (Fe.vdict L) /\
                  forall j y, In (j, y) (Fe.vdict L) -> (Z.abs (x - v) <= Z.abs (y - v))%Z) /\
  (forall j y, In (j, y) (Fe.vdict L) -> (Fe.vmin (Fe.vdict L) <= y <= Fe.vmax (Fe.vdict L))%Z).
Proof.
  intros L s v Hne. split; [exact (LemmasFe.write_selects_closest L s v Hne)|].
  intros j y H. exact (LemmasFe.table_in_range (Fe.vdict L) j y H).
Qed.

(* LIMITS.  Full statement: an accepted write lies inside every limit parameter of the module (within_all).
   It fails when a_limits exists together with a_min / a_max (Refuted.v); proved for every other layout, from
   every state (so in particular after every history, including driver assignments to the limits) *)
Theorem C18_limits_respected_except_shadowed : forall L s v s' r,
  LemmasLi.shadowed L = false -> Li.step L s (Li.WriteA v) = (s', ROk r) ->
  LemmasLi.within_all L s v /\ Li.va s' = v.
Proof. intros L s v s' r Hs H. exact (LemmasLi.write_accepted_within_all L s v s' r Hs H). Qed.

(* all layouts: inside the datatype range and inside a_limits if it exists, otherwise inside a_min / a_max;
   a refused write changes nothing *)
Theorem C18_limits_respected_partial : forall L s v s',
  (forall r, Li.step L s (Li.WriteA v) = (s', ROk r) -> LemmasLi.within_effective L s v /\ Li.va s' = v /\ r = [v]) /\
  (forall c, Li.step L s (Li.WriteA v) = (s', RErr c) -> s' = s /\ c = 1).
Proof.
  intros L s v s'. split.
  - intros r H. exact (LemmasLi.write_accepted_effective L s v s' r H).
  - intros c H. exact (LemmasLi.write_refused_unchanged L s v s' c H).
Qed.

(* an inverted pair in force (a_limits, or a_min > a_max) refuses every write of the base parameter; a LimitsType
   parameter refuses an inverted pair and never holds one, whatever the history *)
Theorem C18_inverted_refused :
  (forall L s v, LemmasLi.inverted_in_force L s -> Li.step L s (Li.WriteA v) = (s, RErr 1)) /\
  (forall L s lo hi, (hi < lo)%Z -> Li.step L s (Li.WriteRng lo hi) = (s, RErr 1)) /\
  (forall L ops, (fst (Li.vrng (Li.run L ops)) <= snd (Li.vrng (Li.run L ops)))%Z).
Proof.
  split; [exact LemmasLi.inverted_refuses_all|]. split; [exact LemmasLi.rng_inverted_refused|].
  exact LemmasLi.run_rng_ordered.
Qed.

(* limits set through write requests only stay inside the base range *)
Theorem C18_limits_in_base_range : forall L ops, (Li.l_lo L <= 0 <= Li.l_hi L)%Z ->
  forallb (fun o => negb (LemmasLi.is_set o)) ops = true -> LemmasLi.limits_in_base L (Li.run L ops).
Proof. intros L ops H0 Hn. exact (LemmasLi.run_limits_in_base L ops H0 Hn). Qed.

(* CONTROL.  After every history of target writes on the controllers and on the output and of update_target calls:
   at most one controller is marked, the output names exactly the marked one, and names self iff nobody is marked *)
Theorem C18_single_controller : forall n ops, Forall (LemmasCo.op_wf n) ops ->
  let s := Co.run n ops in
  (forall j k, nth j (Co.act s) false = true -> nth k (Co.act s) false = true -> j = k) /\
  (forall j, nth j (Co.act s) false = true <-> Co.by_ s = S j) /\
  (Co.by_ s = 0 <-> forall j, nth j (Co.act s) false = false) /\
  Co.by_ s <= n /\ length (Co.act s) = n.
Proof. intros n ops Hw. exact (LemmasCo.single_controller n ops Hw). Qed.

(* taking over from ANY state: the new controller is the only one marked, the output names it, and every other
   controller that was marked has been sent control_active = false *)
Theorem C18_takeover_switches_previous_off : forall s i v, i < length (Co.act s) ->
  let s' := fst (Co.step s (Co.WriteT i v)) in
  Co.by_ s' = S i /\ length (Co.act s') = length (Co.act s) /\
  (forall j, nth j (Co.act s') false = true <-> j = i) /\
  (forall j, j <> i -> nth j (Co.act s) false = true -> In (10 + 2 * j, [0%Z]) (Co.evs s')).
Proof. intros s i v Hi. exact (LemmasCo.takeover s i v Hi). Qed.

(* non-vacuity: concrete histories *)
Example C18_demo_struct :
  let s := St.run Refuted.L_combined [St.Hw [7%Z]; St.WriteM 0 3%Z] in (St.cst s, St.cmem s, St.hw s) = ([3%Z], [3%Z], [3%Z]).
Proof. vm_compute. reflexivity. Qed.
Example C18_demo_floatenum :
  let s := Fe.run Refuted.L_desc [Fe.WriteF 1%Z] in (Fe.ci s, Fe.cf s, rev (Fe.evs s)) = (1%Z, 1%Z, [(0, [1%Z]); (1, [1%Z]); (0, [1%Z])]).
Proof. vm_compute. reflexivity. Qed.
Example C18_demo_control :
  let s := Co.run 3 [Co.WriteT 0 1%Z; Co.WriteT 2 5%Z] in
  (Co.by_ s, Co.act s) = (3, [false; false; true]) /\ In (10, [0%Z]) (Co.evs s).
Proof. vm_compute. split; [reflexivity|]. right. right. right. left. reflexivity. Qed.

Print Assumptions C18_source_facts.
Print Assumptions C18_struct_agree_except_unpropagated_assign.
Print Assumptions C18_floatenum_value_from_consistent_init.
Print Assumptions C18_floatenum_value_after_index_update.
Print Assumptions C18_closest.
Print Assumptions C18_limits_respected_except_shadowed.
Print Assumptions C18_limits_respected_partial.
Print Assumptions C18_inverted_refused.
Print Assumptions C18_limits_in_base_range.
Print Assumptions C18_single_controller.
Print Assumptions C18_takeover_switches_previous_off.
Print Assumptions Refuted.C18_refuted_struct_assign_without_combined_methods.
Print Assumptions Refuted.C18_refuted_member_assign_with_combined_methods.
Print Assumptions Refuted.C18_refuted_floatenum_initial_cache.
Print Assumptions Refuted.C18_refuted_floatenum_assign_float.
Print Assumptions Refuted.C18_refuted_limits_tuple_shadows_min_max.
